// GENERATED on every run by vlib/extract.py from /repo -- do not edit
#![allow(unused_imports, unused_variables, unused_mut, dead_code, unused_parens, unused_braces, non_snake_case)]
#![feature(allocator_api)]
use vstd::prelude::*;
use core::cmp::Ordering;
use core::marker::PhantomData;
verus! {

// ---- theory: base.rs ----
// Shared vocabulary. Strings are Seq<char>. Everything marked `uninterp` or `external_body` below is an
// ASSUMPTION about std / Unicode; each is listed in the trusted base and replayed against the real std by
// the A step (exhaustively per char, bounded per string).

pub type SmallString = String;   // R0: purl's own `#[cfg(not(feature = "smartstring"))] type SmallString = String;`

// ---- Unicode tables (uninterpreted) ----
pub uninterp spec fn u_to_lower(c: char) -> Seq<char>;      // char::to_lowercase, as a sequence

pub open spec fn is_ascii_c(c: char) -> bool { (c as u32) < 128 }
pub open spec fn ascii_upper_c(c: char) -> bool { 'A' <= c && c <= 'Z' }
pub open spec fn ascii_lower_c(c: char) -> bool { 'a' <= c && c <= 'z' }
pub open spec fn ascii_digit_c(c: char) -> bool { '0' <= c && c <= '9' }
pub open spec fn ascii_alnum_c(c: char) -> bool { ascii_upper_c(c) || ascii_lower_c(c) || ascii_digit_c(c) }
pub open spec fn ascii_hex_c(c: char) -> bool { ascii_digit_c(c) || ('a' <= c && c <= 'f') || ('A' <= c && c <= 'F') }
pub open spec fn ascii_lower(c: char) -> char { if ascii_upper_c(c) { ((c as u32 + 32) as char) } else { c } }

/// Unicode lower-casing of a string: each character replaced by its lower-case mapping (C08 wording).
pub open spec fn lower_seq(s: Seq<char>) -> Seq<char> decreases s.len()
{ if s.len() == 0 { seq![] } else { lower_seq(s.drop_last()) + u_to_lower(s.last()) } }

/// ASCII lower-casing (what make_ascii_lowercase / to_ascii_lowercase do).
pub open spec fn lower_ascii_seq(s: Seq<char>) -> Seq<char> { s.map_values(|c: char| ascii_lower(c)) }

pub open spec fn all_ascii_lower(s: Seq<char>) -> bool { forall|i: int| 0 <= i < s.len() ==> ascii_lower_c(#[trigger] s[i]) }

pub open spec fn has_char(s: Seq<char>, c: char) -> bool { exists|i: int| 0 <= i < s.len() && s[i] == c }

// A-validated fact (exhaustive over all 128 ASCII chars): on ASCII, Unicode lower-casing is ASCII lower-casing.
#[verifier::external_body]
pub broadcast proof fn axiom_ascii_to_lower(c: char)
    requires is_ascii_c(c)
    ensures #[trigger] u_to_lower(c) == seq![ascii_lower(c)]
{ }

// ---- char methods (assumed = their documented ASCII definitions; A: exhaustive over all scalar values) ----
pub assume_specification [char::is_ascii] (c: &char) -> (r: bool) ensures r == is_ascii_c(*c);
pub assume_specification [char::is_ascii_alphanumeric] (c: &char) -> (r: bool) ensures r == ascii_alnum_c(*c);
pub assume_specification [char::is_ascii_lowercase] (c: &char) -> (r: bool) ensures r == ascii_lower_c(*c);
pub assume_specification [char::is_ascii_hexdigit] (c: &char) -> (r: bool) ensures r == ascii_hex_c(*c);
pub assume_specification [char::is_ascii_uppercase] (c: &char) -> (r: bool) ensures r == ascii_upper_c(*c);
pub assume_specification [char::is_ascii_digit] (c: &char) -> (r: bool) ensures r == ascii_digit_c(*c);
pub assume_specification [char::is_ascii_alphabetic] (c: &char) -> (r: bool) ensures r == (ascii_upper_c(*c) || ascii_lower_c(*c));
pub assume_specification [char::to_ascii_lowercase] (c: &char) -> (r: char) ensures r == ascii_lower(*c);

/// byte length of the UTF-8 encoding (uninterpreted; only that it is a function of the text is used)
pub uninterp spec fn utf8_len(s: Seq<char>) -> nat;
pub assume_specification [String::len] (s: &String) -> (r: usize) ensures r == utf8_len(s@);

pub assume_specification [std::string::String::with_capacity] (n: usize) -> (r: String) ensures r@ == Seq::<char>::empty();

// ---- string wrappers (R3): body IS the original call; only the contract is assumed ----
#[verifier::external_body]
pub fn x_make_ascii_lowercase(s: &mut str)
    ensures final(s)@ == lower_ascii_seq(old(s)@)
{ s.make_ascii_lowercase() }

// `&mut String -> &mut str` deref coercion: same text, writes go through.
pub assume_specification [ <String as core::ops::DerefMut>::deref_mut ] (s: &mut String) -> (r: &mut str)
    ensures r@ == old(s)@, final(r)@ == final(s)@;

/// `<[char]>::contains`
#[verifier::external_body]
pub fn x_slice_contains(s: &[char], c: &char) -> (r: bool)
    ensures r == s@.contains(*c)
{ s.contains(c) }

#[verifier::external_body]
pub fn x_to_ascii_lowercase(s: &str) -> (r: String)
    ensures r@ == lower_ascii_seq(s@)
{ s.to_ascii_lowercase() }

/// `s.chars().flat_map(|c| c.to_lowercase()).collect()`
#[verifier::external_body]
pub fn x_lower_collect(s: &str) -> (r: String)
    ensures r@ == lower_seq(s@)
{ s.chars().flat_map(|c| c.to_lowercase()).collect() }

/// `c.to_lowercase().ne([c])`
#[verifier::external_body]
pub fn x_lower_changes(c: char) -> (r: bool)
    ensures r == (u_to_lower(c) != seq![c])
{ c.to_lowercase().ne([c]) }

/// `result.extend(c.to_lowercase())`
#[verifier::external_body]
pub fn x_extend_lower(s: &mut String, c: char)
    ensures final(s)@ == old(s)@ + u_to_lower(c)
{ s.extend(c.to_lowercase()) }

// String::from(&str) / String::from(String) / .into(): vstd ties From::from to FromSpec; the two instances used by
// purl (with SmallString = String) are assumed to copy / move the text.
#[verifier::external_body]
pub proof fn axiom_string_from()
    ensures
        <String as vstd::std_specs::convert::FromSpec<&str>>::obeys_from_spec(),
        forall|s: &str| (#[trigger] <String as vstd::std_specs::convert::FromSpec<&str>>::from_spec(s))@ == s@,
        <String as vstd::std_specs::convert::FromSpec<String>>::obeys_from_spec(),
        forall|s: String| (#[trigger] <String as vstd::std_specs::convert::FromSpec<String>>::from_spec(s)) == s,
{ }

// ---- lemmas over the vocabulary (proved) ----
pub proof fn lemma_lower_seq_identity(s: Seq<char>)
    requires forall|i: int| 0 <= i < s.len() ==> u_to_lower(#[trigger] s[i]) == seq![s[i]]
    ensures lower_seq(s) == s
    decreases s.len()
{
    if s.len() > 0 {
        lemma_lower_seq_identity(s.drop_last());
        assert(s.drop_last().push(s.last()) == s);
        assert(lower_seq(s) =~= s);
    }
}

pub proof fn lemma_lower_seq_ascii(s: Seq<char>)
    requires forall|i: int| 0 <= i < s.len() ==> (u_to_lower(#[trigger] s[i]) != seq![s[i]] ==> is_ascii_c(s[i]))
    ensures lower_seq(s) == lower_ascii_seq(s)
    decreases s.len()
{
    broadcast use axiom_ascii_to_lower;
    if s.len() > 0 {
        lemma_lower_seq_ascii(s.drop_last());
        let c = s.last();
        if is_ascii_c(c) {
            assert(u_to_lower(c) == seq![ascii_lower(c)]);
        } else {
            assert(u_to_lower(c) == seq![c]);
            assert(ascii_lower(c) == c);
        }
        assert(lower_ascii_seq(s.drop_last()) =~= lower_ascii_seq(s).drop_last());
        assert(lower_seq(s) =~= lower_ascii_seq(s));
    } else {
        assert(lower_seq(s) =~= lower_ascii_seq(s));
    }
}

pub proof fn lemma_lower_seq_push(s: Seq<char>, c: char)
    ensures lower_seq(s.push(c)) == lower_seq(s) + u_to_lower(c)
{
    assert(s.push(c).drop_last() == s);
}

pub proof fn lemma_lower_seq_take(s: Seq<char>, k: int)
    requires 0 <= k < s.len()
    ensures lower_seq(s.take(k + 1)) == lower_seq(s.take(k)) + u_to_lower(s[k])
{
    assert(s.take(k + 1).drop_last() == s.take(k));
}

// ---- trimming / splitting vocabulary (defined, so lemmas about it are proved) ----
pub open spec fn trim_start_spec(s: Seq<char>, c: char) -> Seq<char> decreases s.len()
{ if s.len() > 0 && s[0] == c { trim_start_spec(s.subrange(1, s.len() as int), c) } else { s } }
pub open spec fn trim_end_spec(s: Seq<char>, c: char) -> Seq<char> decreases s.len()
{ if s.len() > 0 && s.last() == c { trim_end_spec(s.drop_last(), c) } else { s } }
pub open spec fn trim_spec(s: Seq<char>, c: char) -> Seq<char> { trim_end_spec(trim_start_spec(s, c), c) }
pub open spec fn all_char(s: Seq<char>, c: char) -> bool { forall|i: int| 0 <= i < s.len() ==> #[trigger] s[i] == c }

/// `s.trim_matches(c)` for a char pattern
#[verifier::external_body]
pub fn x_trim_matches<'a>(s: &'a str, c: char) -> (r: &'a str)
    ensures r@ == trim_spec(s@, c)
{ s.trim_matches(c) }

/// `s.trim_start_matches(c)` for a char pattern
#[verifier::external_body]
pub fn x_trim_start_matches<'a>(s: &'a str, c: char) -> (r: &'a str)
    ensures r@ == trim_start_spec(s@, c)
{ s.trim_start_matches(c) }

/// `s.contains(set)` for a `&[char]` pattern
#[verifier::external_body]
pub fn x_str_contains_any(s: &str, set: &[char]) -> (r: bool)
    ensures r == exists|i: int| 0 <= i < s@.len() && set@.contains(#[trigger] s@[i])
{ s.contains(set) }

/// `s.contains(c)` for a char pattern
#[verifier::external_body]
pub fn x_str_contains_char(s: &str, c: char) -> (r: bool)
    ensures r == has_char(s@, c)
{ s.contains(c) }

pub proof fn lemma_trim_start_all(s: Seq<char>, c: char)
    ensures
        all_char(s, c) ==> trim_start_spec(s, c).len() == 0,
        !all_char(s, c) ==> trim_start_spec(s, c).len() > 0 && trim_start_spec(s, c)[0] != c && !all_char(trim_start_spec(s, c), c),
    decreases s.len()
{
    if s.len() > 0 && s[0] == c {
        let t = s.subrange(1, s.len() as int);
        lemma_trim_start_all(t, c);
        if all_char(s, c) {
            assert forall|i: int| 0 <= i < t.len() implies #[trigger] t[i] == c by { assert(t[i] == s[i + 1]); }
        } else {
            let j = choose|j: int| 0 <= j < s.len() && s[j] != c;
            assert(t[j - 1] == s[j]);
        }
    } else if s.len() > 0 {
        assert(s[0] != c);
    }
}

pub proof fn lemma_trim_end_all(s: Seq<char>, c: char)
    ensures
        all_char(s, c) ==> trim_end_spec(s, c).len() == 0,
        !all_char(s, c) ==> trim_end_spec(s, c).len() > 0,
    decreases s.len()
{
    if s.len() > 0 && s.last() == c {
        let t = s.drop_last();
        lemma_trim_end_all(t, c);
        if !all_char(s, c) {
            let j = choose|j: int| 0 <= j < s.len() && s[j] != c;
            assert(t[j] == s[j]);
        }
    } else if s.len() > 0 {
        assert(s[s.len() - 1] != c);
    }
}

/// trimming leaves nothing exactly when the string consists of the trimmed character only
pub proof fn lemma_trim_empty_iff_all(s: Seq<char>, c: char)
    ensures (trim_spec(s, c).len() == 0) == all_char(s, c)
{
    lemma_trim_start_all(s, c);
    lemma_trim_end_all(trim_start_spec(s, c), c);
}

pub proof fn lemma_lower_ascii_fixed(s: Seq<char>)
    requires forall|i: int| 0 <= i < s.len() ==> !ascii_upper_c(#[trigger] s[i])
    ensures lower_ascii_seq(s) == s
{
    assert(lower_ascii_seq(s) =~= s);
}

// ---- idempotence of lower-casing (C10, C12) ----
/// A-validated (exhaustive over all scalar values): lower-casing the lower-case mapping of a char changes nothing
#[verifier::external_body]
pub proof fn axiom_lower_idem_char(c: char)
    ensures lower_seq(u_to_lower(c)) == u_to_lower(c)
{ }

pub proof fn lemma_lower_seq_concat(a: Seq<char>, b: Seq<char>)
    ensures lower_seq(a + b) == lower_seq(a) + lower_seq(b)
    decreases b.len()
{
    if b.len() == 0 {
        assert(a + b =~= a);
        assert(lower_seq(a) + lower_seq(b) =~= lower_seq(a));
    } else {
        assert((a + b).drop_last() =~= a + b.drop_last());
        assert((a + b).last() == b.last());
        lemma_lower_seq_concat(a, b.drop_last());
        assert(lower_seq(a + b) =~= lower_seq(a) + lower_seq(b));
    }
}

/// lower-casing is a projection: applying it twice is applying it once
pub proof fn lemma_lower_seq_idem(s: Seq<char>)
    ensures lower_seq(lower_seq(s)) == lower_seq(s)
    decreases s.len()
{
    if s.len() > 0 {
        lemma_lower_seq_idem(s.drop_last());
        axiom_lower_idem_char(s.last());
        lemma_lower_seq_concat(lower_seq(s.drop_last()), u_to_lower(s.last()));
    }
}

// A-validated per char (exhaustive over all scalar values): lower-casing never yields the empty string
#[verifier::external_body]
pub proof fn axiom_lower_nonempty(c: char)
    ensures u_to_lower(c).len() > 0
{ }

// ---- theory: split.rs ----
// ---- splitting vocabulary (defined recursively, so the lemmas below are proved, not assumed) ----
pub open spec fn last_index_of(s: Seq<char>, c: char) -> int decreases s.len()
{ if s.len() == 0 { -1 } else if s.last() == c { s.len() - 1 } else { last_index_of(s.drop_last(), c) } }

pub open spec fn first_index_of(s: Seq<char>, c: char) -> int decreases s.len()
{ if s.len() == 0 { -1 } else if s[0] == c { 0 } else { let r = first_index_of(s.subrange(1, s.len() as int), c); if r < 0 { -1 } else { r + 1 } } }

pub proof fn lemma_last_index(s: Seq<char>, c: char)
    ensures
        has_char(s, c) <==> last_index_of(s, c) >= 0,
        last_index_of(s, c) >= 0 ==> last_index_of(s, c) < s.len() && s[last_index_of(s, c)] == c
            && forall|j: int| last_index_of(s, c) < j < s.len() ==> s[j] != c,
        last_index_of(s, c) >= -1,
    decreases s.len()
{
    if s.len() > 0 {
        let t = s.drop_last();
        lemma_last_index(t, c);
        if s.last() == c { assert(s[s.len() - 1] == c); }
        else {
            if has_char(s, c) { let i = choose|i: int| 0 <= i < s.len() && s[i] == c; assert(t[i] == c); }
            if has_char(t, c) { let i = choose|i: int| 0 <= i < t.len() && t[i] == c; assert(s[i] == c); }
            assert forall|j: int| last_index_of(s, c) < j < s.len() && last_index_of(s, c) >= 0 implies s[j] != c by {
                if j < t.len() { assert(t[j] == s[j]); }
            }
        }
    }
}

pub proof fn lemma_first_index(s: Seq<char>, c: char)
    ensures
        has_char(s, c) <==> first_index_of(s, c) >= 0,
        first_index_of(s, c) >= 0 ==> first_index_of(s, c) < s.len() && s[first_index_of(s, c)] == c
            && forall|j: int| 0 <= j < first_index_of(s, c) ==> s[j] != c,
        first_index_of(s, c) >= -1,
    decreases s.len()
{
    if s.len() > 0 {
        let t = s.subrange(1, s.len() as int);
        lemma_first_index(t, c);
        if s[0] == c { }
        else {
            if has_char(s, c) { let i = choose|i: int| 0 <= i < s.len() && s[i] == c; assert(t[i - 1] == c); }
            if has_char(t, c) { let i = choose|i: int| 0 <= i < t.len() && t[i] == c; assert(s[i + 1] == c); }
            if first_index_of(s, c) >= 0 {
                assert(s[first_index_of(t, c) + 1] == t[first_index_of(t, c)]);
                assert forall|j: int| 0 <= j < first_index_of(s, c) implies s[j] != c by {
                    if j > 0 { assert(t[j - 1] == s[j]); }
                }
            }
        }
    }
}

/// joining `ns`, separator, `name` and splitting at the LAST separator gives the pieces back when `name` has none
pub proof fn lemma_rsplit_join(ns: Seq<char>, name: Seq<char>, c: char)
    requires !has_char(name, c)
    ensures last_index_of(ns + seq![c] + name, c) == ns.len()
    decreases name.len()
{
    let s = ns + seq![c] + name;
    if name.len() == 0 {
        assert(s.last() == c);
    } else {
        assert(s.last() == name.last());
        assert(name[name.len() - 1] != c);
        assert(s.drop_last() =~= ns + seq![c] + name.drop_last());
        assert forall|i: int| 0 <= i < name.drop_last().len() implies name.drop_last()[i] != c by { assert(name[i] != c); }
        lemma_rsplit_join(ns, name.drop_last(), c);
    }
}

/// ... and at the FIRST separator when `ns` has none
pub proof fn lemma_split_join(ns: Seq<char>, name: Seq<char>, c: char)
    requires !has_char(ns, c)
    ensures first_index_of(ns + seq![c] + name, c) == ns.len()
    decreases ns.len()
{
    let s = ns + seq![c] + name;
    if ns.len() == 0 {
        assert(s[0] == c);
    } else {
        assert(s[0] == ns[0]);
        assert(ns[0] != c);
        let ns1 = ns.subrange(1, ns.len() as int);
        assert(s.subrange(1, s.len() as int) =~= ns1 + seq![c] + name);
        assert forall|i: int| 0 <= i < ns1.len() implies ns1[i] != c by { assert(ns[i + 1] != c); }
        lemma_split_join(ns1, name, c);
    }
}

/// `s.rsplit_once(c)` for a char pattern
#[verifier::external_body]
pub fn x_rsplit_once<'a>(s: &'a str, c: char) -> (r: Option<(&'a str, &'a str)>)
    ensures match r {
        None => last_index_of(s@, c) < 0,
        Some((a, b)) => last_index_of(s@, c) >= 0 && a@ == s@.subrange(0, last_index_of(s@, c))
            && b@ == s@.subrange(last_index_of(s@, c) + 1, s@.len() as int),
    }
{ s.rsplit_once(c) }

/// `s.split_once(c)` for a char pattern
#[verifier::external_body]
pub fn x_split_once<'a>(s: &'a str, c: char) -> (r: Option<(&'a str, &'a str)>)
    ensures match r {
        None => first_index_of(s@, c) < 0,
        Some((a, b)) => first_index_of(s@, c) >= 0 && a@ == s@.subrange(0, first_index_of(s@, c))
            && b@ == s@.subrange(first_index_of(s@, c) + 1, s@.len() as int),
    }
{ s.split_once(c) }

/// `Some(s).filter(|v| !v.is_empty())`
#[verifier::external_body]
pub fn x_some_nonempty<'a>(s: &'a str) -> (r: Option<&'a str>)
    ensures s@.len() == 0 ==> r is None, s@.len() > 0 ==> r is Some && r->Some_0@ == s@
{ Some(s).filter(|v| !v.is_empty()) }

/// `format!("{}<sep>{}", a, b)` for a one-character literal separator
#[verifier::external_body]
pub fn x_concat3(a: &str, sep: char, b: &str) -> (r: String)
    ensures r@ == a@ + seq![sep] + b@
{ let mut r = String::from(a); r.push(sep); r.push_str(b); r }

/// pieces between raw occurrences of `c`
pub open spec fn split_spec(s: Seq<char>, c: char) -> Seq<Seq<char>> decreases s.len()
{
    if first_index_of(s, c) < 0 || first_index_of(s, c) >= s.len() { seq![s] }
    else { seq![s.subrange(0, first_index_of(s, c))] + split_spec(s.subrange(first_index_of(s, c) + 1, s.len() as int), c) }
}


/// `s.split(c)` for a char pattern, collected (the loop below iterates over the collected pieces)
#[verifier::external_body]
pub fn x_split<'a>(s: &'a str, c: char) -> (r: Vec<&'a str>)
    ensures r@.len() == split_spec(s@, c).len(), forall|i: int| 0 <= i < r@.len() ==> (#[trigger] r@[i])@ == split_spec(s@, c)[i]
{ s.split(c).collect() }


// ---- generic facts about has_char (used by the inverse and checksum theories) ----
pub proof fn lemma_has_char_concat(a: Seq<char>, b: Seq<char>, c: char)
    ensures has_char(a + b, c) == (has_char(a, c) || has_char(b, c))
{
    if has_char(a, c) { let i = choose|i: int| 0 <= i < a.len() && a[i] == c; assert((a + b)[i] == c); }
    if has_char(b, c) { let i = choose|i: int| 0 <= i < b.len() && b[i] == c; assert((a + b)[a.len() + i] == c); }
    if has_char(a + b, c) {
        let i = choose|i: int| 0 <= i < (a + b).len() && (a + b)[i] == c;
        if i < a.len() { assert(a[i] == c); } else { assert(b[i - a.len()] == c); }
    }
}


pub proof fn lemma_single_excludes(c: char, x: char)
    requires c != x
    ensures !has_char(seq![c], x)
{
    if has_char(seq![c], x) { let i = choose|i: int| 0 <= i < seq![c].len() && seq![c][i] == x; }
}


pub proof fn lemma_split_pieces_no_sep(s: Seq<char>, c: char)
    ensures forall|i: int| 0 <= i < split_spec(s, c).len() ==> !has_char(#[trigger] split_spec(s, c)[i], c)
    decreases s.len()
{
    lemma_first_index(s, c);
    let f = first_index_of(s, c);
    if f < 0 || f >= s.len() {
        assert(split_spec(s, c) =~= seq![s]);
    } else {
        let head = s.subrange(0, f);
        let tail = s.subrange(f + 1, s.len() as int);
        lemma_split_pieces_no_sep(tail, c);
        if has_char(head, c) { let i = choose|i: int| 0 <= i < head.len() && head[i] == c; assert(s[i] == c); }
        let ps = split_spec(s, c);
        assert(ps =~= seq![head] + split_spec(tail, c));
        assert forall|i: int| 0 <= i < ps.len() implies !has_char(#[trigger] ps[i], c) by {
            if i == 0 { assert(ps[0] == head); } else { assert(ps[i] == split_spec(tail, c)[i - 1]); }
        }
    }
}


// ---- unit T.PurlField  <= purl/src/parse.rs:112 ----
#[derive(Debug, Clone, Copy)]
pub enum PurlField {
    PackageType,
    Namespace,
    Name,
    Version,
    Subpath,
}
// ---- unit T.ParseError  <= purl/src/parse.rs:17 ----
#[derive(Debug)]
pub enum ParseError {
    UnsupportedUrlScheme,
    MissingRequiredField(PurlField),
    InvalidPackageType,
    InvalidQualifier,
    InvalidEscape,
}
// ---- unit T.QualifierKey  <= purl/src/qualifiers.rs:319 ----
pub struct QualifierKey(pub SmallString);
// ---- unit T.Qualifiers  <= purl/src/qualifiers.rs:21 ----
pub struct Qualifiers {
    pub qualifiers: Vec<(QualifierKey, SmallString)>,
}
// ---- unit T.PurlParts  <= purl/src/lib.rs:212 ----
pub struct PurlParts {
    pub namespace: SmallString,
    pub name: SmallString,
    pub version: SmallString,
    pub qualifiers: Qualifiers,
    pub subpath: SmallString,
}
// ---- unit T.MixedQualifierKey  <= purl/src/qualifiers.rs:553 ----
pub enum MixedQualifierKey<S> {
    Lower(S),
    Mixed(S),
}
// ---- unit theory.qual  <= (contracts):0 ----
// ---- qualifier keys (C04, C05, C11: ASCII letters, digits, '.', '-', '_'; non-empty) ----
pub open spec fn key_char(c: char) -> bool { ascii_alnum_c(c) || c == '.' || c == '-' || c == '_' }
pub open spec fn valid_key(s: Seq<char>) -> bool { s.len() > 0 && forall|i: int| 0 <= i < s.len() ==> key_char(#[trigger] s[i]) }
/// canonical stored form: valid and free of ASCII upper-case
pub open spec fn canon_key(s: Seq<char>) -> bool { valid_key(s) && forall|i: int| 0 <= i < s.len() ==> !ascii_upper_c(#[trigger] s[i]) }

// ---- lexicographic order on Seq<char> by scalar value (= byte-wise order of the UTF-8 text, = str::cmp) ----
pub open spec fn lex_cmp(a: Seq<char>, b: Seq<char>) -> Ordering decreases a.len()
{
    if a.len() == 0 { if b.len() == 0 { Ordering::Equal } else { Ordering::Less } }
    else if b.len() == 0 { Ordering::Greater }
    else if (a[0] as u32) < (b[0] as u32) { Ordering::Less }
    else if (a[0] as u32) > (b[0] as u32) { Ordering::Greater }
    else { lex_cmp(a.subrange(1, a.len() as int), b.subrange(1, b.len() as int)) }
}
pub open spec fn str_lt(a: Seq<char>, b: Seq<char>) -> bool { lex_cmp(a, b) is Less }

pub proof fn lemma_lex_eq(a: Seq<char>, b: Seq<char>)
    ensures (lex_cmp(a, b) is Equal) == (a == b)
    decreases a.len()
{
    if a.len() > 0 && b.len() > 0 {
        if a[0] == b[0] {
            lemma_lex_eq(a.subrange(1, a.len() as int), b.subrange(1, b.len() as int));
            if a.subrange(1, a.len() as int) == b.subrange(1, b.len() as int) {
                assert(a =~= seq![a[0]] + a.subrange(1, a.len() as int));
                assert(b =~= seq![b[0]] + b.subrange(1, b.len() as int));
            }
        } else {
            assert((a[0] as u32) != (b[0] as u32));
        }
    } else {
        assert((a == b) == (a.len() == 0 && b.len() == 0)) by { if a.len() == 0 && b.len() == 0 { assert(a =~= b); } }
    }
}

pub proof fn lemma_lex_flip(a: Seq<char>, b: Seq<char>)
    ensures
        (lex_cmp(a, b) is Less) == (lex_cmp(b, a) is Greater),
        (lex_cmp(a, b) is Greater) == (lex_cmp(b, a) is Less),
    decreases a.len()
{
    if a.len() > 0 && b.len() > 0 && a[0] == b[0] {
        lemma_lex_flip(a.subrange(1, a.len() as int), b.subrange(1, b.len() as int));
    }
}

pub proof fn lemma_lex_trans(a: Seq<char>, b: Seq<char>, c: Seq<char>)
    requires str_lt(a, b), str_lt(b, c)
    ensures str_lt(a, c)
    decreases a.len()
{
    if a.len() > 0 && b.len() > 0 && c.len() > 0 && a[0] == b[0] && b[0] == c[0] {
        lemma_lex_trans(a.subrange(1, a.len() as int), b.subrange(1, b.len() as int), c.subrange(1, c.len() as int));
    }
}

pub proof fn lemma_lt_irrefl(a: Seq<char>)
    ensures !str_lt(a, a)
{
    lemma_lex_eq(a, a);
}

// ---- the representation invariant of Qualifiers (C04, C11): keys canonical, strictly ascending ----
pub open spec fn keys_sorted(v: Seq<(QualifierKey, SmallString)>) -> bool {
    forall|i: int, j: int| 0 <= i < j < v.len() ==> str_lt(#[trigger] v[i].0.0@, #[trigger] v[j].0.0@)
}
pub open spec fn keys_canon(v: Seq<(QualifierKey, SmallString)>) -> bool {
    forall|i: int| 0 <= i < v.len() ==> canon_key(#[trigger] v[i].0.0@)
}
pub open spec fn wf_seq(v: Seq<(QualifierKey, SmallString)>) -> bool { keys_sorted(v) && keys_canon(v) }

/// abstract content: key text -> value text (a function of the sequence; unique positions because keys are strictly ascending)
pub open spec fn has_key(v: Seq<(QualifierKey, SmallString)>, k: Seq<char>) -> bool {
    exists|i: int| 0 <= i < v.len() && #[trigger] v[i].0.0@ == k
}
pub open spec fn has_pair(v: Seq<(QualifierKey, SmallString)>, k: Seq<char>, val: Seq<char>) -> bool {
    exists|i: int| 0 <= i < v.len() && #[trigger] v[i].0.0@ == k && v[i].1@ == val
}

pub proof fn lemma_sorted_unique(v: Seq<(QualifierKey, SmallString)>, i: int, j: int)
    requires keys_sorted(v), 0 <= i < v.len(), 0 <= j < v.len(), v[i].0.0@ == v[j].0.0@
    ensures i == j
{
    lemma_lt_irrefl(v[i].0.0@);
    if i < j { assert(str_lt(v[i].0.0@, v[j].0.0@)); }
    if j < i { assert(str_lt(v[j].0.0@, v[i].0.0@)); }
}

/// the position of key `k` in a strictly ascending list = number of keys smaller than `k` (names the witness, so
/// whole-content postconditions need no existential)
pub open spec fn pos_of(v: Seq<(QualifierKey, SmallString)>, k: Seq<char>) -> int decreases v.len()
{
    if v.len() == 0 { 0 } else { pos_of(v.drop_last(), k) + if str_lt(v.last().0.0@, k) { 1int } else { 0int } }
}

pub proof fn lemma_pos_of(v: Seq<(QualifierKey, SmallString)>, k: Seq<char>, i: int)
    requires 0 <= i <= v.len(),
        forall|j: int| 0 <= j < i ==> str_lt(#[trigger] v[j].0.0@, k),
        forall|j: int| i <= j < v.len() ==> !str_lt(#[trigger] v[j].0.0@, k),
    ensures pos_of(v, k) == i
    decreases v.len()
{
    if v.len() > 0 {
        let w = v.drop_last();
        if i == v.len() {
            assert forall|j: int| 0 <= j < i - 1 implies str_lt(#[trigger] w[j].0.0@, k) by { assert(w[j] == v[j]); }
            lemma_pos_of(w, k, i - 1);
            assert(str_lt(v[v.len() - 1].0.0@, k));
        } else {
            assert forall|j: int| 0 <= j < i implies str_lt(#[trigger] w[j].0.0@, k) by { assert(w[j] == v[j]); }
            assert forall|j: int| i <= j < w.len() implies !str_lt(#[trigger] w[j].0.0@, k) by { assert(w[j] == v[j]); }
            lemma_pos_of(w, k, i);
            assert(!str_lt(v[v.len() - 1].0.0@, k));
        }
    }
}

pub proof fn lemma_lt_asym(a: Seq<char>, b: Seq<char>)
    requires str_lt(a, b)
    ensures !str_lt(b, a)
{
    lemma_lex_flip(a, b);
}

/// in a strictly ascending list, the value paired with key `k` is the one at `pos_of(k)`
pub proof fn lemma_has_pair_pos(v: Seq<(QualifierKey, SmallString)>, k: Seq<char>)
    requires keys_sorted(v)
    ensures forall|val: Seq<char>| has_pair(v, k, val) ==> 0 <= pos_of(v, k) < v.len() && v[pos_of(v, k)].0.0@ == k && v[pos_of(v, k)].1@ == val
{
    assert forall|val: Seq<char>| has_pair(v, k, val) implies 0 <= pos_of(v, k) < v.len() && v[pos_of(v, k)].0.0@ == k && v[pos_of(v, k)].1@ == val by {
        let i = choose|i: int| 0 <= i < v.len() && #[trigger] v[i].0.0@ == k && v[i].1@ == val;
        assert forall|j: int| 0 <= j < i implies str_lt(#[trigger] v[j].0.0@, k) by { assert(str_lt(v[j].0.0@, v[i].0.0@)); }
        assert forall|j: int| i <= j < v.len() implies !str_lt(#[trigger] v[j].0.0@, k) by {
            if j == i { lemma_lt_irrefl(k); } else { assert(str_lt(v[i].0.0@, v[j].0.0@)); lemma_lt_asym(k, v[j].0.0@); }
        }
        lemma_pos_of(v, k, i);
    }
}
// ---- R9: stub of std's AsRef, with a specification of the text it exposes ----
pub uninterp spec fn view_of<T: ?Sized>(t: &T) -> Seq<char>;
#[verifier::external_body]
pub broadcast proof fn axiom_view_of_str(s: &str)
    ensures #[trigger] view_of::<str>(s) == s@
{ }

pub trait AsRef<T: ?Sized> {
    spec fn text(&self) -> Seq<char>;
    fn as_ref(&self) -> (r: &T)
        ensures view_of(r) == self.text();
}
impl AsRef<str> for str {
    open spec fn text(&self) -> Seq<char> { self@ }
    fn as_ref(&self) -> (r: &str) { broadcast use axiom_view_of_str; self }
}
impl<T: ?Sized + AsRef<str>> AsRef<str> for &T {
    open spec fn text(&self) -> Seq<char> { (**self).text() }
    fn as_ref(&self) -> (r: &str) { (**self).as_ref() }
}
impl AsRef<str> for String {
    open spec fn text(&self) -> Seq<char> { self@ }
    fn as_ref(&self) -> (r: &str) { broadcast use axiom_view_of_str; self.as_str() }
}

/// ASSUMED coherence of std conversions: for every K that is both `AsRef<str>` and convertible into SmallString,
/// `SmallString::from(k)` has the text `k.as_ref()` (true for &str, String, SmallString, Cow<str>, Box<str>, ...).
#[verifier::external_body]
pub proof fn axiom_from_keeps_text<K: AsRef<str>>()
    where String: From<K>
    ensures
        <String as vstd::std_specs::convert::FromSpec<K>>::obeys_from_spec(),
        forall|k: K| (#[trigger] <String as vstd::std_specs::convert::FromSpec<K>>::from_spec(k))@ == k.text(),
{ }

pub assume_specification [std::cmp::Ordering::is_eq] (o: Ordering) -> (r: bool) ensures r == (o is Equal);

/// `a.chars().cmp(b.chars().flat_map(|c| c.to_lowercase()))`: Iterator::cmp is lexicographic by scalar value
#[verifier::external_body]
pub fn x_cmp_chars_lower(a: &str, b: &str) -> (r: Ordering)
    ensures r == lex_cmp(a@, lower_seq(b@))
{ a.chars().cmp(b.chars().flat_map(|c| c.to_lowercase())) }

pub open spec fn ord_rank(o: Ordering) -> int { match o { Ordering::Less => 0, Ordering::Equal => 1, Ordering::Greater => 2 } }

pub open spec fn key_cmp(kv: (QualifierKey, SmallString), t: Seq<char>) -> Ordering { lex_cmp(kv.0.0@, t) }

/// a strictly ascending key list is partitioned Less* Equal? Greater* by comparison with any target
pub proof fn lemma_sorted_partition(v: Seq<(QualifierKey, SmallString)>, t: Seq<char>)
    requires keys_sorted(v)
    ensures forall|i: int, j: int| 0 <= i < j < v.len() ==> ord_rank(key_cmp(#[trigger] v[i], t)) <= ord_rank(key_cmp(#[trigger] v[j], t))
{
    assert forall|i: int, j: int| 0 <= i < j < v.len() implies ord_rank(key_cmp(#[trigger] v[i], t)) <= ord_rank(key_cmp(#[trigger] v[j], t)) by {
        let a = v[i].0.0@;
        let b = v[j].0.0@;
        assert(str_lt(a, b));
        if lex_cmp(a, t) is Greater {
            lemma_lex_flip(a, t);
            lemma_lex_trans(t, a, b);
            lemma_lex_flip(t, b);
        } else if lex_cmp(a, t) is Equal {
            lemma_lex_eq(a, t);
            lemma_lex_flip(t, b);
        }
    }
}



/// documented panic: indexing a qualifier that is absent
#[verifier::external_body]
pub fn x_panic_absent() -> !
    requires false
{ panic!() }

impl<S: AsRef<str>> MixedQualifierKey<S> {
    pub open spec fn text(&self) -> Seq<char> {
        match self { MixedQualifierKey::Lower(s) => s.text(), MixedQualifierKey::Mixed(s) => s.text() }
    }
    /// valid key; the `Lower` tag promises there is nothing to lower-case
    pub open spec fn wf(&self) -> bool {
        valid_key(self.text()) && (self is Lower ==> all_ascii_lower(self.text()))
    }
    pub open spec fn canon(&self) -> Seq<char> { lower_ascii_seq(self.text()) }
}
pub proof fn lemma_canon_of_valid(s: Seq<char>)
    requires valid_key(s)
    ensures canon_key(lower_ascii_seq(s)), lower_seq(s) == lower_ascii_seq(s)
{
    let l = lower_ascii_seq(s);
    assert forall|i: int| 0 <= i < l.len() implies key_char(#[trigger] l[i]) && !ascii_upper_c(l[i]) by {
        assert(key_char(s[i]));
    }
    assert forall|i: int| 0 <= i < s.len() implies (u_to_lower(#[trigger] s[i]) != seq![s[i]] ==> is_ascii_c(s[i])) by {
        assert(key_char(s[i]));
    }
    lemma_lower_seq_ascii(s);
}

impl Qualifiers {
// ---- unit spec.Qualifiers  <= (contracts):0 ----
    /// representation invariant (C04, C11): keys valid, lower-case, strictly ascending
    pub open spec fn wf(&self) -> bool { wf_seq(self.qualifiers@) }
}
// ---- unit T.OccupiedEntry  <= purl/src/qualifiers.rs:421 ----
pub struct OccupiedEntry<'a, K> {
    pub qualifiers: &'a mut Vec<(QualifierKey, SmallString)>,
    pub index: usize,
    pub key: PhantomData<K>,
}
// ---- unit T.VacantEntry  <= purl/src/qualifiers.rs:470 ----
pub struct VacantEntry<'a, K> {
    pub qualifiers: &'a mut Vec<(QualifierKey, SmallString)>,
    pub index: usize,
    pub key: MixedQualifierKey<K>,
}
// ---- unit T.Entry  <= purl/src/qualifiers.rs:374 ----
pub enum Entry<'a, K> {
    Occupied(OccupiedEntry<'a, K>),
    Vacant(VacantEntry<'a, K>),
}
// ---- unit spec.entries  <= (contracts):0 ----

impl<'a, K> OccupiedEntry<'a, K> {
    pub open spec fn wf(&self) -> bool { wf_seq(self.qualifiers@) && self.index < self.qualifiers@.len() }
}
impl<'a, K: AsRef<str>> VacantEntry<'a, K> {
    /// `index` is the one position where `key` can be inserted keeping the list strictly ascending
    pub open spec fn wf(&self) -> bool {
        wf_seq(self.qualifiers@) && self.key.wf() && self.index <= self.qualifiers@.len()
        && (forall|j: int| 0 <= j < self.index ==> str_lt(#[trigger] self.qualifiers@[j].0.0@, self.key.canon()))
        && (forall|j: int| self.index <= j < self.qualifiers@.len() ==> str_lt(self.key.canon(), #[trigger] self.qualifiers@[j].0.0@))
    }
}
pub proof fn lemma_insert_keeps_wf(v: Seq<(QualifierKey, SmallString)>, i: int, kv: (QualifierKey, SmallString))
    requires wf_seq(v), 0 <= i <= v.len(), canon_key(kv.0.0@),
        forall|j: int| 0 <= j < i ==> str_lt(#[trigger] v[j].0.0@, kv.0.0@),
        forall|j: int| i <= j < v.len() ==> str_lt(kv.0.0@, #[trigger] v[j].0.0@),
    ensures wf_seq(v.insert(i, kv))
{
    let w = v.insert(i, kv);
    assert forall|a: int, b: int| 0 <= a < b < w.len() implies str_lt(#[trigger] w[a].0.0@, #[trigger] w[b].0.0@) by {
        if a < i && b == i { assert(w[a] == v[a]); }
        else if a < i && b > i { assert(w[a] == v[a]); assert(w[b] == v[b - 1]); }
        else if a == i { assert(w[b] == v[b - 1]); }
        else if a > i { assert(w[a] == v[a - 1]); assert(w[b] == v[b - 1]); }
        else { assert(w[a] == v[a]); assert(w[b] == v[b]); }
    }
    assert forall|a: int| 0 <= a < w.len() implies canon_key(#[trigger] w[a].0.0@) by {
        if a < i { assert(w[a] == v[a]); } else if a > i { assert(w[a] == v[a - 1]); }
    }
}
pub proof fn lemma_remove_keeps_wf(v: Seq<(QualifierKey, SmallString)>, i: int)
    requires wf_seq(v), 0 <= i < v.len()
    ensures wf_seq(v.remove(i))
{
    let w = v.remove(i);
    assert forall|a: int, b: int| 0 <= a < b < w.len() implies str_lt(#[trigger] w[a].0.0@, #[trigger] w[b].0.0@) by {
        let a0 = if a < i { a } else { a + 1 };
        let b0 = if b < i { b } else { b + 1 };
        assert(w[a] == v[a0]); assert(w[b] == v[b0]);
    }
    assert forall|a: int| 0 <= a < w.len() implies canon_key(#[trigger] w[a].0.0@) by {
        let a0 = if a < i { a } else { a + 1 };
        assert(w[a] == v[a0]);
    }
}
pub proof fn lemma_update_value_keeps_wf(v: Seq<(QualifierKey, SmallString)>, i: int, val: SmallString)
    requires wf_seq(v), 0 <= i < v.len()
    ensures wf_seq(v.update(i, (v[i].0, val)))
{
    let w = v.update(i, (v[i].0, val));
    assert forall|a: int, b: int| 0 <= a < b < w.len() implies str_lt(#[trigger] w[a].0.0@, #[trigger] w[b].0.0@) by {
        assert(w[a].0 == v[a].0); assert(w[b].0 == v[b].0);
    }
    assert forall|a: int| 0 <= a < w.len() implies canon_key(#[trigger] w[a].0.0@) by { assert(w[a].0 == v[a].0); }
}
/// a key that sorts strictly between its neighbours is not in the list
pub proof fn lemma_gap_not_present(v: Seq<(QualifierKey, SmallString)>, i: int, k: Seq<char>)
    requires 0 <= i <= v.len(),
        forall|j: int| 0 <= j < i ==> str_lt(#[trigger] v[j].0.0@, k),
        forall|j: int| i <= j < v.len() ==> str_lt(k, #[trigger] v[j].0.0@),
    ensures !has_key(v, k)
{
    lemma_lt_irrefl(k);
}

// ---- unit theory.types  <= (contracts):0 ----
// ---- R9: stub of std::borrow::Cow for B = str (two variants, same names) ----
pub enum Cow<'a, B: ?Sized> { Borrowed(&'a B), Owned(String) }

impl<'a> View for Cow<'a, str> {
    type V = Seq<char>;
    open spec fn view(&self) -> Seq<char> {
        match self { Cow::Borrowed(b) => b@, Cow::Owned(o) => o@ }
    }
}

impl<'a> core::ops::Deref for Cow<'a, str> {
    type Target = str;
    fn deref(&self) -> (r: &str)
        ensures r@ == self@
    {
        match self { Cow::Borrowed(b) => b, Cow::Owned(o) => o.as_str() }
    }
}

// R9: `String: From<Cow<str>>` for the stub Cow (std: the owned text, or a copy of the borrowed text)
pub uninterp spec fn string_of_cow<'a>(c: Cow<'a, str>) -> String;
#[verifier::external_body]
pub broadcast proof fn axiom_string_of_cow<'a>(c: Cow<'a, str>)
    ensures (#[trigger] string_of_cow(c))@ == c@
{ }
impl<'a> vstd::std_specs::convert::FromSpecImpl<Cow<'a, str>> for String {
    open spec fn obeys_from_spec() -> bool { true }
    open spec fn from_spec(c: Cow<'a, str>) -> String { string_of_cow(c) }
}
impl<'a> From<Cow<'a, str>> for String {
    #[verifier::external_body]
    fn from(c: Cow<'a, str>) -> (r: String)
    { match c { Cow::Borrowed(b) => b.to_string(), Cow::Owned(o) => o } }
}

// ---- vocabulary for package types (written from C02/C04/C05: letters, digits, '.', '+', '-'; non-empty) ----
pub open spec fn type_char(c: char) -> bool { ascii_alnum_c(c) || c == '.' || c == '+' || c == '-' }
pub open spec fn valid_type(s: Seq<char>) -> bool { s.len() > 0 && forall|i: int| 0 <= i < s.len() ==> type_char(#[trigger] s[i]) }

/// What every built-in string-like shape must do in `finish` (C04, C13): validate, then ASCII-lower-case; parts untouched.
pub open spec fn shape_rel(t0: Seq<char>, p0: PurlParts, t1: Seq<char>, p1: PurlParts, r: Result<(), ParseError>) -> bool {
    p1 == p0
    && (valid_type(t0) ==> r is Ok && t1 == lower_ascii_seq(t0))
    && (!valid_type(t0) ==> r == Err::<(), ParseError>(ParseError::InvalidPackageType))
}


/// C10 / C13 (type string): validating and ASCII-lower-casing twice is doing it once
pub proof fn lemma_shape_idem(t0: Seq<char>, p0: PurlParts, t1: Seq<char>, p1: PurlParts, t2: Seq<char>, p2: PurlParts, r2: Result<(), ParseError>)
    requires shape_rel(t0, p0, t1, p1, Ok::<(), ParseError>(())), shape_rel(t1, p1, t2, p2, r2)
    ensures r2 is Ok, t2 == t1, p2 == p1
{
    assert(valid_type(t0));
    let l = lower_ascii_seq(t0);
    assert(t1 == l);
    assert forall|i: int| 0 <= i < l.len() implies type_char(#[trigger] l[i]) && !ascii_upper_c(l[i]) by { assert(type_char(t0[i])); }
    assert(valid_type(l));
    lemma_lower_ascii_fixed(l);
}

// ---- unit theory.segs  <= (contracts):0 ----
// ---- percent-decoding (uninterpreted) and the segment folds, written from C02 / C05 / C07 ----
/// percent-decode + strict UTF-8 (the `percent-encoding` crate + `str::from_utf8`); None = refused
pub uninterp spec fn dec(s: Seq<char>) -> Option<Seq<char>>;

pub open spec fn is_dot(p: Seq<char>) -> bool { p == seq!['.'] }
pub open spec fn is_dotdot(p: Seq<char>) -> bool { p == seq!['.', '.'] }
pub open spec fn sub_skipped(p: Seq<char>) -> bool { p.len() == 0 || is_dot(p) || is_dotdot(p) }
pub open spec fn ns_skipped(p: Seq<char>) -> bool { p.len() == 0 }
pub open spec fn sub_bad(p: Seq<char>) -> bool {
    dec(p) is None || has_char(dec(p)->Some_0, '/') || is_dot(dec(p)->Some_0) || is_dotdot(dec(p)->Some_0)
}
pub open spec fn ns_bad(p: Seq<char>) -> bool { dec(p) is None || has_char(dec(p)->Some_0, '/') }
pub open spec fn join_push(acc: Seq<char>, seg: Seq<char>) -> Seq<char> { if acc.len() == 0 { seg } else { acc + seq!['/'] + seg } }

/// subpath: skip raw '', '.', '..'; refuse a piece that does not decode, or decodes to something containing '/' or to '.' / '..'
pub open spec fn sub_fold(pieces: Seq<Seq<char>>) -> Option<Seq<char>> decreases pieces.len() {
    if pieces.len() == 0 { Some(Seq::<char>::empty()) } else {
        match sub_fold(pieces.drop_last()) {
            None => None,
            Some(acc) => if sub_skipped(pieces.last()) { Some(acc) } else if sub_bad(pieces.last()) { None }
                         else { Some(join_push(acc, dec(pieces.last())->Some_0)) },
        }
    }
}
/// namespace: skip raw ''; refuse a piece that does not decode or decodes to something containing '/'
pub open spec fn ns_fold(pieces: Seq<Seq<char>>) -> Option<Seq<char>> decreases pieces.len() {
    if pieces.len() == 0 { Some(Seq::<char>::empty()) } else {
        match ns_fold(pieces.drop_last()) {
            None => None,
            Some(acc) => if ns_skipped(pieces.last()) { Some(acc) } else if ns_bad(pieces.last()) { None }
                         else { Some(join_push(acc, dec(pieces.last())->Some_0)) },
        }
    }
}

pub proof fn lemma_sub_fold_none(ps: Seq<Seq<char>>, k: int)
    requires 0 <= k <= ps.len(), sub_fold(ps.take(k)) is None
    ensures sub_fold(ps) is None
    decreases ps.len() - k
{
    if k < ps.len() {
        assert(ps.take(k + 1).drop_last() == ps.take(k));
        lemma_sub_fold_none(ps, k + 1);
    } else { assert(ps.take(k) == ps); }
}
pub proof fn lemma_ns_fold_none(ps: Seq<Seq<char>>, k: int)
    requires 0 <= k <= ps.len(), ns_fold(ps.take(k)) is None
    ensures ns_fold(ps) is None
    decreases ps.len() - k
{
    if k < ps.len() {
        assert(ps.take(k + 1).drop_last() == ps.take(k));
        lemma_ns_fold_none(ps, k + 1);
    } else { assert(ps.take(k) == ps); }
}

/// `[a, b, c].contains(&s)` on string slices
#[verifier::external_body]
pub fn x_is_one_of3(s: &str, a: &str, b: &str, c: &str) -> (r: bool)
    ensures r == (s@ == a@ || s@ == b@ || s@ == c@)
{ [a, b, c].contains(&s) }
#[verifier::external_body]
pub fn x_is_one_of2(s: &str, a: &str, b: &str) -> (r: bool)
    ensures r == (s@ == a@ || s@ == b@)
{ [a, b].contains(&s) }

/// `write!(w, "{}", d).unwrap()` on a String: appends the text (fmt::Write for String never fails)
#[verifier::external_body]
pub fn x_push_display(w: &mut String, d: &str)
    ensures final(w)@ == old(w)@ + d@
{ use std::fmt::Write; write!(w, "{}", d).unwrap() }

// ---- unit theory.dq  <= (contracts):0 ----
// ---- qualifiers part of the parser (C02, C05), written from the statements ----
pub type KV = Seq<(Seq<char>, Seq<char>)>;
pub open spec fn kvs(v: Seq<(QualifierKey, SmallString)>) -> KV { v.map_values(|e: (QualifierKey, SmallString)| (e.0.0@, e.1@)) }

pub open spec fn kv_has_key(v: KV, k: Seq<char>) -> bool { exists|i: int| 0 <= i < v.len() && (#[trigger] v[i]).0 == k }
pub open spec fn kv_pos_of(v: KV, k: Seq<char>) -> int decreases v.len()
{ if v.len() == 0 { 0 } else { kv_pos_of(v.drop_last(), k) + if str_lt(v.last().0, k) { 1int } else { 0int } } }

pub proof fn lemma_kvs_pos_of(v: Seq<(QualifierKey, SmallString)>, k: Seq<char>)
    ensures kv_pos_of(kvs(v), k) == pos_of(v, k), kv_has_key(kvs(v), k) == has_key(v, k)
    decreases v.len()
{
    if v.len() > 0 {
        assert(kvs(v).drop_last() =~= kvs(v.drop_last()));
        lemma_kvs_pos_of(v.drop_last(), k);
        assert(kvs(v).last().0 == v.last().0.0@);
    }
    if has_key(v, k) { let i = choose|i: int| 0 <= i < v.len() && #[trigger] v[i].0.0@ == k; assert(kvs(v)[i].0 == k); }
    if kv_has_key(kvs(v), k) { let i = choose|i: int| 0 <= i < kvs(v).len() && (#[trigger] kvs(v)[i]).0 == k; assert(v[i].0.0@ == k); }
}

pub enum DqErr { Qualifier, Escape }

/// one `key=value` item, in the order the statement lists the defects: no '=', invalid key, key already present,
/// value not decodable; an empty decoded value is skipped; otherwise the pair is inserted at its sorted position
pub open spec fn dq_step(acc: KV, item: Seq<char>) -> Result<KV, DqErr> {
    let i = first_index_of(item, '=');
    if i < 0 { Err(DqErr::Qualifier) } else {
        let k = item.subrange(0, i);
        let v = item.subrange(i + 1, item.len() as int);
        if !valid_key(k) { Err(DqErr::Qualifier) }
        else if kv_has_key(acc, lower_ascii_seq(k)) { Err(DqErr::Qualifier) }
        else if dec(v) is None { Err(DqErr::Escape) }
        else if dec(v)->Some_0.len() == 0 { Ok(acc) }
        else { Ok(acc.insert(kv_pos_of(acc, lower_ascii_seq(k)), (lower_ascii_seq(k), dec(v)->Some_0))) }
    }
}
pub open spec fn dq_fold(items: Seq<Seq<char>>, acc0: KV) -> Result<KV, DqErr> decreases items.len() {
    if items.len() == 0 { Ok(acc0) } else {
        match dq_fold(items.drop_last(), acc0) { Err(e) => Err(e), Ok(acc) => dq_step(acc, items.last()) }
    }
}
pub open spec fn dq_err(e: ParseError, d: DqErr) -> bool {
    match d { DqErr::Qualifier => e == ParseError::InvalidQualifier, DqErr::Escape => e == ParseError::InvalidEscape }
}
pub proof fn lemma_dq_fold_err(items: Seq<Seq<char>>, acc0: KV, k: int)
    requires 0 <= k <= items.len(), dq_fold(items.take(k), acc0) is Err
    ensures dq_fold(items, acc0) == dq_fold(items.take(k), acc0)
    decreases items.len() - k
{
    if k < items.len() {
        assert(items.take(k + 1).drop_last() == items.take(k));
        lemma_dq_fold_err(items, acc0, k + 1);
    } else { assert(items.take(k) == items); }
}

// ---- unit theory.cksum  <= (contracts):0 ----
// ---- checksum qualifier: typed value <-> text (C04, C12), written from the statements ----
// R9: stub of std::collections::HashMap as used by Checksum (String keys, Cow<str> values); every operation on it is an
// assumed wrapper (std HashMap semantics). Its iteration order is modelled as ARBITRARY.
#[verifier::external_body]
#[verifier::accept_recursive_types(K)]
#[verifier::accept_recursive_types(V)]
pub struct HashMap<K, V> { _k: core::marker::PhantomData<K>, _v: core::marker::PhantomData<V> }

pub uninterp spec fn hm_view<'a>(m: HashMap<SmallString, Cow<'a, str>>) -> Map<Seq<char>, Seq<char>>;

/// entries as text pairs (algorithm, hex)
pub type VS = Seq<(Seq<char>, Seq<char>)>;
/// the text pairs of a vector of owned entries
pub open spec fn ev<'a>(es: Seq<(SmallString, Cow<'a, str>)>) -> VS { es.map_values(|e: (SmallString, Cow<'a, str>)| (e.0@, e.1@)) }

/// `es` lists every entry of `m` exactly once (in any order)
#[verifier::opaque]
pub open spec fn is_listing(es: VS, m: Map<Seq<char>, Seq<char>>) -> bool {
    (forall|i: int| 0 <= i < es.len() ==> m.contains_key(#[trigger] es[i].0) && m[es[i].0] == es[i].1)
    && (forall|i: int, j: int| 0 <= i < j < es.len() ==> #[trigger] es[i].0 != #[trigger] es[j].0)
    && (forall|k: Seq<char>| m.contains_key(k) ==> exists|i: int| 0 <= i < es.len() && #[trigger] es[i].0 == k)
}
#[verifier::opaque]
pub open spec fn sorted_by_key(es: VS) -> bool {
    forall|i: int, j: int| 0 <= i < j < es.len() ==> str_lt(#[trigger] es[i].0, #[trigger] es[j].0)
}

pub open spec fn hex_ok(v: Seq<char>) -> bool { (forall|i: int| 0 <= i < v.len() ==> ascii_hex_c(#[trigger] v[i])) && v.len() % 2 == 0 }
pub open spec fn entry_text(k: Seq<char>, v: Seq<char>) -> Seq<char> { k + seq![':'] + lower_ascii_seq(v) }
/// "comma-separated list of algorithm:hex entries", in the order of `es`
pub open spec fn listing_text(es: VS) -> Seq<char> decreases es.len() {
    if es.len() == 0 { Seq::<char>::empty() }
    else if es.len() == 1 { entry_text(es[0].0, es[0].1) }
    else { listing_text(es.drop_last()) + seq![','] + entry_text(es.last().0, es.last().1) }
}
pub open spec fn all_hex_ok(es: VS) -> bool { forall|i: int| 0 <= i < es.len() ==> hex_ok(#[trigger] es[i].1) }

/// ASSUMED (UTF-8): an all-ASCII string has as many bytes as chars
#[verifier::external_body]
pub proof fn axiom_utf8_len_ascii(s: Seq<char>)
    requires forall|i: int| 0 <= i < s.len() ==> is_ascii_c(#[trigger] s[i])
    ensures utf8_len(s) == s.len()
{ }

#[verifier::external_body]
pub fn x_str_len(s: &str) -> (r: usize)
    ensures r == utf8_len(s@)
{ s.len() }

/// `value.chars().filter(|c| *c == ch).count()`; a str never has more than isize::MAX bytes
#[verifier::external_body]
pub fn x_count_char(s: &str, ch: char) -> (r: usize)
    ensures r < usize::MAX
{ s.chars().filter(|c| *c == ch).count() }

#[verifier::external_body]
pub fn x_hm_with_capacity<'a>(n: usize) -> (r: HashMap<SmallString, Cow<'a, str>>)
    ensures hm_view(r) == Map::<Seq<char>, Seq<char>>::empty()
{ unimplemented!() }

/// `m.insert(k, v)`
#[verifier::external_body]
pub fn x_hm_insert<'a>(m: &mut HashMap<SmallString, Cow<'a, str>>, k: SmallString, v: Cow<'a, str>) -> (r: Option<Cow<'a, str>>)
    ensures hm_view(*final(m)) == hm_view(*old(m)).insert(k@, v@), r is Some == hm_view(*old(m)).contains_key(k@)
{ unimplemented!() }

/// `m.into_iter().collect::<Vec<_>>()`: every entry once, in an ARBITRARY order (hash seed, insertion history)
#[verifier::external_body]
pub fn x_hm_into_vec<'a>(m: HashMap<SmallString, Cow<'a, str>>) -> (r: Vec<(SmallString, Cow<'a, str>)>)
    ensures is_listing(ev(r@), hm_view(m))
{ unimplemented!() }

/// what `sort_unstable_by(|a, b| a.0.cmp(&b.0))` does: a permutation, ordered (non-strictly) by the keys
/// (String::cmp = byte-wise = scalar-value order). Four separately opaque facts (revealing both inclusion directions at once
/// sends the solver into a matching loop).
#[verifier::opaque]
pub open spec fn perm_into(before: VS, after: VS) -> bool {
    forall|i: int| 0 <= i < before.len() ==> exists|j: int| 0 <= j < after.len() && after[j] == #[trigger] before[i]
}
#[verifier::opaque]
pub open spec fn perm_from(before: VS, after: VS) -> bool {
    forall|j: int| 0 <= j < after.len() ==> exists|i: int| 0 <= i < before.len() && before[i] == #[trigger] after[j]
}
#[verifier::opaque]
pub open spec fn ordered_by_key(after: VS) -> bool {
    forall|i: int, j: int| 0 <= i < j < after.len() ==> !str_lt(#[trigger] after[j].0, #[trigger] after[i].0)
}
pub open spec fn distinct_keys(es: VS) -> bool {
    forall|i: int, j: int| 0 <= i < j < es.len() ==> #[trigger] es[i].0 != #[trigger] es[j].0
}
pub open spec fn is_sorted_perm(before: VS, after: VS) -> bool {
    after.len() == before.len() && perm_into(before, after) && perm_from(before, after) && ordered_by_key(after)
    // a permutation keeps pairwise-distinct keys pairwise distinct
    && (distinct_keys(before) ==> distinct_keys(after))
}

/// `v.sort_unstable_by(|a, b| a.0.cmp(&b.0))`
#[verifier::external_body]
pub fn x_sort_by_key0<'a>(v: &mut Vec<(SmallString, Cow<'a, str>)>)
    ensures is_sorted_perm(ev(old(v)@), ev(final(v)@)), final(v)@.len() == old(v)@.len()
{ unimplemented!() }

/// `v.iter().map(|(k, v)| k.len() + 1 + v.len()).sum::<usize>()`; ASSUMED not to overflow (the strings are all in memory)
#[verifier::external_body]
pub fn x_sum_entry_lens<'a>(v: &Vec<(SmallString, Cow<'a, str>)>) -> (r: usize)
    ensures r + v@.len() <= usize::MAX
{ unimplemented!() }

/// `s.extend(t.chars().map(|c| c.to_ascii_lowercase()))`
#[verifier::external_body]
pub fn x_extend_ascii_lower(s: &mut String, t: &str)
    ensures final(s)@ == old(s)@ + lower_ascii_seq(t@)
{ s.extend(t.chars().map(|c| c.to_ascii_lowercase())) }

/// a permutation of a duplicate-free listing, ordered non-strictly, is ordered strictly and is still a listing
pub proof fn lemma_perm_members(before: VS, after: VS, m: Map<Seq<char>, Seq<char>>)
    requires is_listing(before, m), is_sorted_perm(before, after)
    ensures forall|i: int| 0 <= i < after.len() ==> m.contains_key(#[trigger] after[i].0) && m[after[i].0] == after[i].1
{
    reveal(is_listing); reveal(perm_from);
    assert forall|i: int| 0 <= i < after.len() implies m.contains_key(#[trigger] after[i].0) && m[after[i].0] == after[i].1 by {
        let k = choose|k: int| 0 <= k < before.len() && before[k] == after[i];
        assert(m.contains_key(before[k].0));
    }
}
pub proof fn lemma_perm_covers(before: VS, after: VS, m: Map<Seq<char>, Seq<char>>)
    requires is_listing(before, m), is_sorted_perm(before, after)
    ensures forall|k: Seq<char>| m.contains_key(k) ==> exists|i: int| 0 <= i < after.len() && #[trigger] after[i].0 == k
{
    reveal(is_listing); reveal(perm_into);
    assert forall|k: Seq<char>| m.contains_key(k) implies exists|i: int| 0 <= i < after.len() && #[trigger] after[i].0 == k by {
        let b = choose|b: int| 0 <= b < before.len() && #[trigger] before[b].0 == k;
        let j = choose|j: int| 0 <= j < after.len() && after[j] == before[b];
        assert(after[j].0 == k);
    }
}
pub proof fn lemma_perm_strict(before: VS, after: VS, m: Map<Seq<char>, Seq<char>>)
    requires is_listing(before, m), is_sorted_perm(before, after)
    ensures
        forall|i: int, j: int| 0 <= i < j < after.len() ==> #[trigger] after[i].0 != #[trigger] after[j].0,
        sorted_by_key(after),
{
    reveal(is_listing); reveal(ordered_by_key); reveal(sorted_by_key);
    assert forall|i: int, j: int| 0 <= i < j < after.len() implies str_lt(#[trigger] after[i].0, #[trigger] after[j].0) by {
        let (a, b) = (after[i].0, after[j].0);
        lemma_lex_eq(a, b);
        lemma_lex_flip(a, b);
    }
}
pub proof fn lemma_sorted_listing(before: VS, after: VS, m: Map<Seq<char>, Seq<char>>)
    requires is_listing(before, m), is_sorted_perm(before, after)
    ensures is_listing(after, m), sorted_by_key(after)
{
    lemma_perm_members(before, after, m);
    lemma_perm_covers(before, after, m);
    lemma_perm_strict(before, after, m);
    reveal(is_listing);
}

/// C12: the text does not depend on the order in which the map hands out its entries -- two strictly sorted listings of
/// the same map are the same sequence of (key text, value text)
pub proof fn lemma_sorted_listing_unique(a: VS, b: VS, m: Map<Seq<char>, Seq<char>>)
    requires is_listing(a, m), sorted_by_key(a), is_listing(b, m), sorted_by_key(b)
    ensures a.len() == b.len(), forall|i: int| 0 <= i < a.len() ==> (#[trigger] a[i]).0 == b[i].0 && a[i].1 == b[i].1
    decreases a.len()
{
    reveal(is_listing); reveal(sorted_by_key);
    if a.len() == 0 {
        if b.len() > 0 { assert(m.contains_key(b[0].0)); let i = choose|i: int| 0 <= i < a.len() && #[trigger] a[i].0 == b[0].0; }
    } else if b.len() == 0 {
        assert(m.contains_key(a[0].0)); let i = choose|i: int| 0 <= i < b.len() && #[trigger] b[i].0 == a[0].0;
    } else {
        // the largest key is last in both
        let ka = a.last().0;
        let kb = b.last().0;
        assert(m.contains_key(a[a.len() - 1].0));
        assert(m.contains_key(b[b.len() - 1].0));
        let ib = choose|i: int| 0 <= i < b.len() && #[trigger] b[i].0 == ka;
        let ia = choose|i: int| 0 <= i < a.len() && #[trigger] a[i].0 == kb;
        if ia < a.len() - 1 { assert(str_lt(a[ia].0, a[a.len() - 1].0)); }
        if ib < b.len() - 1 { assert(str_lt(b[ib].0, b[b.len() - 1].0)); }
        if ka != kb {
            // kb < ka (position in a) and ka < kb (position in b): contradiction
            lemma_lt_asym(kb, ka);
        }
        let m2 = m.remove(ka);
        let a2 = a.drop_last();
        let b2 = b.drop_last();
        assert(is_listing(a2, m2)) by {
            assert forall|i: int| 0 <= i < a2.len() implies m2.contains_key(#[trigger] a2[i].0) && m2[a2[i].0] == a2[i].1 by {
                assert(a2[i] == a[i]); assert(a[i].0 != a[a.len() - 1].0);
            }
            assert forall|k: Seq<char>| m2.contains_key(k) implies exists|i: int| 0 <= i < a2.len() && #[trigger] a2[i].0 == k by {
                let i = choose|i: int| 0 <= i < a.len() && #[trigger] a[i].0 == k;
                assert(a2[i] == a[i]);
            }
            assert forall|i: int, j: int| 0 <= i < j < a2.len() implies #[trigger] a2[i].0 != #[trigger] a2[j].0 by { assert(a2[i] == a[i]); assert(a2[j] == a[j]); }
        }
        assert(is_listing(b2, m2)) by {
            assert forall|i: int| 0 <= i < b2.len() implies m2.contains_key(#[trigger] b2[i].0) && m2[b2[i].0] == b2[i].1 by {
                assert(b2[i] == b[i]); assert(b[i].0 != b[b.len() - 1].0);
            }
            assert forall|k: Seq<char>| m2.contains_key(k) implies exists|i: int| 0 <= i < b2.len() && #[trigger] b2[i].0 == k by {
                let i = choose|i: int| 0 <= i < b.len() && #[trigger] b[i].0 == k;
                assert(b2[i] == b[i]);
            }
            assert forall|i: int, j: int| 0 <= i < j < b2.len() implies #[trigger] b2[i].0 != #[trigger] b2[j].0 by { assert(b2[i] == b[i]); assert(b2[j] == b[j]); }
        }
        assert(sorted_by_key(a2)) by { assert forall|i: int, j: int| 0 <= i < j < a2.len() implies str_lt(#[trigger] a2[i].0, #[trigger] a2[j].0) by { assert(a2[i] == a[i]); assert(a2[j] == a[j]); } }
        assert(sorted_by_key(b2)) by { assert forall|i: int, j: int| 0 <= i < j < b2.len() implies str_lt(#[trigger] b2[i].0, #[trigger] b2[j].0) by { assert(b2[i] == b[i]); assert(b2[j] == b[j]); } }
        lemma_sorted_listing_unique(a2, b2, m2);
        assert forall|i: int| 0 <= i < a.len() implies (#[trigger] a[i]).0 == b[i].0 && a[i].1 == b[i].1 by {
            if i < a.len() - 1 { assert(a2[i] == a[i]); assert(b2[i] == b[i]); }
        }
    }
}

pub proof fn lemma_bad_entry(es: VS, m: Map<Seq<char>, Seq<char>>, i: int)
    requires is_listing(es, m), 0 <= i < es.len(), !hex_ok(es[i].1)
    ensures exists|k: Seq<char>| m.contains_key(k) && !hex_ok(#[trigger] m[k])
{
    reveal(is_listing);
    assert(m.contains_key(es[i].0) && m[es[i].0] == es[i].1);
}
pub proof fn lemma_all_ok(es: VS, m: Map<Seq<char>, Seq<char>>)
    requires is_listing(es, m), forall|i: int| 0 <= i < es.len() ==> hex_ok(#[trigger] es[i].1)
    ensures forall|k: Seq<char>| m.contains_key(k) ==> hex_ok(#[trigger] m[k])
{
    reveal(is_listing);
    assert forall|k: Seq<char>| m.contains_key(k) implies hex_ok(#[trigger] m[k]) by {
        let i = choose|i: int| 0 <= i < es.len() && #[trigger] es[i].0 == k;
        assert(m[es[i].0] == es[i].1);
    }
}
pub proof fn lemma_listing_text_step(es: VS, i: int)
    requires 0 <= i < es.len()
    ensures listing_text(es.take(i + 1)) ==
        (if i == 0 { entry_text(es[i].0, es[i].1) } else { listing_text(es.take(i)) + seq![','] + entry_text(es[i].0, es[i].1) })
{
    assert(es.take(i + 1).drop_last() == es.take(i));
    assert(es.take(i + 1).last() == es[i]);
    if i == 0 { assert(es.take(1)[0] == es[0]); }
}
pub proof fn lemma_hex_is_ascii(v: Seq<char>)
    requires forall|i: int| 0 <= i < v.len() ==> ascii_hex_c(#[trigger] v[i])
    ensures utf8_len(v) == v.len()
{
    assert forall|i: int| 0 <= i < v.len() implies is_ascii_c(#[trigger] v[i]) by { assert(ascii_hex_c(v[i])); }
    axiom_utf8_len_ascii(v);
}
pub proof fn lemma_listing_text_nonempty_iff(es: VS)
    ensures (listing_text(es).len() == 0) ==> es.len() == 0
    decreases es.len()
{
    if es.len() == 1 { } else if es.len() > 1 { }
}

/// C04 / C12: THE text form of a set of entries: defined for maps whose every value is an even number of hex digits,
/// as the text of the strictly sorted listing (unique by lemma_sorted_listing_unique)
pub open spec fn all_values_hex(m: Map<Seq<char>, Seq<char>>) -> bool { forall|k: Seq<char>| m.contains_key(k) ==> hex_ok(#[trigger] m[k]) }
pub open spec fn canon_listing(m: Map<Seq<char>, Seq<char>>) -> VS { choose|vs: VS| is_listing(vs, m) && sorted_by_key(vs) }
pub open spec fn canon_text(m: Map<Seq<char>, Seq<char>>) -> Seq<char> { listing_text(canon_listing(m)) }

pub proof fn lemma_canon_listing(vs: VS, m: Map<Seq<char>, Seq<char>>)
    requires is_listing(vs, m), sorted_by_key(vs)
    ensures canon_listing(m) == vs
{
    let c = canon_listing(m);
    lemma_sorted_listing_unique(vs, c, m);
    assert(vs =~= c) by {
        assert forall|i: int| 0 <= i < vs.len() implies vs[i] == c[i] by { assert(vs[i].0 == c[i].0 && vs[i].1 == c[i].1); }
    }
}

// ---- text -> typed (C12): "split ',', rsplit_once ':', lower-case the algorithm, refuse duplicates" ----
pub open spec fn ck_fold(pieces: Seq<Seq<char>>) -> Option<Map<Seq<char>, Seq<char>>> decreases pieces.len() {
    if pieces.len() == 0 { Some(Map::<Seq<char>, Seq<char>>::empty()) } else {
        match ck_fold(pieces.drop_last()) {
            None => None,
            Some(m) => {
                let p = pieces.last();
                let i = last_index_of(p, ':');
                if i < 0 { None }                                             // entry without ':'
                else if m.contains_key(lower_seq(p.subrange(0, i))) { None }   // algorithm repeated in any case
                else { Some(m.insert(lower_seq(p.subrange(0, i)), p.subrange(i + 1, p.len() as int))) }
            },
        }
    }
}
pub open spec fn ck_parse(text: Seq<char>) -> Option<Map<Seq<char>, Seq<char>>> { ck_fold(split_spec(text, ',')) }

pub proof fn lemma_ck_fold_none(ps: Seq<Seq<char>>, k: int)
    requires 0 <= k <= ps.len(), ck_fold(ps.take(k)) is None
    ensures ck_fold(ps) is None
    decreases ps.len() - k
{
    if k < ps.len() {
        assert(ps.take(k + 1).drop_last() == ps.take(k));
        lemma_ck_fold_none(ps, k + 1);
    } else { assert(ps.take(k) == ps); }
}

/// the typed -> text conversion as a partial function of the entries (C04, C12)
pub open spec fn ck_text(m: Map<Seq<char>, Seq<char>>) -> Option<Seq<char>> { if all_values_hex(m) { Some(canon_text(m)) } else { None } }
pub open spec fn checksum_key() -> Seq<char> { seq!['c', 'h', 'e', 'c', 'k', 's', 'u', 'm'] }

/// a checksum parsed from any text has at least one entry, and the text form of a non-empty entry set is non-empty
pub proof fn lemma_ck_fold_nonempty(ps: Seq<Seq<char>>)
    requires ps.len() > 0, ck_fold(ps) is Some
    ensures exists|k: Seq<char>| (#[trigger] ck_fold(ps)->Some_0.contains_key(k))
{
    let p = ps.last();
    let i = last_index_of(p, ':');
    let m = ck_fold(ps.drop_last())->Some_0;
    let k = lower_seq(p.subrange(0, i));
    assert(ck_fold(ps)->Some_0 == m.insert(k, p.subrange(i + 1, p.len() as int)));
    assert(ck_fold(ps)->Some_0.contains_key(k));
}
pub proof fn lemma_split_nonempty(s: Seq<char>, c: char)
    ensures split_spec(s, c).len() > 0
    decreases s.len()
{
    if !(first_index_of(s, c) < 0 || first_index_of(s, c) >= s.len()) { }
}
pub proof fn lemma_listing_text_nonempty(es: VS)
    requires es.len() > 0
    ensures listing_text(es).len() > 0
    decreases es.len()
{
    if es.len() == 1 { assert(entry_text(es[0].0, es[0].1).len() >= 1); }
    else { assert(listing_text(es).len() >= 1); }
}
pub proof fn lemma_ck_parse_nonempty(text: Seq<char>)
    requires ck_parse(text) is Some
    ensures exists|k: Seq<char>| (#[trigger] ck_parse(text)->Some_0.contains_key(k))
{
    lemma_split_nonempty(text, ',');
    lemma_ck_fold_nonempty(split_spec(text, ','));
}
pub proof fn lemma_listing_covers(es: VS, m: Map<Seq<char>, Seq<char>>, k: Seq<char>)
    requires is_listing(es, m), m.contains_key(k)
    ensures es.len() > 0
{
    reveal(is_listing);
    let i = choose|i: int| 0 <= i < es.len() && #[trigger] es[i].0 == k;
}

// ---- typed accessors of Checksum (C12) ----
/// representation invariant of Checksum: every algorithm name is stored lower-cased
pub open spec fn keys_lower(m: Map<Seq<char>, Seq<char>>) -> bool { forall|k: Seq<char>| #[trigger] m.contains_key(k) ==> lower_seq(k) == k }

/// `m.get_mut(k)`
#[verifier::external_body]
pub fn x_hm_get_mut<'a, 'b>(m: &'b mut HashMap<SmallString, Cow<'a, str>>, k: &str) -> (r: Option<&'b mut Cow<'a, str>>)
    ensures match r {
        Some(v) => hm_view(*old(m)).contains_key(k@) && (*v)@ == hm_view(*old(m))[k@]
            && hm_view(*final(m)) == hm_view(*old(m)).insert(k@, (*final(v))@),
        None => !hm_view(*old(m)).contains_key(k@) && hm_view(*final(m)) == hm_view(*old(m)),
    }
{ unimplemented!() }
/// `m.get(k)`
#[verifier::external_body]
pub fn x_hm_get<'a, 'b>(m: &'b HashMap<SmallString, Cow<'a, str>>, k: &str) -> (r: Option<&'b Cow<'a, str>>)
    ensures match r {
        Some(v) => hm_view(*m).contains_key(k@) && (*v)@ == hm_view(*m)[k@],
        None => !hm_view(*m).contains_key(k@),
    }
{ unimplemented!() }
/// `m.remove(k)`
#[verifier::external_body]
pub fn x_hm_remove<'a>(m: &mut HashMap<SmallString, Cow<'a, str>>, k: &str) -> (r: Option<Cow<'a, str>>)
    ensures hm_view(*final(m)) == hm_view(*old(m)).remove(k@)
{ unimplemented!() }

pub proof fn lemma_ck_fold_keys_lower(ps: Seq<Seq<char>>)
    requires ck_fold(ps) is Some
    ensures keys_lower(ck_fold(ps)->Some_0)
    decreases ps.len()
{
    if ps.len() > 0 {
        lemma_ck_fold_keys_lower(ps.drop_last());
        let p = ps.last();
        let i = last_index_of(p, ':');
        lemma_lower_seq_idem(p.subrange(0, i));
    }
}

// ---- unit T.Checksum  <= purl/src/qualifiers/well_known.rs:99 ----
pub struct Checksum<'a> {
    pub algorithms: HashMap<SmallString, Cow<'a, str>>,
}
// ---- unit spec.Checksum  <= (contracts):0 ----

impl<'a> Checksum<'a> {
    /// the entries: lower-cased algorithm -> hex text as written
    pub open spec fn entries(&self) -> Map<Seq<char>, Seq<char>> { hm_view(self.algorithms) }
}

// ---- unit T.KnownQualifierKey  <= purl/src/qualifiers/well_known.rs:17 ----
pub trait KnownQualifierKey {
    const KEY: &'static str;
}
// ---- unit T.GenericPurlBuilder  <= purl/src/builder.rs:25 ----
pub struct GenericPurlBuilder<T> {
    pub package_type: T,
    pub parts: PurlParts,
}
// ---- unit T.GenericPurl  <= purl/src/lib.rs:251 ----
pub struct GenericPurl<T> {
    pub package_type: T,
    pub parts: PurlParts,
}
// ---- unit stub.builder  <= (contracts):0 ----

// R9: derive(Default) on PurlParts / Qualifiers (derive semantics, assumed): all fields empty
impl Default for PurlParts {
    fn default() -> (r: Self)
        ensures r.namespace@.len() == 0, r.name@.len() == 0, r.version@.len() == 0, r.subpath@.len() == 0, r.qualifiers.qualifiers@.len() == 0
    { PurlParts { namespace: String::new(), name: String::new(), version: String::new(),
                  qualifiers: Qualifiers { qualifiers: Vec::new() }, subpath: String::new() } }
}

// ---- unit theory.calllog_types  <= (contracts):0 ----
// ---- C14: ghost record of the calls made to user code (the conversion and the finishing hook) ----
// Contracts speak about one call; "at most once per parse", "exactly once per build()", "never before the conversion succeeded"
// are statements about the HISTORY of calls. The history is made visible to the contracts as ghost state: group `c14` re-extracts
// `from_str` and `build()` with one extra GHOST parameter (erased at compile time; rewrite R11 adds it to the two signatures and to
// every call of `T::from_str`, `.finish(..)` and `.build()` found in the two bodies), and the two trait stubs append to it.
pub ghost enum Call {
    /// `T::from_str(text)` was called; `ok`: it returned `Ok`
    Conv { text: Seq<char>, ok: bool },
    /// `finish` was called
    Hook,
}
pub tracked struct CallLog { pub ghost calls: Seq<Call> }


// ---- unit T.PurlShape  <= purl/src/lib.rs:111 ----
pub trait PurlShape: Sized {
    type Error: From<ParseError>;
    spec fn type_text(&self) -> Seq<char>;
    fn package_type(&self) -> (r: Cow<str>)
        ensures r@ == self.type_text();
    spec fn finish_rel(t0: Self, p0: PurlParts, t1: Self, p1: PurlParts, r: Result<(), Self::Error>) -> bool;
    fn finish(&mut self, parts: &mut PurlParts, Tracked(log): Tracked<&mut CallLog>) -> (r: Result<(), Self::Error>)
        ensures final(log).calls == old(log).calls.push(Call::Hook),
            Self::finish_rel(*old(self), *old(parts), *final(self), *final(parts), r),
            // the hook can only reach the qualifier list through its public API, every mutator of which is
            // proved to preserve the representation invariant (group `qual`); assumed for user-written hooks
            wf_seq(old(parts).qualifiers.qualifiers@) ==> wf_seq(final(parts).qualifiers.qualifiers@);
}
// ---- unit theory.build  <= (contracts):0 ----
// ---- what build() must do after the hook (C04, C09, C14), written from the property statements ----

/// the sub-list of pairs whose value is non-empty, order kept ("empty-valued qualifiers are removed")
pub open spec fn nonempty_part(v: Seq<(QualifierKey, SmallString)>) -> Seq<(QualifierKey, SmallString)> decreases v.len()
{
    if v.len() == 0 { seq![] }
    else if v.last().1@.len() > 0 { nonempty_part(v.drop_last()).push(v.last()) }
    else { nonempty_part(v.drop_last()) }
}

pub proof fn lemma_nonempty_subset(v: Seq<(QualifierKey, SmallString)>)
    ensures
        forall|i: int| 0 <= i < nonempty_part(v).len() ==>
            (#[trigger] nonempty_part(v)[i]).1@.len() > 0 && exists|j: int| 0 <= j < v.len() && v[j] == nonempty_part(v)[i],
    decreases v.len()
{
    if v.len() > 0 {
        let w0 = v.drop_last();
        lemma_nonempty_subset(w0);
        let w = nonempty_part(w0);
        let n = nonempty_part(v);
        assert forall|i: int| 0 <= i < n.len() implies
            (#[trigger] n[i]).1@.len() > 0 && exists|j: int| 0 <= j < v.len() && v[j] == n[i] by {
            if i < w.len() {
                assert(n[i] == w[i]);
                let j = choose|j: int| 0 <= j < w0.len() && w0[j] == w[i];
                assert(v[j] == n[i]);
            } else {
                assert(n[i] == v[v.len() - 1]);
            }
        }
    }
}

pub proof fn lemma_wf_drop_last(v: Seq<(QualifierKey, SmallString)>)
    requires wf_seq(v), v.len() > 0
    ensures wf_seq(v.drop_last())
{
    let w0 = v.drop_last();
    assert forall|a: int, b: int| 0 <= a < b < w0.len() implies str_lt(#[trigger] w0[a].0.0@, #[trigger] w0[b].0.0@) by {
        assert(w0[a] == v[a]); assert(w0[b] == v[b]);
    }
    assert forall|a: int| 0 <= a < w0.len() implies canon_key(#[trigger] w0[a].0.0@) by { assert(w0[a] == v[a]); }
}

pub proof fn lemma_nonempty_wf(v: Seq<(QualifierKey, SmallString)>)
    requires wf_seq(v)
    ensures wf_seq(nonempty_part(v))
    decreases v.len()
{
    if v.len() > 0 {
        let w0 = v.drop_last();
        lemma_wf_drop_last(v);
        lemma_nonempty_wf(w0);
        lemma_nonempty_subset(w0);
        lemma_nonempty_subset(v);
        let w = nonempty_part(w0);
        let n = nonempty_part(v);
        assert forall|a: int, b: int| 0 <= a < b < n.len() implies str_lt(#[trigger] n[a].0.0@, #[trigger] n[b].0.0@) by {
            if b < w.len() { assert(n[a] == w[a]); assert(n[b] == w[b]); }
            else {
                assert(n[a] == w[a]);
                let j = choose|j: int| 0 <= j < w0.len() && w0[j] == w[a];
                assert(v[j] == w0[j]);
                assert(str_lt(v[j].0.0@, v[v.len() - 1].0.0@));
            }
        }
        assert forall|a: int| 0 <= a < n.len() implies canon_key(#[trigger] n[a].0.0@) by {
            let j = choose|j: int| 0 <= j < v.len() && v[j] == n[a];
            assert(canon_key(v[j].0.0@));
        }
    }
}

pub proof fn lemma_nonempty_id(v: Seq<(QualifierKey, SmallString)>)
    requires forall|j: int| 0 <= j < v.len() ==> (#[trigger] v[j]).1@.len() > 0
    ensures nonempty_part(v) == v
    decreases v.len()
{
    if v.len() > 0 {
        let w0 = v.drop_last();
        assert forall|j: int| 0 <= j < w0.len() implies (#[trigger] w0[j]).1@.len() > 0 by { assert(w0[j] == v[j]); }
        lemma_nonempty_id(w0);
        assert(v[v.len() - 1].1@.len() > 0);
        assert(nonempty_part(v) =~= v);
    }
}

/// `q.retain(|_, v| !v.is_empty())`  (ASSUMED: Vec::retain keeps exactly the elements the predicate accepts, in order)
#[verifier::external_body]
pub fn x_retain_nonempty(q: &mut Qualifiers)
    ensures final(q).qualifiers@ == nonempty_part(old(q).qualifiers@)
{ unimplemented!() }

pub proof fn lemma_checksum_key()
    ensures "checksum"@ == checksum_key(), valid_key(checksum_key()), lower_ascii_seq(checksum_key()) == checksum_key()
{
    reveal_strlit("checksum");
    assert("checksum"@ =~= checksum_key());
    let k = checksum_key();
    assert forall|i: int| 0 <= i < k.len() implies key_char(#[trigger] k[i]) && !ascii_upper_c(k[i]) by {
        if i == 0 {} else if i == 1 {} else if i == 2 {} else if i == 3 {} else if i == 4 {} else if i == 5 {} else if i == 6 {} else {}
    }
    lemma_lower_ascii_fixed(k);
}

pub open spec fn same_but_qualifiers<T>(g: GenericPurl<T>, t1: T, p1: PurlParts) -> bool {
    g.package_type == t1 && g.parts.namespace == p1.namespace && g.parts.name == p1.name
    && g.parts.version == p1.version && g.parts.subpath == p1.subpath
}

/// C04 / C09 / C14: the result of build() as a function of what the hook left behind (t1, p1, fr)
pub open spec fn build_post<T: PurlShape>(t1: T, p1: PurlParts, fr: Result<(), T::Error>, r: Result<GenericPurl<T>, T::Error>) -> bool {
    let conv = <T::Error as vstd::std_specs::convert::FromSpec<ParseError>>::obeys_from_spec();
    match fr {
        Err(e) => r == Err::<GenericPurl<T>, T::Error>(e),                       // an error from the hook is returned unchanged
        Ok(_) =>
            if p1.name@.len() == 0 {                                              // an emptied name is refused
                r is Err && (conv ==> r->Err_0 == <T::Error as vstd::std_specs::convert::FromSpec<ParseError>>::from_spec(
                    ParseError::MissingRequiredField(PurlField::Name)))
            } else {
                let q2 = nonempty_part(p1.qualifiers.qualifiers@);               // empty-valued qualifiers are removed
                if !has_key(q2, checksum_key()) {
                    r is Ok && same_but_qualifiers(r->Ok_0, t1, p1) && r->Ok_0.parts.qualifiers.qualifiers@ == q2
                } else {
                    let p = pos_of(q2, checksum_key());
                    let canon = match ck_parse(q2[p].1@) { None => None, Some(m) => ck_text(m) };
                    match canon {                                                 // a checksum is canonicalised or refused
                        None => r is Err && (conv ==> r->Err_0 == <T::Error as vstd::std_specs::convert::FromSpec<ParseError>>::from_spec(
                            ParseError::InvalidQualifier)),
                        Some(t) => r is Ok && same_but_qualifiers(r->Ok_0, t1, p1)
                            && r->Ok_0.parts.qualifiers.qualifiers@.len() == q2.len()
                            && r->Ok_0.parts.qualifiers.qualifiers@[p].1@ == t && t.len() > 0
                            && r->Ok_0.parts.qualifiers.qualifiers@ == q2.update(p, (q2[p].0, r->Ok_0.parts.qualifiers.qualifiers@[p].1)),
                    }
                }
            },
    }
}

// ---- unit theory.parse_phase  <= (contracts):0 ----
// ---- the parser's two phases as specification functions (C02, C05, C07, C14) ----
pub open spec fn has_prefix(s: Seq<char>, p: Seq<char>) -> bool { s.len() >= p.len() && s.subrange(0, p.len() as int) == p }

/// right-to-left split at the LAST occurrence of `c`: (left part, right part if `c` occurs)
pub open spec fn rsplit_at(s: Seq<char>, c: char) -> (Seq<char>, Option<Seq<char>>) {
    if last_index_of(s, c) < 0 { (s, None) }
    else { (s.subrange(0, last_index_of(s, c)), Some(s.subrange(last_index_of(s, c) + 1, s.len() as int))) }
}

pub struct PhaseA { pub ty: Seq<char>, pub rest: Seq<char>, pub sub: Seq<char>, pub kv: KV }
pub struct PhaseB { pub ns: Seq<char>, pub name: Seq<char>, pub version: Seq<char> }

pub open spec fn dq_parse_err(d: DqErr) -> ParseError { match d { DqErr::Qualifier => ParseError::InvalidQualifier, DqErr::Escape => ParseError::InvalidEscape } }

/// everything up to the type conversion: scheme, leading slashes, subpath after the last '#', qualifiers after the last '?',
/// type up to the first '/', type syntax
pub open spec fn phase_a(s: Seq<char>) -> Result<PhaseA, ParseError> {
    if !has_prefix(s, "pkg:"@) { Err(ParseError::UnsupportedUrlScheme) } else {
        let s1 = trim_start_spec(s.subrange("pkg:"@.len() as int, s.len() as int), '/');
        let (s2, sub_raw) = rsplit_at(s1, '#');
        let sub = match sub_raw { None => Some(Seq::<char>::empty()), Some(x) => sub_fold(split_spec(trim_spec(x, '/'), '/')) };
        if sub is None { Err(ParseError::InvalidEscape) } else {
            let (s3, q_raw) = rsplit_at(s2, '?');
            let kv = match q_raw { None => Ok::<KV, DqErr>(Seq::<(Seq<char>, Seq<char>)>::empty()), Some(x) => dq_fold(split_spec(x, '&'), Seq::<(Seq<char>, Seq<char>)>::empty()) };
            match kv {
                Err(d) => Err(dq_parse_err(d)),
                Ok(kvv) =>
                    if s3.len() == 0 { Err(ParseError::MissingRequiredField(PurlField::PackageType)) }
                    else if first_index_of(s3, '/') < 0 { Err(ParseError::MissingRequiredField(PurlField::Name)) }
                    else {
                        let ty = s3.subrange(0, first_index_of(s3, '/'));
                        if !valid_type(ty) { Err(ParseError::InvalidPackageType) }
                        else { Ok(PhaseA { ty, rest: s3.subrange(first_index_of(s3, '/') + 1, s3.len() as int), sub: sub->Some_0, kv: kvv }) }
                    },
            }
        }
    }
}

/// after the conversion: version after the last '@', namespace before the last '/', name
pub open spec fn phase_b(rest: Seq<char>) -> Result<PhaseB, ParseError> {
    let (r1, ver_raw) = rsplit_at(rest, '@');
    let version = match ver_raw { None => Some(Seq::<char>::empty()), Some(x) => dec(x) };
    if version is None { Err(ParseError::InvalidEscape) } else {
        let (ns_raw, name_raw) = if last_index_of(r1, '/') < 0 { (None::<Seq<char>>, r1) }
            else { (Some(r1.subrange(0, last_index_of(r1, '/'))), r1.subrange(last_index_of(r1, '/') + 1, r1.len() as int)) };
        let ns = match ns_raw { None => Some(Seq::<char>::empty()), Some(x) => ns_fold(split_spec(trim_spec(x, '/'), '/')) };
        if ns is None { Err(ParseError::InvalidEscape) }
        else if dec(name_raw) is None { Err(ParseError::InvalidEscape) }
        else { Ok(PhaseB { ns: ns->Some_0, name: dec(name_raw)->Some_0, version: version->Some_0 }) }
    }
}


// ---- unit theory.parse  <= (contracts):0 ----
// ---- the parser as a function of the text (C02, C05, C07, C14), written from the statements ----
// R9: stub of std::str::FromStr with a specification of what the (user-supplied) conversion may return
pub trait FromStr: Sized {
    type Err;
    /// what the conversion returns for a given text (any relation: user code)
    spec fn from_str_rel(s: Seq<char>, r: Result<Self, Self::Err>) -> bool;
    fn from_str(s: &str, Tracked(log): Tracked<&mut CallLog>) -> (r: Result<Self, Self::Err>)
        ensures Self::from_str_rel(s@, r), final(log).calls == old(log).calls.push(Call::Conv { text: s@, ok: r is Ok });
}

/// `s.strip_prefix(p)` for a string pattern
#[verifier::external_body]
pub fn x_strip_prefix<'a>(s: &'a str, p: &str) -> (r: Option<&'a str>)
    ensures match r {
        Some(t) => has_prefix(s@, p@) && t@ == s@.subrange(p@.len() as int, s@.len() as int),
        None => !has_prefix(s@, p@),
    }
{ s.strip_prefix(p) }

pub open spec fn parts_are(p: PurlParts, a: PhaseA, b: PhaseB) -> bool {
    p.namespace@ == b.ns && p.name@ == b.name && p.version@ == b.version && p.subpath@ == a.sub
    && kvs(p.qualifiers.qualifiers@) == a.kv && wf_seq(p.qualifiers.qualifiers@)
}

/// C02 / C05 / C14: the result of parsing as a function of the text, the conversion relation and the hook relation
pub open spec fn parse_post<T: FromStr + PurlShape>(s: Seq<char>, r: Result<GenericPurl<T>, <T as PurlShape>::Error>) -> bool
    where <T as PurlShape>::Error: From<<T as FromStr>::Err>
{
    let conv_p = <<T as PurlShape>::Error as vstd::std_specs::convert::FromSpec<ParseError>>::obeys_from_spec();
    let conv_e = <<T as PurlShape>::Error as vstd::std_specs::convert::FromSpec<<T as FromStr>::Err>>::obeys_from_spec();
    match phase_a(s) {
        // a defect before the conversion: the conversion is never consulted
        Err(e) => r is Err && (conv_p ==> r->Err_0 == <<T as PurlShape>::Error as vstd::std_specs::convert::FromSpec<ParseError>>::from_spec(e)),
        // the conversion sees exactly the (syntactically valid) type substring, once
        Ok(a) => exists|cr: Result<T, <T as FromStr>::Err>| #[trigger] T::from_str_rel(a.ty, cr) && match cr {
            Err(ce) => r is Err && (conv_e ==> r->Err_0 == <<T as PurlShape>::Error as vstd::std_specs::convert::FromSpec<<T as FromStr>::Err>>::from_spec(ce)),
            Ok(t0) => match phase_b(a.rest) {
                Err(e) => r is Err && (conv_p ==> r->Err_0 == <<T as PurlShape>::Error as vstd::std_specs::convert::FromSpec<ParseError>>::from_spec(e)),
                // ... and the tail is build(): one hook application, then the generic checks
                Ok(b) => exists|p0: PurlParts, t1: T, p1: PurlParts, fr: Result<(), <T as PurlShape>::Error>|
                    parts_are(p0, a, b) && #[trigger] T::finish_rel(t0, p0, t1, p1, fr) && build_post::<T>(t1, p1, fr, r),
            },
        },
    }
}

// ---- unit theory.calllog  <= (contracts):0 ----
/// the calls one parse of `s` makes, appended to the history `l0` (C14): none before the type substring is known to be valid
/// (`phase_a`: everything the parser does up to the conversion); then the conversion once, on the substring as written; then,
/// only if it succeeded and the rest of the string is well-formed (`phase_b`), the hook once
pub open spec fn proto_ok(l0: Seq<Call>, l1: Seq<Call>, s: Seq<char>) -> bool {
    match phase_a(s) {
        Err(_) => l1 == l0,
        Ok(a) => l1 == l0.push(Call::Conv { text: a.ty, ok: false })
            || match phase_b(a.rest) {
                Err(_) => l1 == l0.push(Call::Conv { text: a.ty, ok: true }),
                Ok(_) => l1 == l0.push(Call::Conv { text: a.ty, ok: true }).push(Call::Hook),
            },
    }
}

// ---- unit U-dec.decode  <= purl/src/parse.rs:297 ----
#[verifier::external_body]
pub fn decode(input: &str) -> (r: Result<Cow<str>, ParseError>)
    ensures match dec(input@) {
        None => r is Err && r->Err_0 == ParseError::InvalidEscape,
        Some(t) => r is Ok && r->Ok_0@ == t,
    }
{ unimplemented!() }
// ---- unit U-sub.decode_subpath  <= purl/src/parse.rs:234 ----
#[verifier::external_body]
pub fn decode_subpath(subpath: &str) -> (r: Result<SmallString, ParseError>)
    ensures match r {
        Ok(out) => sub_fold(split_spec(trim_spec(subpath@, '/'), '/')) == Some(out@),
        Err(e) => sub_fold(split_spec(trim_spec(subpath@, '/'), '/')) is None && e == ParseError::InvalidEscape,
    }
{ unimplemented!() }
// ---- unit U-ns.decode_namespace  <= purl/src/parse.rs:276 ----
#[verifier::external_body]
pub fn decode_namespace(namespace: &str) -> (r: Result<SmallString, ParseError>)
    ensures match r {
        Ok(out) => ns_fold(split_spec(trim_spec(namespace@, '/'), '/')) == Some(out@),
        Err(e) => ns_fold(split_spec(trim_spec(namespace@, '/'), '/')) is None && e == ParseError::InvalidEscape,
    }
{ unimplemented!() }
// ---- unit U-vtype.is_valid_package_type  <= purl/src/lib.rs:380 ----
#[verifier::external_body]
pub fn is_valid_package_type(package_type: &str) -> (r: bool)
    ensures r == valid_type(package_type@)
{ unimplemented!() }
// ---- unit theory.tryfrom  <= (contracts):0 ----
// ---- R9: stub of std's TryFrom with a relation describing what an implementation returns ----
pub trait TryFrom<T>: Sized {
    type Error;
    spec fn try_from_rel(t: T, r: Result<Self, Self::Error>) -> bool;
    fn try_from(t: T) -> (r: Result<Self, Self::Error>)
        ensures Self::try_from_rel(t, r);
}
pub assume_specification<T, E> [Option::<Result<T, E>>::transpose] (o: Option<Result<T, E>>) -> (r: Result<Option<T>, E>)
    ensures match o {
        None => r == Ok::<Option<T>, E>(None),
        Some(Ok(x)) => r == Ok::<Option<T>, E>(Some(x)),
        Some(Err(e)) => r == Err::<Option<T>, E>(e),
    };

impl<'a> TryFrom<Checksum<'a>> for SmallString {
// ---- unit spec.cktext  <= (contracts):0 ----
    type Error = ParseError;
    open spec fn try_from_rel(value: Checksum<'a>, r: Result<SmallString, ParseError>) -> bool { match r {
        // refused exactly when some entry is not an even number of hex digits
        Err(e) => e == ParseError::InvalidQualifier && !all_values_hex(value.entries()),
        // otherwise: the entries in strictly ascending algorithm order, lower-case hex -- one text, for EVERY order in which the map yields them
        Ok(t) => all_values_hex(value.entries()) && t@ == canon_text(value.entries())
            // the text of a non-empty entry set is non-empty
            && ((exists|k: Seq<char>| #[trigger] value.entries().contains_key(k)) ==> t@.len() > 0),
    } }
// ---- unit U-cktext.checksum_to_text  <= purl/src/qualifiers/well_known.rs:133 ----
#[verifier::external_body]
fn try_from(value: Checksum<'a>) -> (r: Result<Self, Self::Error>)

{ unimplemented!() }
}
impl<'a> TryFrom<&'a str> for Checksum<'a> {
// ---- unit spec.ckparse  <= (contracts):0 ----
    type Error = ParseError;
    open spec fn try_from_rel(value: &'a str, r: Result<Checksum<'a>, ParseError>) -> bool { match r {
        Ok(c) => ck_parse(value@) == Some(c.entries()) && keys_lower(c.entries()),
        Err(e) => e == ParseError::InvalidQualifier && ck_parse(value@) is None,
    } }
// ---- unit U-ckparse.checksum_from_text  <= purl/src/qualifiers/well_known.rs:110 ----
#[verifier::external_body]
fn try_from(value: &'a str) -> (r: Result<Self, Self::Error>)

{ unimplemented!() }
}
// ---- unit T.ChecksumKey  <= purl/src/qualifiers/well_known.rs:103 ----
impl KnownQualifierKey for Checksum<'_> {
    const KEY: &'static str = "checksum";
}
impl Qualifiers {
// ---- unit U-qmap.insert  <= purl/src/qualifiers.rs:207 ----
#[verifier::external_body]
pub fn insert<K, V>(&mut self, key: K, v: V) -> (r: Result<&mut SmallString, ParseError>)
where K: AsRef<str>, SmallString: From<K> + From<V>,
        requires old(self).wf()
        ensures
            final(self).wf(),
            !valid_key(key.text()) ==> r is Err && r->Err_0 is InvalidQualifier && final(self).qualifiers@ == old(self).qualifiers@,
            valid_key(key.text()) ==> r is Ok
                && (<SmallString as vstd::std_specs::convert::FromSpec<V>>::obeys_from_spec() ==>
                        *(r->Ok_0) == <SmallString as vstd::std_specs::convert::FromSpec<V>>::from_spec(v)),
            // whole-content postcondition (p names the position of the key = number of smaller keys):
            // an existing key keeps its position and only its value changes ...
            valid_key(key.text()) && has_key(old(self).qualifiers@, lower_ascii_seq(key.text())) ==> ({
                let p = pos_of(old(self).qualifiers@, lower_ascii_seq(key.text()));
                0 <= p < old(self).qualifiers@.len() && old(self).qualifiers@[p].0.0@ == lower_ascii_seq(key.text())
                && final(self).qualifiers@ == old(self).qualifiers@.update(p, (old(self).qualifiers@[p].0, *final(r->Ok_0)))
            }),
            // ... a new key is spliced in at p, every other pair untouched and in the same order
            valid_key(key.text()) && !has_key(old(self).qualifiers@, lower_ascii_seq(key.text())) ==> ({
                let p = pos_of(old(self).qualifiers@, lower_ascii_seq(key.text()));
                0 <= p <= old(self).qualifiers@.len()
                && final(self).qualifiers@.len() == old(self).qualifiers@.len() + 1
                && final(self).qualifiers@[p].0.0@ == lower_ascii_seq(key.text())
                && final(self).qualifiers@ == old(self).qualifiers@.insert(p, (final(self).qualifiers@[p].0, *final(r->Ok_0)))
            }),
{ unimplemented!() }
// ---- unit U-qmap.try_get_typed  <= purl/src/qualifiers.rs:134 ----
#[verifier::external_body]
pub fn try_get_typed<'a, Q>(&'a self) -> (r: Result<Option<Q>, Q::Error>)
where Q: TryFrom<&'a str> + KnownQualifierKey,
        requires self.wf()
        ensures
            // absent (or undeclarable) key: nothing to convert
            !(valid_key(Q::KEY@) && has_key(self.qualifiers@, lower_ascii_seq(Q::KEY@))) ==> r is Ok && r->Ok_0 is None,
            // present: exactly one conversion of the stored text, its outcome passed through
            valid_key(Q::KEY@) && has_key(self.qualifiers@, lower_ascii_seq(Q::KEY@)) ==>
                exists|s: &'a str, x: Result<Q, Q::Error>|
                    s@ == self.qualifiers@[pos_of(self.qualifiers@, lower_ascii_seq(Q::KEY@))].1@ && #[trigger] Q::try_from_rel(s, x)
                    && match x { Ok(q) => r == Ok::<Option<Q>, Q::Error>(Some(q)), Err(e) => r == Err::<Option<Q>, Q::Error>(e) },
{ unimplemented!() }
}
impl<T> GenericPurlBuilder<T> {
// ---- unit U-proto.build  <= purl/src/builder.rs:190 ----
pub fn build(self, Tracked(log): Tracked<&mut CallLog>) -> (r: Result<GenericPurl<T>, T::Error>)
where T: PurlShape,
        requires self.parts.qualifiers.wf()
        ensures
            // C14: the finishing hook is invoked exactly once per build(), whatever the outcome
            final(log).calls == old(log).calls.push(Call::Hook),
            // exactly one application of the hook to the initial state, then the generic checks (C14)
            exists|t1: T, p1: PurlParts, fr: Result<(), T::Error>|
                #[trigger] T::finish_rel(self.package_type, self.parts, t1, p1, fr) && build_post::<T>(t1, p1, fr, r),
            r is Ok ==> r->Ok_0.parts.qualifiers.wf() && r->Ok_0.parts.name@.len() > 0
                && forall|i: int| 0 <= i < r->Ok_0.parts.qualifiers.qualifiers@.len() ==> (#[trigger] r->Ok_0.parts.qualifiers.qualifiers@[i]).1@.len() > 0,
{
    let mut this = self;
        
        let ghost t0 = this.package_type;
        let ghost p0 = this.parts;
this.package_type.finish(&mut this.parts, Tracked(log))?;
        
        let ghost t1 = this.package_type;
        let ghost p1 = this.parts;
        proof { lemma_nonempty_subset(p1.qualifiers.qualifiers@); lemma_nonempty_wf(p1.qualifiers.qualifiers@); lemma_checksum_key(); axiom_string_from(); }
if this.parts.name.is_empty() {
            return Err(T::Error::from(ParseError::MissingRequiredField(PurlField::Name)));
        }
        x_retain_nonempty(&mut this.parts.qualifiers);
        
        proof {
            let q2 = this.parts.qualifiers.qualifiers@;
            if has_key(q2, checksum_key()) {
                let tx = q2[pos_of(q2, checksum_key())].1@;
                if ck_parse(tx) is Some { lemma_ck_parse_nonempty(tx); }
            }
        }
if let Some(checksum) = (match this.parts.qualifiers.try_get_typed::<Checksum>() { Ok(v_) => v_, Err(e_) => return Err(From::from(e_)) }) {
            this.parts.qualifiers.insert(Checksum::KEY, (match <SmallString as TryFrom<Checksum>>::try_from(checksum) { Ok(v_) => v_, Err(e_) => return Err(From::from(e_)) }))?;
        }
        let GenericPurlBuilder { package_type, parts } = this;
        Ok(GenericPurl { package_type, parts })
    }
}
impl Qualifiers {
// ---- unit U-qmap.entry  <= purl/src/qualifiers.rs:162 ----
#[verifier::external_body]
pub fn entry<K>(&mut self, key: K) -> (r: Result<Entry<K>, ParseError>)
where K: AsRef<str>,
        requires old(self).wf()
        ensures
            !valid_key(key.text()) ==> r is Err && r->Err_0 is InvalidQualifier && final(self).qualifiers@ == old(self).qualifiers@,
            valid_key(key.text()) ==> r is Ok && match r->Ok_0 {
                Entry::Occupied(o) => o.wf() && *o.qualifiers == old(self).qualifiers && *final(o.qualifiers) == final(self).qualifiers
                    && o.index == pos_of(old(self).qualifiers@, lower_ascii_seq(key.text()))
                    && old(self).qualifiers@[o.index as int].0.0@ == lower_ascii_seq(key.text()),
                Entry::Vacant(v) => v.wf() && *v.qualifiers == old(self).qualifiers && *final(v.qualifiers) == final(self).qualifiers
                    && v.index == pos_of(old(self).qualifiers@, lower_ascii_seq(key.text()))
                    && v.key.text() == key.text()
                    && !has_key(old(self).qualifiers@, lower_ascii_seq(key.text())),
            },
{ unimplemented!() }
}
impl<'a, K: AsRef<str>> VacantEntry<'a, K> {
// ---- unit U-qmap.VacantEntry.insert  <= purl/src/qualifiers.rs:478 ----
#[verifier::external_body]
pub fn insert<V>(self, value: V) -> (r: &'a mut SmallString)
where SmallString: From<K> + From<V>,
        requires self.wf()
        ensures
            <SmallString as vstd::std_specs::convert::FromSpec<V>>::obeys_from_spec() ==>
                *r == <SmallString as vstd::std_specs::convert::FromSpec<V>>::from_spec(value),
            wf_seq(final(self.qualifiers)@),
            final(self.qualifiers)@.len() == old(self.qualifiers)@.len() + 1,
            final(self.qualifiers)@[self.index as int].0.0@ == self.key.canon(),
            final(self.qualifiers)@ == old(self.qualifiers)@.insert(self.index as int, (final(self.qualifiers)@[self.index as int].0, *final(r))),
{ unimplemented!() }
}
// ---- unit U-dq.decode_qualifiers  <= purl/src/parse.rs:255 ----
#[verifier::external_body]
pub fn decode_qualifiers(s: &str, parts: &mut PurlParts) -> (r: Result<(), ParseError>)
    requires old(parts).qualifiers.wf()
    ensures
        final(parts).qualifiers.wf(),
        // frame: only the qualifiers are touched
        final(parts).namespace == old(parts).namespace, final(parts).name == old(parts).name,
        final(parts).version == old(parts).version, final(parts).subpath == old(parts).subpath,
        match r {
            Ok(_) => dq_fold(split_spec(s@, '&'), kvs(old(parts).qualifiers.qualifiers@)) == Ok::<KV, DqErr>(kvs(final(parts).qualifiers.qualifiers@)),
            Err(e) => dq_fold(split_spec(s@, '&'), kvs(old(parts).qualifiers.qualifiers@)) is Err
                && dq_err(e, dq_fold(split_spec(s@, '&'), kvs(old(parts).qualifiers.qualifiers@))->Err_0),
        }
{ unimplemented!() }
// ---- unit U-proto.from_str  <= purl/src/parse.rs:167 ----
pub fn purl_from_str<T>(s: &str, Tracked(log): Tracked<&mut CallLog>) -> (r: Result<GenericPurl<T>, <T as PurlShape>::Error>)
where T: FromStr + PurlShape, <T as PurlShape>::Error: From<<T as FromStr>::Err>
    ensures parse_post::<T>(s@, r),
        // C14: the conversion is invoked at most once, only with the valid type substring as written, the hook at most once and
        // never before the conversion succeeded
        proto_ok(old(log).calls, final(log).calls, s@)
{
    broadcast use axiom_string_of_cow;
    proof { axiom_string_from(); }
    let ghost s0 = s@;

        let s = (match x_strip_prefix(s, "pkg:").ok_or(ParseError::UnsupportedUrlScheme) { Ok(v_) => v_, Err(e_) => return Err(From::from(e_)) });
        let s = x_trim_start_matches(s, '/');
        let mut parts = PurlParts::default();
        let ghost s1 = s@;
        proof {
            assert(kvs(parts.qualifiers.qualifiers@) =~= Seq::<(Seq<char>, Seq<char>)>::empty());
            assert(wf_seq(parts.qualifiers.qualifiers@));
        }

        let s = match x_rsplit_once(s, '#') {
            Some((s, subpath)) => {
                parts.subpath = (match decode_subpath(subpath) { Ok(v_) => v_, Err(e_) => return Err(From::from(e_)) });
                s
            },
            None => s,
        };
        
        let ghost s2 = s@;
        proof { assert(s2 == rsplit_at(s1, '#').0); assert(kvs(parts.qualifiers.qualifiers@) =~= Seq::<(Seq<char>, Seq<char>)>::empty()); }
let s = match x_rsplit_once(s, '?') {
            Some((s, qualifiers)) => {
                (match decode_qualifiers(qualifiers, &mut parts) { Ok(v_) => v_, Err(e_) => return Err(From::from(e_)) });
                s
            },
            None => s,
        };
        
        let ghost s3 = s@;
        proof { assert(s3 == rsplit_at(s2, '?').0); }
if s.is_empty() {
            return Err(ParseError::MissingRequiredField(PurlField::PackageType).into());
        }
        let (package_type, s) =
            (match x_split_once(s, '/').ok_or(ParseError::MissingRequiredField(PurlField::Name)) { Ok(v_) => v_, Err(e_) => return Err(From::from(e_)) });
        if !is_valid_package_type(package_type) {
            return Err(ParseError::InvalidPackageType.into());
        }
        
        let ghost pa = phase_a(s0)->Ok_0;
        proof {
            assert(phase_a(s0) is Ok);
            assert(pa.ty == package_type@ && pa.rest == s@ && pa.sub == parts.subpath@ && pa.kv == kvs(parts.qualifiers.qualifiers@));
        }
let package_type = (match T::from_str(package_type, Tracked(log)) { Ok(v_) => v_, Err(e_) => return Err(From::from(e_)) });
        
        let ghost t0 = package_type;
        let ghost rest = s@;
let s = match x_rsplit_once(s, '@') {
            Some((s, version)) => {
                parts.version = (match decode(version) { Ok(v_) => v_, Err(e_) => return Err(From::from(e_)) }).into();
                s
            },
            None => s,
        };
        let name = match x_rsplit_once(s, '/') {
            Some((namespace, s)) => {
                parts.namespace = (match decode_namespace(namespace) { Ok(v_) => v_, Err(e_) => return Err(From::from(e_)) });
                s
            },
            None => s,
        };
        parts.name = (match decode(name) { Ok(v_) => v_, Err(e_) => return Err(From::from(e_)) }).into();
        
        proof {
            assert(phase_b(rest) is Ok);
            let b = phase_b(rest)->Ok_0;
            assert(parts.version@ =~= b.version);
            assert(parts.namespace@ =~= b.ns);
            assert(parts.name@ =~= b.name);
            assert(parts_are(parts, pa, b));
        }
GenericPurlBuilder { package_type, parts }.build(Tracked(log))
    }
// ---- property lemmas ----

/// C14: the text the conversion is given is a syntactically valid type
pub proof fn lemma_conv_arg_valid(s: Seq<char>)
    requires phase_a(s) is Ok
    ensures valid_type(phase_a(s)->Ok_0.ty)
{ }


// ---- consistency canary: must be REJECTED; if it verifies the assumptions are contradictory ----
pub proof fn verif_canary_must_fail()
{
    axiom_string_from(); broadcast use axiom_ascii_to_lower; broadcast use axiom_view_of_str;
    assert(false);
}
} // verus!
fn main() {}
