// GENERATED on every run by vlib/extract.py from /repo -- do not edit
#![allow(unused_imports, unused_variables, unused_mut, dead_code, unused_parens, unused_braces, non_snake_case)]
#![feature(allocator_api)]
use vstd::prelude::*;
use core::cmp::Ordering;
use core::slice;
verus! {

// ---- theory: base.rs ----
// Shared vocabulary. Strings are Seq<char>. Everything marked `uninterp` or `external_body` below is an
// ASSUMPTION about std / Unicode; each is listed in the trusted base and replayed against the real std by
// the A step (exhaustively per char, bounded per string).

pub type SmallString = String;   // R0: purl's own `#[cfg(not(feature = "smartstring"))] type SmallString = String;`

// ---- Unicode tables (uninterpreted) ----
pub uninterp spec fn u_to_lower(c: char) -> Seq<char>;      // char::to_lowercase, as a sequence

pub open spec fn is_ascii_c(c: char) -> bool { (c as u32) < 128 }
pub open spec fn ascii_upper_c(c: char) -> bool { 'A' <= c && c <= 'Z' }
pub open spec fn ascii_lower_c(c: char) -> bool { 'a' <= c && c <= 'z' }
pub open spec fn ascii_digit_c(c: char) -> bool { '0' <= c && c <= '9' }
pub open spec fn ascii_alnum_c(c: char) -> bool { ascii_upper_c(c) || ascii_lower_c(c) || ascii_digit_c(c) }
pub open spec fn ascii_hex_c(c: char) -> bool { ascii_digit_c(c) || ('a' <= c && c <= 'f') || ('A' <= c && c <= 'F') }
pub open spec fn ascii_lower(c: char) -> char { if ascii_upper_c(c) { ((c as u32 + 32) as char) } else { c } }

/// Unicode lower-casing of a string: each character replaced by its lower-case mapping (C08 wording).
pub open spec fn lower_seq(s: Seq<char>) -> Seq<char> decreases s.len()
{ if s.len() == 0 { seq![] } else { lower_seq(s.drop_last()) + u_to_lower(s.last()) } }

/// ASCII lower-casing (what make_ascii_lowercase / to_ascii_lowercase do).
pub open spec fn lower_ascii_seq(s: Seq<char>) -> Seq<char> { s.map_values(|c: char| ascii_lower(c)) }

pub open spec fn all_ascii_lower(s: Seq<char>) -> bool { forall|i: int| 0 <= i < s.len() ==> ascii_lower_c(#[trigger] s[i]) }

pub open spec fn has_char(s: Seq<char>, c: char) -> bool { exists|i: int| 0 <= i < s.len() && s[i] == c }

// A-validated fact (exhaustive over all 128 ASCII chars): on ASCII, Unicode lower-casing is ASCII lower-casing.
#[verifier::external_body]
pub broadcast proof fn axiom_ascii_to_lower(c: char)
    requires is_ascii_c(c)
    ensures #[trigger] u_to_lower(c) == seq![ascii_lower(c)]
{ }

// ---- char methods (assumed = their documented ASCII definitions; A: exhaustive over all scalar values) ----
pub assume_specification [char::is_ascii] (c: &char) -> (r: bool) ensures r == is_ascii_c(*c);
pub assume_specification [char::is_ascii_alphanumeric] (c: &char) -> (r: bool) ensures r == ascii_alnum_c(*c);
pub assume_specification [char::is_ascii_lowercase] (c: &char) -> (r: bool) ensures r == ascii_lower_c(*c);
pub assume_specification [char::is_ascii_hexdigit] (c: &char) -> (r: bool) ensures r == ascii_hex_c(*c);
pub assume_specification [char::is_ascii_uppercase] (c: &char) -> (r: bool) ensures r == ascii_upper_c(*c);
pub assume_specification [char::is_ascii_digit] (c: &char) -> (r: bool) ensures r == ascii_digit_c(*c);
pub assume_specification [char::is_ascii_alphabetic] (c: &char) -> (r: bool) ensures r == (ascii_upper_c(*c) || ascii_lower_c(*c));
pub assume_specification [char::to_ascii_lowercase] (c: &char) -> (r: char) ensures r == ascii_lower(*c);

/// byte length of the UTF-8 encoding (uninterpreted; only that it is a function of the text is used)
pub uninterp spec fn utf8_len(s: Seq<char>) -> nat;
pub assume_specification [String::len] (s: &String) -> (r: usize) ensures r == utf8_len(s@);

pub assume_specification [std::string::String::with_capacity] (n: usize) -> (r: String) ensures r@ == Seq::<char>::empty();

// ---- string wrappers (R3): body IS the original call; only the contract is assumed ----
#[verifier::external_body]
pub fn x_make_ascii_lowercase(s: &mut str)
    ensures final(s)@ == lower_ascii_seq(old(s)@)
{ s.make_ascii_lowercase() }

// `&mut String -> &mut str` deref coercion: same text, writes go through.
pub assume_specification [ <String as core::ops::DerefMut>::deref_mut ] (s: &mut String) -> (r: &mut str)
    ensures r@ == old(s)@, final(r)@ == final(s)@;

/// `<[char]>::contains`
#[verifier::external_body]
pub fn x_slice_contains(s: &[char], c: &char) -> (r: bool)
    ensures r == s@.contains(*c)
{ s.contains(c) }

#[verifier::external_body]
pub fn x_to_ascii_lowercase(s: &str) -> (r: String)
    ensures r@ == lower_ascii_seq(s@)
{ s.to_ascii_lowercase() }

/// `s.chars().flat_map(|c| c.to_lowercase()).collect()`
#[verifier::external_body]
pub fn x_lower_collect(s: &str) -> (r: String)
    ensures r@ == lower_seq(s@)
{ s.chars().flat_map(|c| c.to_lowercase()).collect() }

/// `c.to_lowercase().ne([c])`
#[verifier::external_body]
pub fn x_lower_changes(c: char) -> (r: bool)
    ensures r == (u_to_lower(c) != seq![c])
{ c.to_lowercase().ne([c]) }

/// `result.extend(c.to_lowercase())`
#[verifier::external_body]
pub fn x_extend_lower(s: &mut String, c: char)
    ensures final(s)@ == old(s)@ + u_to_lower(c)
{ s.extend(c.to_lowercase()) }

// String::from(&str) / String::from(String) / .into(): vstd ties From::from to FromSpec; the two instances used by
// purl (with SmallString = String) are assumed to copy / move the text.
#[verifier::external_body]
pub proof fn axiom_string_from()
    ensures
        <String as vstd::std_specs::convert::FromSpec<&str>>::obeys_from_spec(),
        forall|s: &str| (#[trigger] <String as vstd::std_specs::convert::FromSpec<&str>>::from_spec(s))@ == s@,
        <String as vstd::std_specs::convert::FromSpec<String>>::obeys_from_spec(),
        forall|s: String| (#[trigger] <String as vstd::std_specs::convert::FromSpec<String>>::from_spec(s)) == s,
{ }

// ---- lemmas over the vocabulary (proved) ----
pub proof fn lemma_lower_seq_identity(s: Seq<char>)
    requires forall|i: int| 0 <= i < s.len() ==> u_to_lower(#[trigger] s[i]) == seq![s[i]]
    ensures lower_seq(s) == s
    decreases s.len()
{
    if s.len() > 0 {
        lemma_lower_seq_identity(s.drop_last());
        assert(s.drop_last().push(s.last()) == s);
        assert(lower_seq(s) =~= s);
    }
}

pub proof fn lemma_lower_seq_ascii(s: Seq<char>)
    requires forall|i: int| 0 <= i < s.len() ==> (u_to_lower(#[trigger] s[i]) != seq![s[i]] ==> is_ascii_c(s[i]))
    ensures lower_seq(s) == lower_ascii_seq(s)
    decreases s.len()
{
    broadcast use axiom_ascii_to_lower;
    if s.len() > 0 {
        lemma_lower_seq_ascii(s.drop_last());
        let c = s.last();
        if is_ascii_c(c) {
            assert(u_to_lower(c) == seq![ascii_lower(c)]);
        } else {
            assert(u_to_lower(c) == seq![c]);
            assert(ascii_lower(c) == c);
        }
        assert(lower_ascii_seq(s.drop_last()) =~= lower_ascii_seq(s).drop_last());
        assert(lower_seq(s) =~= lower_ascii_seq(s));
    } else {
        assert(lower_seq(s) =~= lower_ascii_seq(s));
    }
}

pub proof fn lemma_lower_seq_push(s: Seq<char>, c: char)
    ensures lower_seq(s.push(c)) == lower_seq(s) + u_to_lower(c)
{
    assert(s.push(c).drop_last() == s);
}

pub proof fn lemma_lower_seq_take(s: Seq<char>, k: int)
    requires 0 <= k < s.len()
    ensures lower_seq(s.take(k + 1)) == lower_seq(s.take(k)) + u_to_lower(s[k])
{
    assert(s.take(k + 1).drop_last() == s.take(k));
}

// ---- trimming / splitting vocabulary (defined, so lemmas about it are proved) ----
pub open spec fn trim_start_spec(s: Seq<char>, c: char) -> Seq<char> decreases s.len()
{ if s.len() > 0 && s[0] == c { trim_start_spec(s.subrange(1, s.len() as int), c) } else { s } }
pub open spec fn trim_end_spec(s: Seq<char>, c: char) -> Seq<char> decreases s.len()
{ if s.len() > 0 && s.last() == c { trim_end_spec(s.drop_last(), c) } else { s } }
pub open spec fn trim_spec(s: Seq<char>, c: char) -> Seq<char> { trim_end_spec(trim_start_spec(s, c), c) }
pub open spec fn all_char(s: Seq<char>, c: char) -> bool { forall|i: int| 0 <= i < s.len() ==> #[trigger] s[i] == c }

/// `s.trim_matches(c)` for a char pattern
#[verifier::external_body]
pub fn x_trim_matches<'a>(s: &'a str, c: char) -> (r: &'a str)
    ensures r@ == trim_spec(s@, c)
{ s.trim_matches(c) }

/// `s.trim_start_matches(c)` for a char pattern
#[verifier::external_body]
pub fn x_trim_start_matches<'a>(s: &'a str, c: char) -> (r: &'a str)
    ensures r@ == trim_start_spec(s@, c)
{ s.trim_start_matches(c) }

/// `s.contains(set)` for a `&[char]` pattern
#[verifier::external_body]
pub fn x_str_contains_any(s: &str, set: &[char]) -> (r: bool)
    ensures r == exists|i: int| 0 <= i < s@.len() && set@.contains(#[trigger] s@[i])
{ s.contains(set) }

/// `s.contains(c)` for a char pattern
#[verifier::external_body]
pub fn x_str_contains_char(s: &str, c: char) -> (r: bool)
    ensures r == has_char(s@, c)
{ s.contains(c) }

pub proof fn lemma_trim_start_all(s: Seq<char>, c: char)
    ensures
        all_char(s, c) ==> trim_start_spec(s, c).len() == 0,
        !all_char(s, c) ==> trim_start_spec(s, c).len() > 0 && trim_start_spec(s, c)[0] != c && !all_char(trim_start_spec(s, c), c),
    decreases s.len()
{
    if s.len() > 0 && s[0] == c {
        let t = s.subrange(1, s.len() as int);
        lemma_trim_start_all(t, c);
        if all_char(s, c) {
            assert forall|i: int| 0 <= i < t.len() implies #[trigger] t[i] == c by { assert(t[i] == s[i + 1]); }
        } else {
            let j = choose|j: int| 0 <= j < s.len() && s[j] != c;
            assert(t[j - 1] == s[j]);
        }
    } else if s.len() > 0 {
        assert(s[0] != c);
    }
}

pub proof fn lemma_trim_end_all(s: Seq<char>, c: char)
    ensures
        all_char(s, c) ==> trim_end_spec(s, c).len() == 0,
        !all_char(s, c) ==> trim_end_spec(s, c).len() > 0,
    decreases s.len()
{
    if s.len() > 0 && s.last() == c {
        let t = s.drop_last();
        lemma_trim_end_all(t, c);
        if !all_char(s, c) {
            let j = choose|j: int| 0 <= j < s.len() && s[j] != c;
            assert(t[j] == s[j]);
        }
    } else if s.len() > 0 {
        assert(s[s.len() - 1] != c);
    }
}

/// trimming leaves nothing exactly when the string consists of the trimmed character only
pub proof fn lemma_trim_empty_iff_all(s: Seq<char>, c: char)
    ensures (trim_spec(s, c).len() == 0) == all_char(s, c)
{
    lemma_trim_start_all(s, c);
    lemma_trim_end_all(trim_start_spec(s, c), c);
}

pub proof fn lemma_lower_ascii_fixed(s: Seq<char>)
    requires forall|i: int| 0 <= i < s.len() ==> !ascii_upper_c(#[trigger] s[i])
    ensures lower_ascii_seq(s) == s
{
    assert(lower_ascii_seq(s) =~= s);
}

// ---- idempotence of lower-casing (C10, C12) ----
/// A-validated (exhaustive over all scalar values): lower-casing the lower-case mapping of a char changes nothing
#[verifier::external_body]
pub proof fn axiom_lower_idem_char(c: char)
    ensures lower_seq(u_to_lower(c)) == u_to_lower(c)
{ }

pub proof fn lemma_lower_seq_concat(a: Seq<char>, b: Seq<char>)
    ensures lower_seq(a + b) == lower_seq(a) + lower_seq(b)
    decreases b.len()
{
    if b.len() == 0 {
        assert(a + b =~= a);
        assert(lower_seq(a) + lower_seq(b) =~= lower_seq(a));
    } else {
        assert((a + b).drop_last() =~= a + b.drop_last());
        assert((a + b).last() == b.last());
        lemma_lower_seq_concat(a, b.drop_last());
        assert(lower_seq(a + b) =~= lower_seq(a) + lower_seq(b));
    }
}

/// lower-casing is a projection: applying it twice is applying it once
pub proof fn lemma_lower_seq_idem(s: Seq<char>)
    ensures lower_seq(lower_seq(s)) == lower_seq(s)
    decreases s.len()
{
    if s.len() > 0 {
        lemma_lower_seq_idem(s.drop_last());
        axiom_lower_idem_char(s.last());
        lemma_lower_seq_concat(lower_seq(s.drop_last()), u_to_lower(s.last()));
    }
}

// A-validated per char (exhaustive over all scalar values): lower-casing never yields the empty string
#[verifier::external_body]
pub proof fn axiom_lower_nonempty(c: char)
    ensures u_to_lower(c).len() > 0
{ }

// ---- unit T.PurlField  <= purl/src/parse.rs:112 ----
#[derive(Debug, Clone, Copy)]
pub enum PurlField {
    PackageType,
    Namespace,
    Name,
    Version,
    Subpath,
}
// ---- unit T.ParseError  <= purl/src/parse.rs:17 ----
#[derive(Debug)]
pub enum ParseError {
    UnsupportedUrlScheme,
    MissingRequiredField(PurlField),
    InvalidPackageType,
    InvalidQualifier,
    InvalidEscape,
}
// ---- unit T.QualifierKey  <= purl/src/qualifiers.rs:319 ----
pub struct QualifierKey(pub SmallString);
// ---- unit T.Qualifiers  <= purl/src/qualifiers.rs:21 ----
pub struct Qualifiers {
    pub qualifiers: Vec<(QualifierKey, SmallString)>,
}
// ---- unit T.PurlParts  <= purl/src/lib.rs:212 ----
pub struct PurlParts {
    pub namespace: SmallString,
    pub name: SmallString,
    pub version: SmallString,
    pub qualifiers: Qualifiers,
    pub subpath: SmallString,
}
// ---- unit theory.qualkeys  <= (contracts):0 ----
// ---- qualifier keys (C04, C05, C11: ASCII letters, digits, '.', '-', '_'; non-empty) ----
pub open spec fn key_char(c: char) -> bool { ascii_alnum_c(c) || c == '.' || c == '-' || c == '_' }
pub open spec fn valid_key(s: Seq<char>) -> bool { s.len() > 0 && forall|i: int| 0 <= i < s.len() ==> key_char(#[trigger] s[i]) }
/// canonical stored form: valid and free of ASCII upper-case
pub open spec fn canon_key(s: Seq<char>) -> bool { valid_key(s) && forall|i: int| 0 <= i < s.len() ==> !ascii_upper_c(#[trigger] s[i]) }

// ---- lexicographic order on Seq<char> by scalar value (= byte-wise order of the UTF-8 text, = str::cmp) ----
pub open spec fn lex_cmp(a: Seq<char>, b: Seq<char>) -> Ordering decreases a.len()
{
    if a.len() == 0 { if b.len() == 0 { Ordering::Equal } else { Ordering::Less } }
    else if b.len() == 0 { Ordering::Greater }
    else if (a[0] as u32) < (b[0] as u32) { Ordering::Less }
    else if (a[0] as u32) > (b[0] as u32) { Ordering::Greater }
    else { lex_cmp(a.subrange(1, a.len() as int), b.subrange(1, b.len() as int)) }
}
pub open spec fn str_lt(a: Seq<char>, b: Seq<char>) -> bool { lex_cmp(a, b) is Less }

pub proof fn lemma_lex_eq(a: Seq<char>, b: Seq<char>)
    ensures (lex_cmp(a, b) is Equal) == (a == b)
    decreases a.len()
{
    if a.len() > 0 && b.len() > 0 {
        if a[0] == b[0] {
            lemma_lex_eq(a.subrange(1, a.len() as int), b.subrange(1, b.len() as int));
            if a.subrange(1, a.len() as int) == b.subrange(1, b.len() as int) {
                assert(a =~= seq![a[0]] + a.subrange(1, a.len() as int));
                assert(b =~= seq![b[0]] + b.subrange(1, b.len() as int));
            }
        } else {
            assert((a[0] as u32) != (b[0] as u32));
        }
    } else {
        assert((a == b) == (a.len() == 0 && b.len() == 0)) by { if a.len() == 0 && b.len() == 0 { assert(a =~= b); } }
    }
}

pub proof fn lemma_lex_flip(a: Seq<char>, b: Seq<char>)
    ensures
        (lex_cmp(a, b) is Less) == (lex_cmp(b, a) is Greater),
        (lex_cmp(a, b) is Greater) == (lex_cmp(b, a) is Less),
    decreases a.len()
{
    if a.len() > 0 && b.len() > 0 && a[0] == b[0] {
        lemma_lex_flip(a.subrange(1, a.len() as int), b.subrange(1, b.len() as int));
    }
}

pub proof fn lemma_lex_trans(a: Seq<char>, b: Seq<char>, c: Seq<char>)
    requires str_lt(a, b), str_lt(b, c)
    ensures str_lt(a, c)
    decreases a.len()
{
    if a.len() > 0 && b.len() > 0 && c.len() > 0 && a[0] == b[0] && b[0] == c[0] {
        lemma_lex_trans(a.subrange(1, a.len() as int), b.subrange(1, b.len() as int), c.subrange(1, c.len() as int));
    }
}

pub proof fn lemma_lt_irrefl(a: Seq<char>)
    ensures !str_lt(a, a)
{
    lemma_lex_eq(a, a);
}

// ---- the representation invariant of Qualifiers (C04, C11): keys canonical, strictly ascending ----
pub open spec fn keys_sorted(v: Seq<(QualifierKey, SmallString)>) -> bool {
    forall|i: int, j: int| 0 <= i < j < v.len() ==> str_lt(#[trigger] v[i].0.0@, #[trigger] v[j].0.0@)
}
pub open spec fn keys_canon(v: Seq<(QualifierKey, SmallString)>) -> bool {
    forall|i: int| 0 <= i < v.len() ==> canon_key(#[trigger] v[i].0.0@)
}
pub open spec fn wf_seq(v: Seq<(QualifierKey, SmallString)>) -> bool { keys_sorted(v) && keys_canon(v) }

/// abstract content: key text -> value text (a function of the sequence; unique positions because keys are strictly ascending)
pub open spec fn has_key(v: Seq<(QualifierKey, SmallString)>, k: Seq<char>) -> bool {
    exists|i: int| 0 <= i < v.len() && #[trigger] v[i].0.0@ == k
}
pub open spec fn has_pair(v: Seq<(QualifierKey, SmallString)>, k: Seq<char>, val: Seq<char>) -> bool {
    exists|i: int| 0 <= i < v.len() && #[trigger] v[i].0.0@ == k && v[i].1@ == val
}

pub proof fn lemma_sorted_unique(v: Seq<(QualifierKey, SmallString)>, i: int, j: int)
    requires keys_sorted(v), 0 <= i < v.len(), 0 <= j < v.len(), v[i].0.0@ == v[j].0.0@
    ensures i == j
{
    lemma_lt_irrefl(v[i].0.0@);
    if i < j { assert(str_lt(v[i].0.0@, v[j].0.0@)); }
    if j < i { assert(str_lt(v[j].0.0@, v[i].0.0@)); }
}

/// the position of key `k` in a strictly ascending list = number of keys smaller than `k` (names the witness, so
/// whole-content postconditions need no existential)
pub open spec fn pos_of(v: Seq<(QualifierKey, SmallString)>, k: Seq<char>) -> int decreases v.len()
{
    if v.len() == 0 { 0 } else { pos_of(v.drop_last(), k) + if str_lt(v.last().0.0@, k) { 1int } else { 0int } }
}

pub proof fn lemma_pos_of(v: Seq<(QualifierKey, SmallString)>, k: Seq<char>, i: int)
    requires 0 <= i <= v.len(),
        forall|j: int| 0 <= j < i ==> str_lt(#[trigger] v[j].0.0@, k),
        forall|j: int| i <= j < v.len() ==> !str_lt(#[trigger] v[j].0.0@, k),
    ensures pos_of(v, k) == i
    decreases v.len()
{
    if v.len() > 0 {
        let w = v.drop_last();
        if i == v.len() {
            assert forall|j: int| 0 <= j < i - 1 implies str_lt(#[trigger] w[j].0.0@, k) by { assert(w[j] == v[j]); }
            lemma_pos_of(w, k, i - 1);
            assert(str_lt(v[v.len() - 1].0.0@, k));
        } else {
            assert forall|j: int| 0 <= j < i implies str_lt(#[trigger] w[j].0.0@, k) by { assert(w[j] == v[j]); }
            assert forall|j: int| i <= j < w.len() implies !str_lt(#[trigger] w[j].0.0@, k) by { assert(w[j] == v[j]); }
            lemma_pos_of(w, k, i);
            assert(!str_lt(v[v.len() - 1].0.0@, k));
        }
    }
}

pub proof fn lemma_lt_asym(a: Seq<char>, b: Seq<char>)
    requires str_lt(a, b)
    ensures !str_lt(b, a)
{
    lemma_lex_flip(a, b);
}

/// in a strictly ascending list, the value paired with key `k` is the one at `pos_of(k)`
pub proof fn lemma_has_pair_pos(v: Seq<(QualifierKey, SmallString)>, k: Seq<char>)
    requires keys_sorted(v)
    ensures forall|val: Seq<char>| has_pair(v, k, val) ==> 0 <= pos_of(v, k) < v.len() && v[pos_of(v, k)].0.0@ == k && v[pos_of(v, k)].1@ == val
{
    assert forall|val: Seq<char>| has_pair(v, k, val) implies 0 <= pos_of(v, k) < v.len() && v[pos_of(v, k)].0.0@ == k && v[pos_of(v, k)].1@ == val by {
        let i = choose|i: int| 0 <= i < v.len() && #[trigger] v[i].0.0@ == k && v[i].1@ == val;
        assert forall|j: int| 0 <= j < i implies str_lt(#[trigger] v[j].0.0@, k) by { assert(str_lt(v[j].0.0@, v[i].0.0@)); }
        assert forall|j: int| i <= j < v.len() implies !str_lt(#[trigger] v[j].0.0@, k) by {
            if j == i { lemma_lt_irrefl(k); } else { assert(str_lt(v[i].0.0@, v[j].0.0@)); lemma_lt_asym(k, v[j].0.0@); }
        }
        lemma_pos_of(v, k, i);
    }
}

// ---- unit theory.types  <= (contracts):0 ----
// ---- R9: stub of std::borrow::Cow for B = str (two variants, same names) ----
pub enum Cow<'a, B: ?Sized> { Borrowed(&'a B), Owned(String) }

impl<'a> View for Cow<'a, str> {
    type V = Seq<char>;
    open spec fn view(&self) -> Seq<char> {
        match self { Cow::Borrowed(b) => b@, Cow::Owned(o) => o@ }
    }
}

impl<'a> core::ops::Deref for Cow<'a, str> {
    type Target = str;
    fn deref(&self) -> (r: &str)
        ensures r@ == self@
    {
        match self { Cow::Borrowed(b) => b, Cow::Owned(o) => o.as_str() }
    }
}

// R9: `String: From<Cow<str>>` for the stub Cow (std: the owned text, or a copy of the borrowed text)
pub uninterp spec fn string_of_cow<'a>(c: Cow<'a, str>) -> String;
#[verifier::external_body]
pub broadcast proof fn axiom_string_of_cow<'a>(c: Cow<'a, str>)
    ensures (#[trigger] string_of_cow(c))@ == c@
{ }
impl<'a> vstd::std_specs::convert::FromSpecImpl<Cow<'a, str>> for String {
    open spec fn obeys_from_spec() -> bool { true }
    open spec fn from_spec(c: Cow<'a, str>) -> String { string_of_cow(c) }
}
impl<'a> From<Cow<'a, str>> for String {
    #[verifier::external_body]
    fn from(c: Cow<'a, str>) -> (r: String)
    { match c { Cow::Borrowed(b) => b.to_string(), Cow::Owned(o) => o } }
}

// ---- vocabulary for package types (written from C02/C04/C05: letters, digits, '.', '+', '-'; non-empty) ----
pub open spec fn type_char(c: char) -> bool { ascii_alnum_c(c) || c == '.' || c == '+' || c == '-' }
pub open spec fn valid_type(s: Seq<char>) -> bool { s.len() > 0 && forall|i: int| 0 <= i < s.len() ==> type_char(#[trigger] s[i]) }

/// What every built-in string-like shape must do in `finish` (C04, C13): validate, then ASCII-lower-case; parts untouched.
pub open spec fn shape_rel(t0: Seq<char>, p0: PurlParts, t1: Seq<char>, p1: PurlParts, r: Result<(), ParseError>) -> bool {
    p1 == p0
    && (valid_type(t0) ==> r is Ok && t1 == lower_ascii_seq(t0))
    && (!valid_type(t0) ==> r == Err::<(), ParseError>(ParseError::InvalidPackageType))
}


/// C10 / C13 (type string): validating and ASCII-lower-casing twice is doing it once
pub proof fn lemma_shape_idem(t0: Seq<char>, p0: PurlParts, t1: Seq<char>, p1: PurlParts, t2: Seq<char>, p2: PurlParts, r2: Result<(), ParseError>)
    requires shape_rel(t0, p0, t1, p1, Ok::<(), ParseError>(())), shape_rel(t1, p1, t2, p2, r2)
    ensures r2 is Ok, t2 == t1, p2 == p1
{
    assert(valid_type(t0));
    let l = lower_ascii_seq(t0);
    assert(t1 == l);
    assert forall|i: int| 0 <= i < l.len() implies type_char(#[trigger] l[i]) && !ascii_upper_c(l[i]) by { assert(type_char(t0[i])); }
    assert(valid_type(l));
    lemma_lower_ascii_fixed(l);
}

// ---- unit T.PurlShape  <= purl/src/lib.rs:111 ----
pub trait PurlShape: Sized {
    type Error: From<ParseError>;
    spec fn type_text(&self) -> Seq<char>;
    fn package_type(&self) -> (r: Cow<str>)
        ensures r@ == self.type_text();
    spec fn finish_rel(t0: Self, p0: PurlParts, t1: Self, p1: PurlParts, r: Result<(), Self::Error>) -> bool;
    fn finish(&mut self, parts: &mut PurlParts) -> (r: Result<(), Self::Error>)
        ensures Self::finish_rel(*old(self), *old(parts), *final(self), *final(parts), r),
            // the hook can only reach the qualifier list through its public API, every mutator of which is
            // proved to preserve the representation invariant (group `qual`); assumed for user-written hooks
            wf_seq(old(parts).qualifiers.qualifiers@) ==> wf_seq(final(parts).qualifiers.qualifiers@);
}
// ---- unit T.GenericPurl  <= purl/src/lib.rs:251 ----
pub struct GenericPurl<T> {
    pub package_type: T,
    pub parts: PurlParts,
}
// ---- unit theory.split_wrappers  <= (contracts):0 ----
/// `Some(s).filter(|v| !v.is_empty())`
#[verifier::external_body]
pub fn x_some_nonempty<'a>(s: &'a str) -> (r: Option<&'a str>)
    ensures s@.len() == 0 ==> r is None, s@.len() > 0 ==> r is Some && r->Some_0@ == s@
{ Some(s).filter(|v| !v.is_empty()) }


// ---- unit T.QualifierKey.Deref  <= purl/src/qualifiers.rs:340 ----
impl core::ops::Deref for QualifierKey {
    type Target = str;
    fn deref(&self) -> (r: &str)
        ensures r@ == self.0@
    {
        &self.0
    }
}
// ---- unit theory.enc  <= (contracts):0 ----
// ---- percent-encoding as a specification function (C03): defined per character from the documented table ----
// What is ASSUMED about the dependency: `utf8_percent_encode(s, SET)` produces `enc(SET, s)` (its per-byte table is proved by
// Kani on the real constants; that it works char by char is replayed by A), and `dec(enc(set, s)) == Some(s)` (A).
#[derive(Clone, Copy)]
pub enum SetId { Path, Segment, Query, Fragment }
pub const PURL_PATH: SetId = SetId::Path;
pub const PURL_PATH_SEGMENT: SetId = SetId::Segment;
pub const PURL_QUERY: SetId = SetId::Query;
pub const PURL_FRAGMENT: SetId = SetId::Fragment;

/// C03's table: "every byte that is a control character, DEL, space, non-ASCII, '"', '<', '>', '%', '@', '?' or '#' - and
/// additionally '`', '{', '}' in namespace, name and version, '/' in the name, '+' and '&' in qualifier values, '`' in the subpath"
pub open spec fn escaped_c(set: SetId, c: char) -> bool {
    (c as u32) < 0x20 || (c as u32) >= 0x7f || c == ' ' || c == '"' || c == '<' || c == '>' || c == '%' || c == '@' || c == '?' || c == '#'
    || match set {
        SetId::Path => c == '`' || c == '{' || c == '}',
        SetId::Segment => c == '`' || c == '{' || c == '}' || c == '/',
        SetId::Query => c == '+' || c == '&',
        SetId::Fragment => c == '`',
    }
}
/// `%XX…` for the UTF-8 bytes of `c` (uninterpreted; only its alphabet is used)
pub uninterp spec fn pct(c: char) -> Seq<char>;
pub open spec fn pct_alphabet(x: char) -> bool { x == '%' || ('0' <= x && x <= '9') || ('A' <= x && x <= 'F') }
/// ASSUMED (definition of percent-encoding): non-empty, made of '%' and upper-case hex digits
#[verifier::external_body]
pub proof fn axiom_pct(c: char)
    ensures pct(c).len() > 0, forall|i: int| 0 <= i < pct(c).len() ==> pct_alphabet(#[trigger] pct(c)[i])
{ }

pub open spec fn enc_char(set: SetId, c: char) -> Seq<char> { if escaped_c(set, c) { pct(c) } else { seq![c] } }
pub open spec fn enc(set: SetId, s: Seq<char>) -> Seq<char> decreases s.len()
{ if s.len() == 0 { Seq::<char>::empty() } else { enc(set, s.drop_last()) + enc_char(set, s.last()) } }

// ---- unit theory.fmt  <= (contracts):0 ----
// ---- R9: stub of fmt::Formatter (ghost output) and of the escape sets; the canonical shape written from C03 ----
#[verifier::external_body]
pub struct Formatter { _p: core::marker::PhantomData<u8> }
impl Formatter { pub uninterp spec fn out(&self) -> Seq<char>; }
pub struct FmtError;
pub type FmtResult = Result<(), FmtError>;

#[verifier::external_body]
pub fn x_write_str(f: &mut Formatter, s: &str) -> (r: FmtResult)
    ensures r is Ok ==> final(f).out() == old(f).out() + s@
{ unimplemented!() }
/// `{}` of a `Display` value that prints its text (Cow<str>, &str, char)
#[verifier::external_body]
pub fn x_write_display<D: TextOf>(f: &mut Formatter, d: &D) -> (r: FmtResult)
    ensures r is Ok ==> final(f).out() == old(f).out() + d.text_of()
{ unimplemented!() }
/// `{}` of `utf8_percent_encode(s, SET)`
#[verifier::external_body]
pub fn x_write_encoded(f: &mut Formatter, s: &str, set: SetId) -> (r: FmtResult)
    ensures r is Ok ==> final(f).out() == old(f).out() + enc(set, s@)
{ unimplemented!() }

pub trait TextOf { spec fn text_of(&self) -> Seq<char>; }
impl<'a> TextOf for Cow<'a, str> { open spec fn text_of(&self) -> Seq<char> { self@ } }
impl TextOf for char { open spec fn text_of(&self) -> Seq<char> { seq![*self] } }

/// documented panic: formatting a PURL whose type reports an invalid type string
#[verifier::external_body]
pub fn x_panic() -> !
    requires false
{ panic!() }


// ---- unit theory.canon  <= (contracts):0 ----
// ---- the canonical string as a specification function, written from C03 ----
pub open spec fn opt_part(present: bool, s: Seq<char>) -> Seq<char> { if present { s } else { Seq::<char>::empty() } }

/// [`?` + key=value pairs joined by `&`, in storage order]
pub open spec fn quals_text(v: Seq<(QualifierKey, SmallString)>) -> Seq<char> decreases v.len() {
    if v.len() == 0 { Seq::<char>::empty() }
    else {
        quals_text(v.drop_last()) + seq![if v.len() == 1 { '?' } else { '&' }]
            + enc(SetId::Query, v.last().0.0@) + seq!['='] + enc(SetId::Query, v.last().1@)
    }
}

/// C03: `pkg:` + type + `/` + [namespace + `/`] + name + [`@` + version] + [`?` + pairs] + [`#` + subpath], absent parts omitted
pub open spec fn canon_spec(ty: Seq<char>, p: PurlParts) -> Seq<char> {
    "pkg:"@ + ty + "/"@
    + opt_part(p.namespace@.len() > 0, enc(SetId::Path, p.namespace@) + "/"@)
    + enc(SetId::Segment, p.name@)
    + opt_part(p.version@.len() > 0, "@"@ + enc(SetId::Path, p.version@))
    + quals_text(p.qualifiers.qualifiers@)
    + opt_part(p.subpath@.len() > 0, "#"@ + enc(SetId::Fragment, p.subpath@))
}

// staged prefixes of canon_spec (one per write group), so that each stage closes with one extensional equality
pub open spec fn cs1(ty: Seq<char>) -> Seq<char> { "pkg:"@ + ty + "/"@ }
pub open spec fn cs2(ty: Seq<char>, p: PurlParts) -> Seq<char> { cs1(ty) + opt_part(p.namespace@.len() > 0, enc(SetId::Path, p.namespace@) + "/"@) }
pub open spec fn cs3(ty: Seq<char>, p: PurlParts) -> Seq<char> { cs2(ty, p) + enc(SetId::Segment, p.name@) }
pub open spec fn cs4(ty: Seq<char>, p: PurlParts) -> Seq<char> { cs3(ty, p) + opt_part(p.version@.len() > 0, "@"@ + enc(SetId::Path, p.version@)) }
pub open spec fn cs5(ty: Seq<char>, p: PurlParts) -> Seq<char> { cs4(ty, p) + quals_text(p.qualifiers.qualifiers@) }
pub proof fn lemma_canon_stages(ty: Seq<char>, p: PurlParts)
    ensures canon_spec(ty, p) == cs5(ty, p) + opt_part(p.subpath@.len() > 0, "#"@ + enc(SetId::Fragment, p.subpath@))
{ }

// ---- unit U-vtype.is_valid_package_type  <= purl/src/lib.rs:380 ----
#[verifier::external_body]
pub fn is_valid_package_type(package_type: &str) -> (r: bool)
    ensures r == valid_type(package_type@)
{ unimplemented!() }
impl Qualifiers {
// ---- unit U-qmap.is_empty  <= purl/src/qualifiers.rs:83 ----
#[verifier::external_body]
pub fn is_empty(&self) -> (r: bool)
        ensures r == (self.qualifiers@.len() == 0)
{ unimplemented!() }
}
// ---- unit T.Iter  <= purl/src/qualifiers.rs:489 ----
pub struct Iter<'a>(pub slice::Iter<'a, (QualifierKey, SmallString)>);
// ---- unit spec.Iter  <= (contracts):0 ----

impl<'a> Iter<'a> {
    /// the pairs still to be yielded
    #[verifier::prophetic]
    pub open spec fn rem(&self) -> Seq<&'a (QualifierKey, SmallString)> { vstd::std_specs::iter::IteratorSpec::remaining(&self.0) }
}

impl Qualifiers {
// ---- unit U-qmap.into_iter  <= purl/src/qualifiers.rs:301 ----
#[verifier::external_body]
pub fn into_iter(&self) -> (r: Iter<'_>)
        ensures r.rem().len() == self.qualifiers@.len(),
            forall|i: int| 0 <= i < self.qualifiers@.len() ==> *(#[trigger] r.rem()[i]) == self.qualifiers@[i]
{ unimplemented!() }
}
impl<'a> Iter<'a> {
// ---- unit U-qmap.Iter.next  <= purl/src/qualifiers.rs:494 ----
#[verifier::external_body]
pub fn next(&mut self) -> (r: Option<(&'a QualifierKey, &'a str)>)
        ensures
            old(self).rem().len() == 0 ==> r is None,
            old(self).rem().len() > 0 ==> r is Some
                && r->Some_0.0.0@ == old(self).rem()[0].0.0@ && r->Some_0.1@ == old(self).rem()[0].1@
                && final(self).rem() == old(self).rem().skip(1),
{ unimplemented!() }
}
impl<T> GenericPurl<T> {
// ---- unit U-acc.package_type  <= purl/src/lib.rs:283 ----
#[verifier::external_body]
pub fn package_type(&self) -> (r: &T)
        ensures *r == self.package_type
{ unimplemented!() }
// ---- unit U-acc.namespace  <= purl/src/lib.rs:289 ----
#[verifier::external_body]
pub fn namespace(&self) -> (r: Option<&str>)
        ensures self.parts.namespace@.len() == 0 ==> r is None,
            self.parts.namespace@.len() > 0 ==> r is Some && r->Some_0@ == self.parts.namespace@
{ unimplemented!() }
// ---- unit U-acc.name  <= purl/src/lib.rs:295 ----
#[verifier::external_body]
pub fn name(&self) -> (r: &str)
        ensures r@ == self.parts.name@
{ unimplemented!() }
// ---- unit U-acc.version  <= purl/src/lib.rs:301 ----
#[verifier::external_body]
pub fn version(&self) -> (r: Option<&str>)
        ensures self.parts.version@.len() == 0 ==> r is None,
            self.parts.version@.len() > 0 ==> r is Some && r->Some_0@ == self.parts.version@
{ unimplemented!() }
// ---- unit U-acc.subpath  <= purl/src/lib.rs:313 ----
#[verifier::external_body]
pub fn subpath(&self) -> (r: Option<&str>)
        ensures self.parts.subpath@.len() == 0 ==> r is None,
            self.parts.subpath@.len() > 0 ==> r is Some && r->Some_0@ == self.parts.subpath@
{ unimplemented!() }
}
// ---- unit U-fmt.fmt  <= purl/src/format.rs:34 ----
#[verifier::loop_isolation(false)]
pub fn purl_fmt<T: PurlShape>(this: &GenericPurl<T>, f: &mut Formatter) -> (r: FmtResult)
    requires valid_type(this.package_type.type_text())      // documented panic: a user type reporting an invalid type string
    ensures r is Ok ==> final(f).out() == old(f).out() + canon_spec(this.package_type.type_text(), this.parts)
{
        let ghost start = f.out();
        let ghost ty = this.package_type.type_text();
        let ghost p = this.parts;
        proof { reveal_strlit("="); assert("="@ =~= seq!['=']); }

        let package_type = this.package_type().package_type();
        if !is_valid_package_type(&package_type) {
            x_panic();
        }
        { x_write_str(f, "pkg:")?; x_write_display(f, &package_type)?; x_write_str(f, "/")?; };
        
        proof { assert(f.out() =~= start + cs1(ty)); }
if let Some(namespace) = this.namespace() {
            { x_write_encoded(f, namespace, PURL_PATH)?; x_write_str(f, "/")?; };
        }
        
        proof { assert(f.out() =~= start + cs2(ty, p)); }
{ x_write_encoded(f, this.name(), PURL_PATH_SEGMENT)?; };
        
        proof { assert(f.out() =~= start + cs3(ty, p)); }
if let Some(version) = this.version() {
            { x_write_str(f, "@")?; x_write_encoded(f, version, PURL_PATH)?; };
        }
        
        proof { assert(f.out() =~= start + cs4(ty, p)); }
if !this.parts.qualifiers.is_empty() {
            let mut prefix = '?';
            { let mut iter_ = (&this.parts.qualifiers).into_iter();
            let ghost qs = this.parts.qualifiers.qualifiers@;
            let ghost base = f.out();
            let ghost mut gi: int = 0;
            proof { assert(qs.take(0) =~= Seq::<(QualifierKey, SmallString)>::empty()); assert(base + quals_text(qs.take(0)) =~= base); }

 loop 

                invariant
                    qs == this.parts.qualifiers.qualifiers@,
                    0 <= gi <= qs.len(), iter_.rem().len() == qs.len() - gi,
                    forall|j: int| 0 <= j < iter_.rem().len() ==> *(#[trigger] iter_.rem()[j]) == qs[gi + j],
                    prefix == (if gi == 0 { '?' } else { '&' }),
                    f.out() == base + quals_text(qs.take(gi)),
                    gi == qs.len() ==> f.out() == base + quals_text(qs),
                decreases qs.len() - gi,
{
 match iter_.next() { Some((k, v)) => {
                
                let ghost pre_out = f.out();
                let ghost pfx = prefix;
{ x_write_display(f, &prefix)?; x_write_encoded(f, k, PURL_QUERY)?; x_write_str(f, "=")?; x_write_encoded(f, v, PURL_QUERY)?; };
                prefix = '&';
                proof {
                    assert(qs.take(gi + 1).drop_last() == qs.take(gi));
                    assert(qs.take(gi + 1).last() == qs[gi]);
                    let kv = qs[gi];
                    assert(k.0@ == kv.0.0@ && v@ == kv.1@);
                    assert(f.out() =~= pre_out + seq![pfx] + enc(SetId::Query, kv.0.0@) + seq!['='] + enc(SetId::Query, kv.1@));
                    assert(f.out() =~= base + quals_text(qs.take(gi + 1)));
                    if gi + 1 == qs.len() { assert(qs.take(gi + 1) =~= qs); }
                    gi = gi + 1;
                }

            }, None => break, }
 } }
        }
        
        proof {
            if p.qualifiers.qualifiers@.len() == 0 { assert(quals_text(p.qualifiers.qualifiers@) =~= Seq::<char>::empty()); }
            assert(f.out() =~= start + cs5(ty, p));
        }
if let Some(subpath) = this.subpath() {
            { x_write_str(f, "#")?; x_write_encoded(f, subpath, PURL_FRAGMENT)?; };
        }
        
        proof { lemma_canon_stages(ty, p); assert(f.out() =~= start + canon_spec(ty, p)); }
Ok(())
    }

// ---- consistency canary: must be REJECTED; if it verifies the assumptions are contradictory ----
pub proof fn verif_canary_must_fail()
{
    axiom_string_from(); broadcast use axiom_ascii_to_lower;
    assert(false);
}
} // verus!
fn main() {}
