// GENERATED on every run by vlib/extract.py from /repo -- do not edit
#![allow(unused_imports, unused_variables, unused_mut, dead_code, unused_parens, unused_braces, non_snake_case)]
#![feature(allocator_api)]
use vstd::prelude::*;
use core::cmp::Ordering;
verus! {

// ---- theory: base.rs ----
// Shared vocabulary. Strings are Seq<char>. Everything marked `uninterp` or `external_body` below is an
// ASSUMPTION about std / Unicode; each is listed in the trusted base and replayed against the real std by
// the A step (exhaustively per char, bounded per string).

pub type SmallString = String;   // R0: purl's own `#[cfg(not(feature = "smartstring"))] type SmallString = String;`

// ---- Unicode tables (uninterpreted) ----
pub uninterp spec fn u_to_lower(c: char) -> Seq<char>;      // char::to_lowercase, as a sequence

pub open spec fn is_ascii_c(c: char) -> bool { (c as u32) < 128 }
pub open spec fn ascii_upper_c(c: char) -> bool { 'A' <= c && c <= 'Z' }
pub open spec fn ascii_lower_c(c: char) -> bool { 'a' <= c && c <= 'z' }
pub open spec fn ascii_digit_c(c: char) -> bool { '0' <= c && c <= '9' }
pub open spec fn ascii_alnum_c(c: char) -> bool { ascii_upper_c(c) || ascii_lower_c(c) || ascii_digit_c(c) }
pub open spec fn ascii_hex_c(c: char) -> bool { ascii_digit_c(c) || ('a' <= c && c <= 'f') || ('A' <= c && c <= 'F') }
pub open spec fn ascii_lower(c: char) -> char { if ascii_upper_c(c) { ((c as u32 + 32) as char) } else { c } }

/// Unicode lower-casing of a string: each character replaced by its lower-case mapping (C08 wording).
pub open spec fn lower_seq(s: Seq<char>) -> Seq<char> decreases s.len()
{ if s.len() == 0 { seq![] } else { lower_seq(s.drop_last()) + u_to_lower(s.last()) } }

/// ASCII lower-casing (what make_ascii_lowercase / to_ascii_lowercase do).
pub open spec fn lower_ascii_seq(s: Seq<char>) -> Seq<char> { s.map_values(|c: char| ascii_lower(c)) }

pub open spec fn all_ascii_lower(s: Seq<char>) -> bool { forall|i: int| 0 <= i < s.len() ==> ascii_lower_c(#[trigger] s[i]) }

pub open spec fn has_char(s: Seq<char>, c: char) -> bool { exists|i: int| 0 <= i < s.len() && s[i] == c }

// A-validated fact (exhaustive over all 128 ASCII chars): on ASCII, Unicode lower-casing is ASCII lower-casing.
#[verifier::external_body]
pub broadcast proof fn axiom_ascii_to_lower(c: char)
    requires is_ascii_c(c)
    ensures #[trigger] u_to_lower(c) == seq![ascii_lower(c)]
{ }

// ---- char methods (assumed = their documented ASCII definitions; A: exhaustive over all scalar values) ----
pub assume_specification [char::is_ascii] (c: &char) -> (r: bool) ensures r == is_ascii_c(*c);
pub assume_specification [char::is_ascii_alphanumeric] (c: &char) -> (r: bool) ensures r == ascii_alnum_c(*c);
pub assume_specification [char::is_ascii_lowercase] (c: &char) -> (r: bool) ensures r == ascii_lower_c(*c);
pub assume_specification [char::is_ascii_hexdigit] (c: &char) -> (r: bool) ensures r == ascii_hex_c(*c);
pub assume_specification [char::is_ascii_uppercase] (c: &char) -> (r: bool) ensures r == ascii_upper_c(*c);
pub assume_specification [char::is_ascii_digit] (c: &char) -> (r: bool) ensures r == ascii_digit_c(*c);
pub assume_specification [char::is_ascii_alphabetic] (c: &char) -> (r: bool) ensures r == (ascii_upper_c(*c) || ascii_lower_c(*c));
pub assume_specification [char::to_ascii_lowercase] (c: &char) -> (r: char) ensures r == ascii_lower(*c);

/// byte length of the UTF-8 encoding (uninterpreted; only that it is a function of the text is used)
pub uninterp spec fn utf8_len(s: Seq<char>) -> nat;
pub assume_specification [String::len] (s: &String) -> (r: usize) ensures r == utf8_len(s@);

pub assume_specification [std::string::String::with_capacity] (n: usize) -> (r: String) ensures r@ == Seq::<char>::empty();

// ---- string wrappers (R3): body IS the original call; only the contract is assumed ----
#[verifier::external_body]
pub fn x_make_ascii_lowercase(s: &mut str)
    ensures final(s)@ == lower_ascii_seq(old(s)@)
{ s.make_ascii_lowercase() }

// `&mut String -> &mut str` deref coercion: same text, writes go through.
pub assume_specification [ <String as core::ops::DerefMut>::deref_mut ] (s: &mut String) -> (r: &mut str)
    ensures r@ == old(s)@, final(r)@ == final(s)@;

/// `<[char]>::contains`
#[verifier::external_body]
pub fn x_slice_contains(s: &[char], c: &char) -> (r: bool)
    ensures r == s@.contains(*c)
{ s.contains(c) }

#[verifier::external_body]
pub fn x_to_ascii_lowercase(s: &str) -> (r: String)
    ensures r@ == lower_ascii_seq(s@)
{ s.to_ascii_lowercase() }

/// `s.chars().flat_map(|c| c.to_lowercase()).collect()`
#[verifier::external_body]
pub fn x_lower_collect(s: &str) -> (r: String)
    ensures r@ == lower_seq(s@)
{ s.chars().flat_map(|c| c.to_lowercase()).collect() }

/// `c.to_lowercase().ne([c])`
#[verifier::external_body]
pub fn x_lower_changes(c: char) -> (r: bool)
    ensures r == (u_to_lower(c) != seq![c])
{ c.to_lowercase().ne([c]) }

/// `result.extend(c.to_lowercase())`
#[verifier::external_body]
pub fn x_extend_lower(s: &mut String, c: char)
    ensures final(s)@ == old(s)@ + u_to_lower(c)
{ s.extend(c.to_lowercase()) }

// String::from(&str) / String::from(String) / .into(): vstd ties From::from to FromSpec; the two instances used by
// purl (with SmallString = String) are assumed to copy / move the text.
#[verifier::external_body]
pub proof fn axiom_string_from()
    ensures
        <String as vstd::std_specs::convert::FromSpec<&str>>::obeys_from_spec(),
        forall|s: &str| (#[trigger] <String as vstd::std_specs::convert::FromSpec<&str>>::from_spec(s))@ == s@,
        <String as vstd::std_specs::convert::FromSpec<String>>::obeys_from_spec(),
        forall|s: String| (#[trigger] <String as vstd::std_specs::convert::FromSpec<String>>::from_spec(s)) == s,
{ }

// ---- lemmas over the vocabulary (proved) ----
pub proof fn lemma_lower_seq_identity(s: Seq<char>)
    requires forall|i: int| 0 <= i < s.len() ==> u_to_lower(#[trigger] s[i]) == seq![s[i]]
    ensures lower_seq(s) == s
    decreases s.len()
{
    if s.len() > 0 {
        lemma_lower_seq_identity(s.drop_last());
        assert(s.drop_last().push(s.last()) == s);
        assert(lower_seq(s) =~= s);
    }
}

pub proof fn lemma_lower_seq_ascii(s: Seq<char>)
    requires forall|i: int| 0 <= i < s.len() ==> (u_to_lower(#[trigger] s[i]) != seq![s[i]] ==> is_ascii_c(s[i]))
    ensures lower_seq(s) == lower_ascii_seq(s)
    decreases s.len()
{
    broadcast use axiom_ascii_to_lower;
    if s.len() > 0 {
        lemma_lower_seq_ascii(s.drop_last());
        let c = s.last();
        if is_ascii_c(c) {
            assert(u_to_lower(c) == seq![ascii_lower(c)]);
        } else {
            assert(u_to_lower(c) == seq![c]);
            assert(ascii_lower(c) == c);
        }
        assert(lower_ascii_seq(s.drop_last()) =~= lower_ascii_seq(s).drop_last());
        assert(lower_seq(s) =~= lower_ascii_seq(s));
    } else {
        assert(lower_seq(s) =~= lower_ascii_seq(s));
    }
}

pub proof fn lemma_lower_seq_push(s: Seq<char>, c: char)
    ensures lower_seq(s.push(c)) == lower_seq(s) + u_to_lower(c)
{
    assert(s.push(c).drop_last() == s);
}

pub proof fn lemma_lower_seq_take(s: Seq<char>, k: int)
    requires 0 <= k < s.len()
    ensures lower_seq(s.take(k + 1)) == lower_seq(s.take(k)) + u_to_lower(s[k])
{
    assert(s.take(k + 1).drop_last() == s.take(k));
}

// ---- trimming / splitting vocabulary (defined, so lemmas about it are proved) ----
pub open spec fn trim_start_spec(s: Seq<char>, c: char) -> Seq<char> decreases s.len()
{ if s.len() > 0 && s[0] == c { trim_start_spec(s.subrange(1, s.len() as int), c) } else { s } }
pub open spec fn trim_end_spec(s: Seq<char>, c: char) -> Seq<char> decreases s.len()
{ if s.len() > 0 && s.last() == c { trim_end_spec(s.drop_last(), c) } else { s } }
pub open spec fn trim_spec(s: Seq<char>, c: char) -> Seq<char> { trim_end_spec(trim_start_spec(s, c), c) }
pub open spec fn all_char(s: Seq<char>, c: char) -> bool { forall|i: int| 0 <= i < s.len() ==> #[trigger] s[i] == c }

/// `s.trim_matches(c)` for a char pattern
#[verifier::external_body]
pub fn x_trim_matches<'a>(s: &'a str, c: char) -> (r: &'a str)
    ensures r@ == trim_spec(s@, c)
{ s.trim_matches(c) }

/// `s.trim_start_matches(c)` for a char pattern
#[verifier::external_body]
pub fn x_trim_start_matches<'a>(s: &'a str, c: char) -> (r: &'a str)
    ensures r@ == trim_start_spec(s@, c)
{ s.trim_start_matches(c) }

/// `s.contains(set)` for a `&[char]` pattern
#[verifier::external_body]
pub fn x_str_contains_any(s: &str, set: &[char]) -> (r: bool)
    ensures r == exists|i: int| 0 <= i < s@.len() && set@.contains(#[trigger] s@[i])
{ s.contains(set) }

/// `s.contains(c)` for a char pattern
#[verifier::external_body]
pub fn x_str_contains_char(s: &str, c: char) -> (r: bool)
    ensures r == has_char(s@, c)
{ s.contains(c) }

pub proof fn lemma_trim_start_all(s: Seq<char>, c: char)
    ensures
        all_char(s, c) ==> trim_start_spec(s, c).len() == 0,
        !all_char(s, c) ==> trim_start_spec(s, c).len() > 0 && trim_start_spec(s, c)[0] != c && !all_char(trim_start_spec(s, c), c),
    decreases s.len()
{
    if s.len() > 0 && s[0] == c {
        let t = s.subrange(1, s.len() as int);
        lemma_trim_start_all(t, c);
        if all_char(s, c) {
            assert forall|i: int| 0 <= i < t.len() implies #[trigger] t[i] == c by { assert(t[i] == s[i + 1]); }
        } else {
            let j = choose|j: int| 0 <= j < s.len() && s[j] != c;
            assert(t[j - 1] == s[j]);
        }
    } else if s.len() > 0 {
        assert(s[0] != c);
    }
}

pub proof fn lemma_trim_end_all(s: Seq<char>, c: char)
    ensures
        all_char(s, c) ==> trim_end_spec(s, c).len() == 0,
        !all_char(s, c) ==> trim_end_spec(s, c).len() > 0,
    decreases s.len()
{
    if s.len() > 0 && s.last() == c {
        let t = s.drop_last();
        lemma_trim_end_all(t, c);
        if !all_char(s, c) {
            let j = choose|j: int| 0 <= j < s.len() && s[j] != c;
            assert(t[j] == s[j]);
        }
    } else if s.len() > 0 {
        assert(s[s.len() - 1] != c);
    }
}

/// trimming leaves nothing exactly when the string consists of the trimmed character only
pub proof fn lemma_trim_empty_iff_all(s: Seq<char>, c: char)
    ensures (trim_spec(s, c).len() == 0) == all_char(s, c)
{
    lemma_trim_start_all(s, c);
    lemma_trim_end_all(trim_start_spec(s, c), c);
}

pub proof fn lemma_lower_ascii_fixed(s: Seq<char>)
    requires forall|i: int| 0 <= i < s.len() ==> !ascii_upper_c(#[trigger] s[i])
    ensures lower_ascii_seq(s) == s
{
    assert(lower_ascii_seq(s) =~= s);
}

// ---- idempotence of lower-casing (C10, C12) ----
/// A-validated (exhaustive over all scalar values): lower-casing the lower-case mapping of a char changes nothing
#[verifier::external_body]
pub proof fn axiom_lower_idem_char(c: char)
    ensures lower_seq(u_to_lower(c)) == u_to_lower(c)
{ }

pub proof fn lemma_lower_seq_concat(a: Seq<char>, b: Seq<char>)
    ensures lower_seq(a + b) == lower_seq(a) + lower_seq(b)
    decreases b.len()
{
    if b.len() == 0 {
        assert(a + b =~= a);
        assert(lower_seq(a) + lower_seq(b) =~= lower_seq(a));
    } else {
        assert((a + b).drop_last() =~= a + b.drop_last());
        assert((a + b).last() == b.last());
        lemma_lower_seq_concat(a, b.drop_last());
        assert(lower_seq(a + b) =~= lower_seq(a) + lower_seq(b));
    }
}

/// lower-casing is a projection: applying it twice is applying it once
pub proof fn lemma_lower_seq_idem(s: Seq<char>)
    ensures lower_seq(lower_seq(s)) == lower_seq(s)
    decreases s.len()
{
    if s.len() > 0 {
        lemma_lower_seq_idem(s.drop_last());
        axiom_lower_idem_char(s.last());
        lemma_lower_seq_concat(lower_seq(s.drop_last()), u_to_lower(s.last()));
    }
}

// A-validated per char (exhaustive over all scalar values): lower-casing never yields the empty string
#[verifier::external_body]
pub proof fn axiom_lower_nonempty(c: char)
    ensures u_to_lower(c).len() > 0
{ }

// ---- theory: split.rs ----
// ---- splitting vocabulary (defined recursively, so the lemmas below are proved, not assumed) ----
pub open spec fn last_index_of(s: Seq<char>, c: char) -> int decreases s.len()
{ if s.len() == 0 { -1 } else if s.last() == c { s.len() - 1 } else { last_index_of(s.drop_last(), c) } }

pub open spec fn first_index_of(s: Seq<char>, c: char) -> int decreases s.len()
{ if s.len() == 0 { -1 } else if s[0] == c { 0 } else { let r = first_index_of(s.subrange(1, s.len() as int), c); if r < 0 { -1 } else { r + 1 } } }

pub proof fn lemma_last_index(s: Seq<char>, c: char)
    ensures
        has_char(s, c) <==> last_index_of(s, c) >= 0,
        last_index_of(s, c) >= 0 ==> last_index_of(s, c) < s.len() && s[last_index_of(s, c)] == c
            && forall|j: int| last_index_of(s, c) < j < s.len() ==> s[j] != c,
        last_index_of(s, c) >= -1,
    decreases s.len()
{
    if s.len() > 0 {
        let t = s.drop_last();
        lemma_last_index(t, c);
        if s.last() == c { assert(s[s.len() - 1] == c); }
        else {
            if has_char(s, c) { let i = choose|i: int| 0 <= i < s.len() && s[i] == c; assert(t[i] == c); }
            if has_char(t, c) { let i = choose|i: int| 0 <= i < t.len() && t[i] == c; assert(s[i] == c); }
            assert forall|j: int| last_index_of(s, c) < j < s.len() && last_index_of(s, c) >= 0 implies s[j] != c by {
                if j < t.len() { assert(t[j] == s[j]); }
            }
        }
    }
}

pub proof fn lemma_first_index(s: Seq<char>, c: char)
    ensures
        has_char(s, c) <==> first_index_of(s, c) >= 0,
        first_index_of(s, c) >= 0 ==> first_index_of(s, c) < s.len() && s[first_index_of(s, c)] == c
            && forall|j: int| 0 <= j < first_index_of(s, c) ==> s[j] != c,
        first_index_of(s, c) >= -1,
    decreases s.len()
{
    if s.len() > 0 {
        let t = s.subrange(1, s.len() as int);
        lemma_first_index(t, c);
        if s[0] == c { }
        else {
            if has_char(s, c) { let i = choose|i: int| 0 <= i < s.len() && s[i] == c; assert(t[i - 1] == c); }
            if has_char(t, c) { let i = choose|i: int| 0 <= i < t.len() && t[i] == c; assert(s[i + 1] == c); }
            if first_index_of(s, c) >= 0 {
                assert(s[first_index_of(t, c) + 1] == t[first_index_of(t, c)]);
                assert forall|j: int| 0 <= j < first_index_of(s, c) implies s[j] != c by {
                    if j > 0 { assert(t[j - 1] == s[j]); }
                }
            }
        }
    }
}

/// joining `ns`, separator, `name` and splitting at the LAST separator gives the pieces back when `name` has none
pub proof fn lemma_rsplit_join(ns: Seq<char>, name: Seq<char>, c: char)
    requires !has_char(name, c)
    ensures last_index_of(ns + seq![c] + name, c) == ns.len()
    decreases name.len()
{
    let s = ns + seq![c] + name;
    if name.len() == 0 {
        assert(s.last() == c);
    } else {
        assert(s.last() == name.last());
        assert(name[name.len() - 1] != c);
        assert(s.drop_last() =~= ns + seq![c] + name.drop_last());
        assert forall|i: int| 0 <= i < name.drop_last().len() implies name.drop_last()[i] != c by { assert(name[i] != c); }
        lemma_rsplit_join(ns, name.drop_last(), c);
    }
}

/// ... and at the FIRST separator when `ns` has none
pub proof fn lemma_split_join(ns: Seq<char>, name: Seq<char>, c: char)
    requires !has_char(ns, c)
    ensures first_index_of(ns + seq![c] + name, c) == ns.len()
    decreases ns.len()
{
    let s = ns + seq![c] + name;
    if ns.len() == 0 {
        assert(s[0] == c);
    } else {
        assert(s[0] == ns[0]);
        assert(ns[0] != c);
        let ns1 = ns.subrange(1, ns.len() as int);
        assert(s.subrange(1, s.len() as int) =~= ns1 + seq![c] + name);
        assert forall|i: int| 0 <= i < ns1.len() implies ns1[i] != c by { assert(ns[i + 1] != c); }
        lemma_split_join(ns1, name, c);
    }
}

/// `s.rsplit_once(c)` for a char pattern
#[verifier::external_body]
pub fn x_rsplit_once<'a>(s: &'a str, c: char) -> (r: Option<(&'a str, &'a str)>)
    ensures match r {
        None => last_index_of(s@, c) < 0,
        Some((a, b)) => last_index_of(s@, c) >= 0 && a@ == s@.subrange(0, last_index_of(s@, c))
            && b@ == s@.subrange(last_index_of(s@, c) + 1, s@.len() as int),
    }
{ s.rsplit_once(c) }

/// `s.split_once(c)` for a char pattern
#[verifier::external_body]
pub fn x_split_once<'a>(s: &'a str, c: char) -> (r: Option<(&'a str, &'a str)>)
    ensures match r {
        None => first_index_of(s@, c) < 0,
        Some((a, b)) => first_index_of(s@, c) >= 0 && a@ == s@.subrange(0, first_index_of(s@, c))
            && b@ == s@.subrange(first_index_of(s@, c) + 1, s@.len() as int),
    }
{ s.split_once(c) }

/// `Some(s).filter(|v| !v.is_empty())`
#[verifier::external_body]
pub fn x_some_nonempty<'a>(s: &'a str) -> (r: Option<&'a str>)
    ensures s@.len() == 0 ==> r is None, s@.len() > 0 ==> r is Some && r->Some_0@ == s@
{ Some(s).filter(|v| !v.is_empty()) }

/// `format!("{}<sep>{}", a, b)` for a one-character literal separator
#[verifier::external_body]
pub fn x_concat3(a: &str, sep: char, b: &str) -> (r: String)
    ensures r@ == a@ + seq![sep] + b@
{ let mut r = String::from(a); r.push(sep); r.push_str(b); r }

/// pieces between raw occurrences of `c`
pub open spec fn split_spec(s: Seq<char>, c: char) -> Seq<Seq<char>> decreases s.len()
{
    if first_index_of(s, c) < 0 || first_index_of(s, c) >= s.len() { seq![s] }
    else { seq![s.subrange(0, first_index_of(s, c))] + split_spec(s.subrange(first_index_of(s, c) + 1, s.len() as int), c) }
}


/// `s.split(c)` for a char pattern, collected (the loop below iterates over the collected pieces)
#[verifier::external_body]
pub fn x_split<'a>(s: &'a str, c: char) -> (r: Vec<&'a str>)
    ensures r@.len() == split_spec(s@, c).len(), forall|i: int| 0 <= i < r@.len() ==> (#[trigger] r@[i])@ == split_spec(s@, c)[i]
{ s.split(c).collect() }


// ---- generic facts about has_char (used by the inverse and checksum theories) ----
pub proof fn lemma_has_char_concat(a: Seq<char>, b: Seq<char>, c: char)
    ensures has_char(a + b, c) == (has_char(a, c) || has_char(b, c))
{
    if has_char(a, c) { let i = choose|i: int| 0 <= i < a.len() && a[i] == c; assert((a + b)[i] == c); }
    if has_char(b, c) { let i = choose|i: int| 0 <= i < b.len() && b[i] == c; assert((a + b)[a.len() + i] == c); }
    if has_char(a + b, c) {
        let i = choose|i: int| 0 <= i < (a + b).len() && (a + b)[i] == c;
        if i < a.len() { assert(a[i] == c); } else { assert(b[i - a.len()] == c); }
    }
}


pub proof fn lemma_single_excludes(c: char, x: char)
    requires c != x
    ensures !has_char(seq![c], x)
{
    if has_char(seq![c], x) { let i = choose|i: int| 0 <= i < seq![c].len() && seq![c][i] == x; }
}


pub proof fn lemma_split_pieces_no_sep(s: Seq<char>, c: char)
    ensures forall|i: int| 0 <= i < split_spec(s, c).len() ==> !has_char(#[trigger] split_spec(s, c)[i], c)
    decreases s.len()
{
    lemma_first_index(s, c);
    let f = first_index_of(s, c);
    if f < 0 || f >= s.len() {
        assert(split_spec(s, c) =~= seq![s]);
    } else {
        let head = s.subrange(0, f);
        let tail = s.subrange(f + 1, s.len() as int);
        lemma_split_pieces_no_sep(tail, c);
        if has_char(head, c) { let i = choose|i: int| 0 <= i < head.len() && head[i] == c; assert(s[i] == c); }
        let ps = split_spec(s, c);
        assert(ps =~= seq![head] + split_spec(tail, c));
        assert forall|i: int| 0 <= i < ps.len() implies !has_char(#[trigger] ps[i], c) by {
            if i == 0 { assert(ps[0] == head); } else { assert(ps[i] == split_spec(tail, c)[i - 1]); }
        }
    }
}


// ---- unit T.PurlField  <= purl/src/parse.rs:112 ----
#[derive(Debug, Clone, Copy)]
pub enum PurlField {
    PackageType,
    Namespace,
    Name,
    Version,
    Subpath,
}
// ---- unit T.ParseError  <= purl/src/parse.rs:17 ----
#[derive(Debug)]
pub enum ParseError {
    UnsupportedUrlScheme,
    MissingRequiredField(PurlField),
    InvalidPackageType,
    InvalidQualifier,
    InvalidEscape,
}
// ---- unit T.QualifierKey  <= purl/src/qualifiers.rs:319 ----
pub struct QualifierKey(pub SmallString);
// ---- unit T.Qualifiers  <= purl/src/qualifiers.rs:21 ----
pub struct Qualifiers {
    pub qualifiers: Vec<(QualifierKey, SmallString)>,
}
// ---- unit T.PurlParts  <= purl/src/lib.rs:212 ----
pub struct PurlParts {
    pub namespace: SmallString,
    pub name: SmallString,
    pub version: SmallString,
    pub qualifiers: Qualifiers,
    pub subpath: SmallString,
}
// ---- unit T.MixedQualifierKey  <= purl/src/qualifiers.rs:553 ----
pub enum MixedQualifierKey<S> {
    Lower(S),
    Mixed(S),
}
// ---- unit theory.qual  <= (contracts):0 ----
// ---- qualifier keys (C04, C05, C11: ASCII letters, digits, '.', '-', '_'; non-empty) ----
pub open spec fn key_char(c: char) -> bool { ascii_alnum_c(c) || c == '.' || c == '-' || c == '_' }
pub open spec fn valid_key(s: Seq<char>) -> bool { s.len() > 0 && forall|i: int| 0 <= i < s.len() ==> key_char(#[trigger] s[i]) }
/// canonical stored form: valid and free of ASCII upper-case
pub open spec fn canon_key(s: Seq<char>) -> bool { valid_key(s) && forall|i: int| 0 <= i < s.len() ==> !ascii_upper_c(#[trigger] s[i]) }

// ---- lexicographic order on Seq<char> by scalar value (= byte-wise order of the UTF-8 text, = str::cmp) ----
pub open spec fn lex_cmp(a: Seq<char>, b: Seq<char>) -> Ordering decreases a.len()
{
    if a.len() == 0 { if b.len() == 0 { Ordering::Equal } else { Ordering::Less } }
    else if b.len() == 0 { Ordering::Greater }
    else if (a[0] as u32) < (b[0] as u32) { Ordering::Less }
    else if (a[0] as u32) > (b[0] as u32) { Ordering::Greater }
    else { lex_cmp(a.subrange(1, a.len() as int), b.subrange(1, b.len() as int)) }
}
pub open spec fn str_lt(a: Seq<char>, b: Seq<char>) -> bool { lex_cmp(a, b) is Less }

pub proof fn lemma_lex_eq(a: Seq<char>, b: Seq<char>)
    ensures (lex_cmp(a, b) is Equal) == (a == b)
    decreases a.len()
{
    if a.len() > 0 && b.len() > 0 {
        if a[0] == b[0] {
            lemma_lex_eq(a.subrange(1, a.len() as int), b.subrange(1, b.len() as int));
            if a.subrange(1, a.len() as int) == b.subrange(1, b.len() as int) {
                assert(a =~= seq![a[0]] + a.subrange(1, a.len() as int));
                assert(b =~= seq![b[0]] + b.subrange(1, b.len() as int));
            }
        } else {
            assert((a[0] as u32) != (b[0] as u32));
        }
    } else {
        assert((a == b) == (a.len() == 0 && b.len() == 0)) by { if a.len() == 0 && b.len() == 0 { assert(a =~= b); } }
    }
}

pub proof fn lemma_lex_flip(a: Seq<char>, b: Seq<char>)
    ensures
        (lex_cmp(a, b) is Less) == (lex_cmp(b, a) is Greater),
        (lex_cmp(a, b) is Greater) == (lex_cmp(b, a) is Less),
    decreases a.len()
{
    if a.len() > 0 && b.len() > 0 && a[0] == b[0] {
        lemma_lex_flip(a.subrange(1, a.len() as int), b.subrange(1, b.len() as int));
    }
}

pub proof fn lemma_lex_trans(a: Seq<char>, b: Seq<char>, c: Seq<char>)
    requires str_lt(a, b), str_lt(b, c)
    ensures str_lt(a, c)
    decreases a.len()
{
    if a.len() > 0 && b.len() > 0 && c.len() > 0 && a[0] == b[0] && b[0] == c[0] {
        lemma_lex_trans(a.subrange(1, a.len() as int), b.subrange(1, b.len() as int), c.subrange(1, c.len() as int));
    }
}

pub proof fn lemma_lt_irrefl(a: Seq<char>)
    ensures !str_lt(a, a)
{
    lemma_lex_eq(a, a);
}

// ---- the representation invariant of Qualifiers (C04, C11): keys canonical, strictly ascending ----
pub open spec fn keys_sorted(v: Seq<(QualifierKey, SmallString)>) -> bool {
    forall|i: int, j: int| 0 <= i < j < v.len() ==> str_lt(#[trigger] v[i].0.0@, #[trigger] v[j].0.0@)
}
pub open spec fn keys_canon(v: Seq<(QualifierKey, SmallString)>) -> bool {
    forall|i: int| 0 <= i < v.len() ==> canon_key(#[trigger] v[i].0.0@)
}
pub open spec fn wf_seq(v: Seq<(QualifierKey, SmallString)>) -> bool { keys_sorted(v) && keys_canon(v) }

/// abstract content: key text -> value text (a function of the sequence; unique positions because keys are strictly ascending)
pub open spec fn has_key(v: Seq<(QualifierKey, SmallString)>, k: Seq<char>) -> bool {
    exists|i: int| 0 <= i < v.len() && #[trigger] v[i].0.0@ == k
}
pub open spec fn has_pair(v: Seq<(QualifierKey, SmallString)>, k: Seq<char>, val: Seq<char>) -> bool {
    exists|i: int| 0 <= i < v.len() && #[trigger] v[i].0.0@ == k && v[i].1@ == val
}

pub proof fn lemma_sorted_unique(v: Seq<(QualifierKey, SmallString)>, i: int, j: int)
    requires keys_sorted(v), 0 <= i < v.len(), 0 <= j < v.len(), v[i].0.0@ == v[j].0.0@
    ensures i == j
{
    lemma_lt_irrefl(v[i].0.0@);
    if i < j { assert(str_lt(v[i].0.0@, v[j].0.0@)); }
    if j < i { assert(str_lt(v[j].0.0@, v[i].0.0@)); }
}

/// the position of key `k` in a strictly ascending list = number of keys smaller than `k` (names the witness, so
/// whole-content postconditions need no existential)
pub open spec fn pos_of(v: Seq<(QualifierKey, SmallString)>, k: Seq<char>) -> int decreases v.len()
{
    if v.len() == 0 { 0 } else { pos_of(v.drop_last(), k) + if str_lt(v.last().0.0@, k) { 1int } else { 0int } }
}

pub proof fn lemma_pos_of(v: Seq<(QualifierKey, SmallString)>, k: Seq<char>, i: int)
    requires 0 <= i <= v.len(),
        forall|j: int| 0 <= j < i ==> str_lt(#[trigger] v[j].0.0@, k),
        forall|j: int| i <= j < v.len() ==> !str_lt(#[trigger] v[j].0.0@, k),
    ensures pos_of(v, k) == i
    decreases v.len()
{
    if v.len() > 0 {
        let w = v.drop_last();
        if i == v.len() {
            assert forall|j: int| 0 <= j < i - 1 implies str_lt(#[trigger] w[j].0.0@, k) by { assert(w[j] == v[j]); }
            lemma_pos_of(w, k, i - 1);
            assert(str_lt(v[v.len() - 1].0.0@, k));
        } else {
            assert forall|j: int| 0 <= j < i implies str_lt(#[trigger] w[j].0.0@, k) by { assert(w[j] == v[j]); }
            assert forall|j: int| i <= j < w.len() implies !str_lt(#[trigger] w[j].0.0@, k) by { assert(w[j] == v[j]); }
            lemma_pos_of(w, k, i);
            assert(!str_lt(v[v.len() - 1].0.0@, k));
        }
    }
}

pub proof fn lemma_lt_asym(a: Seq<char>, b: Seq<char>)
    requires str_lt(a, b)
    ensures !str_lt(b, a)
{
    lemma_lex_flip(a, b);
}

/// in a strictly ascending list, the value paired with key `k` is the one at `pos_of(k)`
pub proof fn lemma_has_pair_pos(v: Seq<(QualifierKey, SmallString)>, k: Seq<char>)
    requires keys_sorted(v)
    ensures forall|val: Seq<char>| has_pair(v, k, val) ==> 0 <= pos_of(v, k) < v.len() && v[pos_of(v, k)].0.0@ == k && v[pos_of(v, k)].1@ == val
{
    assert forall|val: Seq<char>| has_pair(v, k, val) implies 0 <= pos_of(v, k) < v.len() && v[pos_of(v, k)].0.0@ == k && v[pos_of(v, k)].1@ == val by {
        let i = choose|i: int| 0 <= i < v.len() && #[trigger] v[i].0.0@ == k && v[i].1@ == val;
        assert forall|j: int| 0 <= j < i implies str_lt(#[trigger] v[j].0.0@, k) by { assert(str_lt(v[j].0.0@, v[i].0.0@)); }
        assert forall|j: int| i <= j < v.len() implies !str_lt(#[trigger] v[j].0.0@, k) by {
            if j == i { lemma_lt_irrefl(k); } else { assert(str_lt(v[i].0.0@, v[j].0.0@)); lemma_lt_asym(k, v[j].0.0@); }
        }
        lemma_pos_of(v, k, i);
    }
}
// ---- R9: stub of std's AsRef, with a specification of the text it exposes ----
pub uninterp spec fn view_of<T: ?Sized>(t: &T) -> Seq<char>;
#[verifier::external_body]
pub broadcast proof fn axiom_view_of_str(s: &str)
    ensures #[trigger] view_of::<str>(s) == s@
{ }

pub trait AsRef<T: ?Sized> {
    spec fn text(&self) -> Seq<char>;
    fn as_ref(&self) -> (r: &T)
        ensures view_of(r) == self.text();
}
impl AsRef<str> for str {
    open spec fn text(&self) -> Seq<char> { self@ }
    fn as_ref(&self) -> (r: &str) { broadcast use axiom_view_of_str; self }
}
impl<T: ?Sized + AsRef<str>> AsRef<str> for &T {
    open spec fn text(&self) -> Seq<char> { (**self).text() }
    fn as_ref(&self) -> (r: &str) { (**self).as_ref() }
}
impl AsRef<str> for String {
    open spec fn text(&self) -> Seq<char> { self@ }
    fn as_ref(&self) -> (r: &str) { broadcast use axiom_view_of_str; self.as_str() }
}

/// ASSUMED coherence of std conversions: for every K that is both `AsRef<str>` and convertible into SmallString,
/// `SmallString::from(k)` has the text `k.as_ref()` (true for &str, String, SmallString, Cow<str>, Box<str>, ...).
#[verifier::external_body]
pub proof fn axiom_from_keeps_text<K: AsRef<str>>()
    where String: From<K>
    ensures
        <String as vstd::std_specs::convert::FromSpec<K>>::obeys_from_spec(),
        forall|k: K| (#[trigger] <String as vstd::std_specs::convert::FromSpec<K>>::from_spec(k))@ == k.text(),
{ }

pub assume_specification [std::cmp::Ordering::is_eq] (o: Ordering) -> (r: bool) ensures r == (o is Equal);

/// `a.chars().cmp(b.chars().flat_map(|c| c.to_lowercase()))`: Iterator::cmp is lexicographic by scalar value
#[verifier::external_body]
pub fn x_cmp_chars_lower(a: &str, b: &str) -> (r: Ordering)
    ensures r == lex_cmp(a@, lower_seq(b@))
{ a.chars().cmp(b.chars().flat_map(|c| c.to_lowercase())) }

pub open spec fn ord_rank(o: Ordering) -> int { match o { Ordering::Less => 0, Ordering::Equal => 1, Ordering::Greater => 2 } }

pub open spec fn key_cmp(kv: (QualifierKey, SmallString), t: Seq<char>) -> Ordering { lex_cmp(kv.0.0@, t) }

/// a strictly ascending key list is partitioned Less* Equal? Greater* by comparison with any target
pub proof fn lemma_sorted_partition(v: Seq<(QualifierKey, SmallString)>, t: Seq<char>)
    requires keys_sorted(v)
    ensures forall|i: int, j: int| 0 <= i < j < v.len() ==> ord_rank(key_cmp(#[trigger] v[i], t)) <= ord_rank(key_cmp(#[trigger] v[j], t))
{
    assert forall|i: int, j: int| 0 <= i < j < v.len() implies ord_rank(key_cmp(#[trigger] v[i], t)) <= ord_rank(key_cmp(#[trigger] v[j], t)) by {
        let a = v[i].0.0@;
        let b = v[j].0.0@;
        assert(str_lt(a, b));
        if lex_cmp(a, t) is Greater {
            lemma_lex_flip(a, t);
            lemma_lex_trans(t, a, b);
            lemma_lex_flip(t, b);
        } else if lex_cmp(a, t) is Equal {
            lemma_lex_eq(a, t);
            lemma_lex_flip(t, b);
        }
    }
}



/// documented panic: indexing a qualifier that is absent
#[verifier::external_body]
pub fn x_panic_absent() -> !
    requires false
{ panic!() }

impl<S: AsRef<str>> MixedQualifierKey<S> {
    pub open spec fn text(&self) -> Seq<char> {
        match self { MixedQualifierKey::Lower(s) => s.text(), MixedQualifierKey::Mixed(s) => s.text() }
    }
    /// valid key; the `Lower` tag promises there is nothing to lower-case
    pub open spec fn wf(&self) -> bool {
        valid_key(self.text()) && (self is Lower ==> all_ascii_lower(self.text()))
    }
    pub open spec fn canon(&self) -> Seq<char> { lower_ascii_seq(self.text()) }
}
pub proof fn lemma_canon_of_valid(s: Seq<char>)
    requires valid_key(s)
    ensures canon_key(lower_ascii_seq(s)), lower_seq(s) == lower_ascii_seq(s)
{
    let l = lower_ascii_seq(s);
    assert forall|i: int| 0 <= i < l.len() implies key_char(#[trigger] l[i]) && !ascii_upper_c(l[i]) by {
        assert(key_char(s[i]));
    }
    assert forall|i: int| 0 <= i < s.len() implies (u_to_lower(#[trigger] s[i]) != seq![s[i]] ==> is_ascii_c(s[i])) by {
        assert(key_char(s[i]));
    }
    lemma_lower_seq_ascii(s);
}

// ---- unit T.PackageType  <= purl/src/package_type.rs:143 ----
#[derive(Clone, Copy)]
pub enum PackageType {
    Cargo,
    Gem,
    Golang,
    Maven,
    Npm,
    NuGet,
    PyPI,
}
// ---- unit T.PackageError  <= purl/src/package_type.rs:212 ----
pub enum PackageError {
    MissingRequiredField(PurlField),
    Parse( ParseError),
    UnsupportedType,
}
// ---- unit theory.types  <= (contracts):0 ----
// ---- R9: stub of std::borrow::Cow for B = str (two variants, same names) ----
pub enum Cow<'a, B: ?Sized> { Borrowed(&'a B), Owned(String) }

impl<'a> View for Cow<'a, str> {
    type V = Seq<char>;
    open spec fn view(&self) -> Seq<char> {
        match self { Cow::Borrowed(b) => b@, Cow::Owned(o) => o@ }
    }
}

impl<'a> core::ops::Deref for Cow<'a, str> {
    type Target = str;
    fn deref(&self) -> (r: &str)
        ensures r@ == self@
    {
        match self { Cow::Borrowed(b) => b, Cow::Owned(o) => o.as_str() }
    }
}

// R9: `String: From<Cow<str>>` for the stub Cow (std: the owned text, or a copy of the borrowed text)
pub uninterp spec fn string_of_cow<'a>(c: Cow<'a, str>) -> String;
#[verifier::external_body]
pub broadcast proof fn axiom_string_of_cow<'a>(c: Cow<'a, str>)
    ensures (#[trigger] string_of_cow(c))@ == c@
{ }
impl<'a> vstd::std_specs::convert::FromSpecImpl<Cow<'a, str>> for String {
    open spec fn obeys_from_spec() -> bool { true }
    open spec fn from_spec(c: Cow<'a, str>) -> String { string_of_cow(c) }
}
impl<'a> From<Cow<'a, str>> for String {
    #[verifier::external_body]
    fn from(c: Cow<'a, str>) -> (r: String)
    { match c { Cow::Borrowed(b) => b.to_string(), Cow::Owned(o) => o } }
}

// ---- vocabulary for package types (written from C02/C04/C05: letters, digits, '.', '+', '-'; non-empty) ----
pub open spec fn type_char(c: char) -> bool { ascii_alnum_c(c) || c == '.' || c == '+' || c == '-' }
pub open spec fn valid_type(s: Seq<char>) -> bool { s.len() > 0 && forall|i: int| 0 <= i < s.len() ==> type_char(#[trigger] s[i]) }

/// What every built-in string-like shape must do in `finish` (C04, C13): validate, then ASCII-lower-case; parts untouched.
pub open spec fn shape_rel(t0: Seq<char>, p0: PurlParts, t1: Seq<char>, p1: PurlParts, r: Result<(), ParseError>) -> bool {
    p1 == p0
    && (valid_type(t0) ==> r is Ok && t1 == lower_ascii_seq(t0))
    && (!valid_type(t0) ==> r == Err::<(), ParseError>(ParseError::InvalidPackageType))
}


/// C10 / C13 (type string): validating and ASCII-lower-casing twice is doing it once
pub proof fn lemma_shape_idem(t0: Seq<char>, p0: PurlParts, t1: Seq<char>, p1: PurlParts, t2: Seq<char>, p2: PurlParts, r2: Result<(), ParseError>)
    requires shape_rel(t0, p0, t1, p1, Ok::<(), ParseError>(())), shape_rel(t1, p1, t2, p2, r2)
    ensures r2 is Ok, t2 == t1, p2 == p1
{
    assert(valid_type(t0));
    let l = lower_ascii_seq(t0);
    assert(t1 == l);
    assert forall|i: int| 0 <= i < l.len() implies type_char(#[trigger] l[i]) && !ascii_upper_c(l[i]) by { assert(type_char(t0[i])); }
    assert(valid_type(l));
    lemma_lower_ascii_fixed(l);
}

// ---- unit theory.pkgtype  <= (contracts):0 ----
// ---- vocabulary for the package-type rules, written from C08's wording ----
pub open spec fn dash(c: char) -> bool { c == '-' || c == '_' || c == '.' }

/// "lower-cased with every maximal run of '-', '_' and '.' replaced by a single '-'"
pub open spec fn pypi_norm(s: Seq<char>) -> Seq<char> decreases s.len() {
    if s.len() == 0 { seq![] }
    else if dash(s.last()) {
        if s.len() >= 2 && dash(s[s.len() - 2]) { pypi_norm(s.drop_last()) } else { pypi_norm(s.drop_last()).push('-') }
    } else { pypi_norm(s.drop_last()) + u_to_lower(s.last()) }
}

pub proof fn lemma_pypi_no_dash(s: Seq<char>)
    requires forall|i: int| 0 <= i < s.len() ==> !dash(#[trigger] s[i])
    ensures pypi_norm(s) == lower_seq(s)
    decreases s.len()
{
    if s.len() > 0 { lemma_pypi_no_dash(s.drop_last()); }
}

pub open spec fn type_name(t: PackageType) -> Seq<char> {
    match t {
        PackageType::Cargo => seq!['c', 'a', 'r', 'g', 'o'],
        PackageType::Gem => seq!['g', 'e', 'm'],
        PackageType::Golang => seq!['g', 'o', 'l', 'a', 'n', 'g'],
        PackageType::Maven => seq!['m', 'a', 'v', 'e', 'n'],
        PackageType::Npm => seq!['n', 'p', 'm'],
        PackageType::NuGet => seq!['n', 'u', 'g', 'e', 't'],
        PackageType::PyPI => seq!['p', 'y', 'p', 'i'],
    }
}

/// What PackageType::finish may do (C08): the per-type name rule, the maven namespace rule, nothing else touched.
pub open spec fn pkg_finish_rel(t0: PackageType, p0: PurlParts, t1: PackageType, p1: PurlParts, r: Result<(), PackageError>) -> bool {
    t1 == t0
    && p1.namespace == p0.namespace && p1.version == p0.version && p1.qualifiers == p0.qualifiers && p1.subpath == p0.subpath
    && match t0 {
        PackageType::Maven =>
            if all_char(p0.namespace@, '/') { r == Err::<(), PackageError>(PackageError::MissingRequiredField(PurlField::Namespace)) }
            else { r is Ok && p1.name == p0.name },
        PackageType::NuGet => r is Ok && p1.name@ == lower_seq(p0.name@),
        PackageType::PyPI => r is Ok && p1.name@ == pypi_norm(p0.name@),
        _ => r is Ok && p1.name == p0.name,
    }
}

/// `Cow::from(&'static str)` (std: `Cow::Borrowed(s)`), for the stub Cow
pub fn x_cow_from_str<'a>(s: &'a str) -> (r: Cow<'a, str>)
    ensures r@ == s@
{ Cow::Borrowed(s) }

// R9: what thiserror's `#[from]` on `PackageError::Parse` generates (derive semantics, assumed)
impl vstd::std_specs::convert::FromSpecImpl<ParseError> for PackageError {
    open spec fn obeys_from_spec() -> bool { true }
    open spec fn from_spec(e: ParseError) -> Self { PackageError::Parse(e) }
}
impl From<ParseError> for PackageError {
    fn from(e: ParseError) -> (r: Self)
    { PackageError::Parse(e) }
}

// ---- the static name table (C15) ----
/// a table entry: a key text mapped to a variant; the entries are exactly the (name, variant) pairs
pub open spec fn table_entry(k: Seq<char>, t: PackageType) -> bool { k == type_name(t) }
pub open spec fn table_has(t: PackageType) -> bool { table_entry(type_name(t), t) }

/// `PACKAGE_TYPES.get(&UniCase::new(s)).copied()`: ASSUMED contract of phf + unicase for a table whose keys are the variant
/// names (proved entry by entry in package_types_table): a hit means the probe equals that key ignoring ASCII case, and every
/// probe that equals a key ignoring ASCII case hits. (B: all 192 case variants, look-alikes and one-edit neighbours.)
#[verifier::external_body]
pub fn x_table_lookup(s: &str) -> (r: Option<PackageType>)
    ensures
        r is Some ==> lower_ascii_seq(s@) == type_name(r->Some_0),
        (exists|t: PackageType| lower_ascii_seq(s@) == type_name(t)) ==> r is Some,
{ unimplemented!() }

// ---- unit T.GenericPurlBuilder  <= purl/src/builder.rs:25 ----
pub struct GenericPurlBuilder<T> {
    pub package_type: T,
    pub parts: PurlParts,
}
// ---- unit T.GenericPurl  <= purl/src/lib.rs:251 ----
pub struct GenericPurl<T> {
    pub package_type: T,
    pub parts: PurlParts,
}
// ---- unit stub.builder  <= (contracts):0 ----

// R9: derive(Default) on PurlParts / Qualifiers (derive semantics, assumed): all fields empty
impl Default for PurlParts {
    fn default() -> (r: Self)
        ensures r.namespace@.len() == 0, r.name@.len() == 0, r.version@.len() == 0, r.subpath@.len() == 0, r.qualifiers.qualifiers@.len() == 0
    { PurlParts { namespace: String::new(), name: String::new(), version: String::new(),
                  qualifiers: Qualifiers { qualifiers: Vec::new() }, subpath: String::new() } }
}

// ---- unit alias  <= (contracts):0 ----
pub type Purl = GenericPurl<PackageType>;
pub type PurlBuilder = GenericPurlBuilder<PackageType>;
impl<T> GenericPurlBuilder<T> {
// ---- unit U-set.new  <= purl/src/builder.rs:34 ----
#[verifier::external_body]
pub fn new<S>(package_type: T, name: S) -> (r: Self)
where SmallString: From<S>,
        ensures r.package_type == package_type,
            r.parts.namespace@.len() == 0, r.parts.version@.len() == 0, r.parts.subpath@.len() == 0,
            r.parts.qualifiers.qualifiers@.len() == 0,
            <SmallString as vstd::std_specs::convert::FromSpec<S>>::obeys_from_spec() ==> r.parts.name == <SmallString as vstd::std_specs::convert::FromSpec<S>>::from_spec(name)
{ unimplemented!() }
// ---- unit U-set.with_namespace  <= purl/src/builder.rs:53 ----
#[verifier::external_body]
pub fn with_namespace<S>(self, new: S) -> (r: Self)
where SmallString: From<S>,
        ensures r.package_type == self.package_type, r.parts.name == self.parts.name, r.parts.version == self.parts.version, r.parts.qualifiers == self.parts.qualifiers, r.parts.subpath == self.parts.subpath,
            <SmallString as vstd::std_specs::convert::FromSpec<S>>::obeys_from_spec() ==> r.parts.namespace == <SmallString as vstd::std_specs::convert::FromSpec<S>>::from_spec(new)
{ unimplemented!() }
}
// ---- unit T.PurlShape  <= purl/src/lib.rs:111 ----
pub trait PurlShape: Sized {
    type Error: From<ParseError>;
    spec fn type_text(&self) -> Seq<char>;
    fn package_type(&self) -> (r: Cow<str>)
        ensures r@ == self.type_text();
    spec fn finish_rel(t0: Self, p0: PurlParts, t1: Self, p1: PurlParts, r: Result<(), Self::Error>) -> bool;
    fn finish(&mut self, parts: &mut PurlParts) -> (r: Result<(), Self::Error>)
        ensures Self::finish_rel(*old(self), *old(parts), *final(self), *final(parts), r),
            // the hook can only reach the qualifier list through its public API, every mutator of which is
            // proved to preserve the representation invariant (group `qual`); assumed for user-written hooks
            wf_seq(old(parts).qualifiers.qualifiers@) ==> wf_seq(final(parts).qualifiers.qualifiers@);
}
// ---- unit noop  <= (contracts):0 ----

impl<T> GenericPurl<T> {
// ---- unit U-acc.builder  <= purl/src/lib.rs:258 ----
pub fn builder<S>(package_type: T, name: S) -> (r: GenericPurlBuilder<T>)
where SmallString: From<S>, T: PurlShape,
        ensures r.package_type == package_type,
            r.parts.namespace@.len() == 0, r.parts.version@.len() == 0, r.parts.subpath@.len() == 0, r.parts.qualifiers.qualifiers@.len() == 0,
            <SmallString as vstd::std_specs::convert::FromSpec<S>>::obeys_from_spec() ==> r.parts.name == <SmallString as vstd::std_specs::convert::FromSpec<S>>::from_spec(name)
{
        GenericPurlBuilder::new(package_type, name)
    }
// ---- unit U-acc.package_type  <= purl/src/lib.rs:283 ----
pub fn package_type(&self) -> (r: &T)
        ensures *r == self.package_type
{
        &self.package_type
    }
// ---- unit U-acc.namespace  <= purl/src/lib.rs:289 ----
pub fn namespace(&self) -> (r: Option<&str>)
        ensures self.parts.namespace@.len() == 0 ==> r is None,
            self.parts.namespace@.len() > 0 ==> r is Some && r->Some_0@ == self.parts.namespace@
{
        x_some_nonempty(&*self.parts.namespace)
    }
// ---- unit U-acc.name  <= purl/src/lib.rs:295 ----
pub fn name(&self) -> (r: &str)
        ensures r@ == self.parts.name@
{
        &self.parts.name
    }
// ---- unit U-acc.version  <= purl/src/lib.rs:301 ----
pub fn version(&self) -> (r: Option<&str>)
        ensures self.parts.version@.len() == 0 ==> r is None,
            self.parts.version@.len() > 0 ==> r is Some && r->Some_0@ == self.parts.version@
{
        x_some_nonempty(&*self.parts.version)
    }
// ---- unit U-acc.qualifiers  <= purl/src/lib.rs:307 ----
pub fn qualifiers(&self) -> (r: &Qualifiers)
        ensures *r == self.parts.qualifiers
{
        &self.parts.qualifiers
    }
// ---- unit U-acc.subpath  <= purl/src/lib.rs:313 ----
pub fn subpath(&self) -> (r: Option<&str>)
        ensures self.parts.subpath@.len() == 0 ==> r is None,
            self.parts.subpath@.len() > 0 ==> r is Some && r->Some_0@ == self.parts.subpath@
{
        x_some_nonempty(&*self.parts.subpath)
    }
// ---- unit U-acc.into_builder  <= purl/src/lib.rs:318 ----
pub fn into_builder(self) -> (r: GenericPurlBuilder<T>)
        ensures r.package_type == self.package_type, r.parts == self.parts
{
        let GenericPurl { package_type, parts } = self;
        GenericPurlBuilder { package_type, parts }
    }
}
// ---- unit spec.comb  <= (contracts):0 ----

/// C18: where a combined name is split, per ecosystem
pub open spec fn comb_split(t: PackageType, s: Seq<char>) -> (Seq<char>, Seq<char>) {
    match t {
        PackageType::Golang | PackageType::Npm =>
            if last_index_of(s, '/') >= 0 { (s.subrange(0, last_index_of(s, '/')), s.subrange(last_index_of(s, '/') + 1, s.len() as int)) }
            else { (Seq::<char>::empty(), s) },
        PackageType::Maven =>
            if first_index_of(s, ':') >= 0 { (s.subrange(0, first_index_of(s, ':')), s.subrange(first_index_of(s, ':') + 1, s.len() as int)) }
            else { (Seq::<char>::empty(), s) },
        _ => (Seq::<char>::empty(), s),
    }
}
pub open spec fn comb_join(t: PackageType, ns: Seq<char>, name: Seq<char>) -> Seq<char> {
    match t {
        PackageType::Golang | PackageType::Npm => if ns.len() > 0 { ns + seq!['/'] + name } else { name },
        PackageType::Maven => if ns.len() > 0 { ns + seq![':'] + name } else { name },
        _ => name,
    }
}
/// C18 round trip: under the stated side condition splitting the joined name gives namespace and name back
pub proof fn lemma_c18_roundtrip(t: PackageType, ns: Seq<char>, name: Seq<char>)
    requires match t {
        PackageType::Golang | PackageType::Npm => !has_char(name, '/'),
        // a maven PURL always has a namespace (C08: maven is refused unless a namespace is present)
        PackageType::Maven => !has_char(ns, ':') && ns.len() > 0,
        _ => ns.len() == 0,
    }
    ensures comb_split(t, comb_join(t, ns, name)) == (ns, name)
{
    let s = comb_join(t, ns, name);
    match t {
        PackageType::Golang | PackageType::Npm => {
            if ns.len() > 0 {
                lemma_rsplit_join(ns, name, '/');
                assert(s.subrange(0, ns.len() as int) =~= ns);
                assert(s.subrange(ns.len() as int + 1, s.len() as int) =~= name);
            } else { lemma_last_index(name, '/'); }
        },
        PackageType::Maven => {
            lemma_split_join(ns, name, ':');
            assert(s.subrange(0, ns.len() as int) =~= ns);
            assert(s.subrange(ns.len() as int + 1, s.len() as int) =~= name);
        },
        _ => { assert(ns =~= Seq::<char>::empty()); },
    }
}

impl GenericPurl<PackageType> {
// ---- unit U-comb.builder_with_combined_name  <= purl/src/lib.rs:327 ----
pub fn builder_with_combined_name<S>( package_type: PackageType, namespaced_name: S, ) -> (r: PurlBuilder)
where S: AsRef<str>,
        ensures r.package_type == package_type,
            r.parts.namespace@ == comb_split(package_type, namespaced_name.text()).0,
            r.parts.name@ == comb_split(package_type, namespaced_name.text()).1,
            r.parts.version@.len() == 0, r.parts.subpath@.len() == 0, r.parts.qualifiers.qualifiers@.len() == 0
{
        proof { axiom_string_from(); } broadcast use axiom_view_of_str;

        let namespaced_name = namespaced_name.as_ref();
        let (namespace, name) = match package_type {
            PackageType::Cargo | PackageType::Gem | PackageType::NuGet | PackageType::PyPI => {
                (None, namespaced_name)
            },
            PackageType::Golang | PackageType::Npm => match x_rsplit_once(namespaced_name, '/') {
                Some((namespace, name)) => (Some(namespace), name),
                None => (None, namespaced_name),
            },
            PackageType::Maven => match x_split_once(namespaced_name, ':') {
                Some((namespace, name)) => (Some(namespace), name),
                None => (None, namespaced_name),
            },
        };
        let mut builder = GenericPurlBuilder::new(package_type, name);
        if let Some(namespace) = namespace {
            builder = builder.with_namespace(namespace);
        }
        builder
    }
// ---- unit U-comb.combined_name  <= purl/src/lib.rs:360 ----
pub fn combined_name(&self) -> (r: Cow<'_, str>)
        ensures r@ == comb_join(self.package_type, self.parts.namespace@, self.parts.name@)
{
        match self.package_type {
            PackageType::Cargo | PackageType::Gem | PackageType::NuGet | PackageType::PyPI => {
                x_cow_from_str(self.name())
            },
            PackageType::Golang | PackageType::Npm => match self.namespace() {
                Some(namespace) => Cow::Owned(x_concat3(namespace, '/', self.name())),
                None => x_cow_from_str(self.name()),
            },
            PackageType::Maven => match self.namespace() {
                Some(namespace) => Cow::Owned(x_concat3(namespace, ':', self.name())),
                None => x_cow_from_str(self.name()),
            },
        }
    }
}

// ---- consistency canary: must be REJECTED; if it verifies the assumptions are contradictory ----
pub proof fn verif_canary_must_fail()
{
    axiom_string_from(); broadcast use axiom_ascii_to_lower; broadcast use axiom_view_of_str;
    assert(false);
}
} // verus!
fn main() {}
