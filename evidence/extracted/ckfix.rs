// GENERATED on every run by vlib/extract.py from /repo -- do not edit
#![allow(unused_imports, unused_variables, unused_mut, dead_code, unused_parens, unused_braces, non_snake_case)]
#![feature(allocator_api)]
use vstd::prelude::*;
use core::cmp::Ordering;
verus! {

// ---- theory: base.rs ----
// Shared vocabulary. Strings are Seq<char>. Everything marked `uninterp` or `external_body` below is an
// ASSUMPTION about std / Unicode; each is listed in the trusted base and replayed against the real std by
// the A step (exhaustively per char, bounded per string).

pub type SmallString = String;   // R0: purl's own `#[cfg(not(feature = "smartstring"))] type SmallString = String;`

// ---- Unicode tables (uninterpreted) ----
pub uninterp spec fn u_to_lower(c: char) -> Seq<char>;      // char::to_lowercase, as a sequence

pub open spec fn is_ascii_c(c: char) -> bool { (c as u32) < 128 }
pub open spec fn ascii_upper_c(c: char) -> bool { 'A' <= c && c <= 'Z' }
pub open spec fn ascii_lower_c(c: char) -> bool { 'a' <= c && c <= 'z' }
pub open spec fn ascii_digit_c(c: char) -> bool { '0' <= c && c <= '9' }
pub open spec fn ascii_alnum_c(c: char) -> bool { ascii_upper_c(c) || ascii_lower_c(c) || ascii_digit_c(c) }
pub open spec fn ascii_hex_c(c: char) -> bool { ascii_digit_c(c) || ('a' <= c && c <= 'f') || ('A' <= c && c <= 'F') }
pub open spec fn ascii_lower(c: char) -> char { if ascii_upper_c(c) { ((c as u32 + 32) as char) } else { c } }

/// Unicode lower-casing of a string: each character replaced by its lower-case mapping (C08 wording).
pub open spec fn lower_seq(s: Seq<char>) -> Seq<char> decreases s.len()
{ if s.len() == 0 { seq![] } else { lower_seq(s.drop_last()) + u_to_lower(s.last()) } }

/// ASCII lower-casing (what make_ascii_lowercase / to_ascii_lowercase do).
pub open spec fn lower_ascii_seq(s: Seq<char>) -> Seq<char> { s.map_values(|c: char| ascii_lower(c)) }

pub open spec fn all_ascii_lower(s: Seq<char>) -> bool { forall|i: int| 0 <= i < s.len() ==> ascii_lower_c(#[trigger] s[i]) }

pub open spec fn has_char(s: Seq<char>, c: char) -> bool { exists|i: int| 0 <= i < s.len() && s[i] == c }

// A-validated fact (exhaustive over all 128 ASCII chars): on ASCII, Unicode lower-casing is ASCII lower-casing.
#[verifier::external_body]
pub broadcast proof fn axiom_ascii_to_lower(c: char)
    requires is_ascii_c(c)
    ensures #[trigger] u_to_lower(c) == seq![ascii_lower(c)]
{ }

// ---- char methods (assumed = their documented ASCII definitions; A: exhaustive over all scalar values) ----
pub assume_specification [char::is_ascii] (c: &char) -> (r: bool) ensures r == is_ascii_c(*c);
pub assume_specification [char::is_ascii_alphanumeric] (c: &char) -> (r: bool) ensures r == ascii_alnum_c(*c);
pub assume_specification [char::is_ascii_lowercase] (c: &char) -> (r: bool) ensures r == ascii_lower_c(*c);
pub assume_specification [char::is_ascii_hexdigit] (c: &char) -> (r: bool) ensures r == ascii_hex_c(*c);
pub assume_specification [char::is_ascii_uppercase] (c: &char) -> (r: bool) ensures r == ascii_upper_c(*c);
pub assume_specification [char::is_ascii_digit] (c: &char) -> (r: bool) ensures r == ascii_digit_c(*c);
pub assume_specification [char::is_ascii_alphabetic] (c: &char) -> (r: bool) ensures r == (ascii_upper_c(*c) || ascii_lower_c(*c));
pub assume_specification [char::to_ascii_lowercase] (c: &char) -> (r: char) ensures r == ascii_lower(*c);

/// byte length of the UTF-8 encoding (uninterpreted; only that it is a function of the text is used)
pub uninterp spec fn utf8_len(s: Seq<char>) -> nat;
pub assume_specification [String::len] (s: &String) -> (r: usize) ensures r == utf8_len(s@);

pub assume_specification [std::string::String::with_capacity] (n: usize) -> (r: String) ensures r@ == Seq::<char>::empty();

// ---- string wrappers (R3): body IS the original call; only the contract is assumed ----
#[verifier::external_body]
pub fn x_make_ascii_lowercase(s: &mut str)
    ensures final(s)@ == lower_ascii_seq(old(s)@)
{ s.make_ascii_lowercase() }

// `&mut String -> &mut str` deref coercion: same text, writes go through.
pub assume_specification [ <String as core::ops::DerefMut>::deref_mut ] (s: &mut String) -> (r: &mut str)
    ensures r@ == old(s)@, final(r)@ == final(s)@;

/// `<[char]>::contains`
#[verifier::external_body]
pub fn x_slice_contains(s: &[char], c: &char) -> (r: bool)
    ensures r == s@.contains(*c)
{ s.contains(c) }

#[verifier::external_body]
pub fn x_to_ascii_lowercase(s: &str) -> (r: String)
    ensures r@ == lower_ascii_seq(s@)
{ s.to_ascii_lowercase() }

/// `s.chars().flat_map(|c| c.to_lowercase()).collect()`
#[verifier::external_body]
pub fn x_lower_collect(s: &str) -> (r: String)
    ensures r@ == lower_seq(s@)
{ s.chars().flat_map(|c| c.to_lowercase()).collect() }

/// `c.to_lowercase().ne([c])`
#[verifier::external_body]
pub fn x_lower_changes(c: char) -> (r: bool)
    ensures r == (u_to_lower(c) != seq![c])
{ c.to_lowercase().ne([c]) }

/// `result.extend(c.to_lowercase())`
#[verifier::external_body]
pub fn x_extend_lower(s: &mut String, c: char)
    ensures final(s)@ == old(s)@ + u_to_lower(c)
{ s.extend(c.to_lowercase()) }

// String::from(&str) / String::from(String) / .into(): vstd ties From::from to FromSpec; the two instances used by
// purl (with SmallString = String) are assumed to copy / move the text.
#[verifier::external_body]
pub proof fn axiom_string_from()
    ensures
        <String as vstd::std_specs::convert::FromSpec<&str>>::obeys_from_spec(),
        forall|s: &str| (#[trigger] <String as vstd::std_specs::convert::FromSpec<&str>>::from_spec(s))@ == s@,
        <String as vstd::std_specs::convert::FromSpec<String>>::obeys_from_spec(),
        forall|s: String| (#[trigger] <String as vstd::std_specs::convert::FromSpec<String>>::from_spec(s)) == s,
{ }

// ---- lemmas over the vocabulary (proved) ----
pub proof fn lemma_lower_seq_identity(s: Seq<char>)
    requires forall|i: int| 0 <= i < s.len() ==> u_to_lower(#[trigger] s[i]) == seq![s[i]]
    ensures lower_seq(s) == s
    decreases s.len()
{
    if s.len() > 0 {
        lemma_lower_seq_identity(s.drop_last());
        assert(s.drop_last().push(s.last()) == s);
        assert(lower_seq(s) =~= s);
    }
}

pub proof fn lemma_lower_seq_ascii(s: Seq<char>)
    requires forall|i: int| 0 <= i < s.len() ==> (u_to_lower(#[trigger] s[i]) != seq![s[i]] ==> is_ascii_c(s[i]))
    ensures lower_seq(s) == lower_ascii_seq(s)
    decreases s.len()
{
    broadcast use axiom_ascii_to_lower;
    if s.len() > 0 {
        lemma_lower_seq_ascii(s.drop_last());
        let c = s.last();
        if is_ascii_c(c) {
            assert(u_to_lower(c) == seq![ascii_lower(c)]);
        } else {
            assert(u_to_lower(c) == seq![c]);
            assert(ascii_lower(c) == c);
        }
        assert(lower_ascii_seq(s.drop_last()) =~= lower_ascii_seq(s).drop_last());
        assert(lower_seq(s) =~= lower_ascii_seq(s));
    } else {
        assert(lower_seq(s) =~= lower_ascii_seq(s));
    }
}

pub proof fn lemma_lower_seq_push(s: Seq<char>, c: char)
    ensures lower_seq(s.push(c)) == lower_seq(s) + u_to_lower(c)
{
    assert(s.push(c).drop_last() == s);
}

pub proof fn lemma_lower_seq_take(s: Seq<char>, k: int)
    requires 0 <= k < s.len()
    ensures lower_seq(s.take(k + 1)) == lower_seq(s.take(k)) + u_to_lower(s[k])
{
    assert(s.take(k + 1).drop_last() == s.take(k));
}

// ---- trimming / splitting vocabulary (defined, so lemmas about it are proved) ----
pub open spec fn trim_start_spec(s: Seq<char>, c: char) -> Seq<char> decreases s.len()
{ if s.len() > 0 && s[0] == c { trim_start_spec(s.subrange(1, s.len() as int), c) } else { s } }
pub open spec fn trim_end_spec(s: Seq<char>, c: char) -> Seq<char> decreases s.len()
{ if s.len() > 0 && s.last() == c { trim_end_spec(s.drop_last(), c) } else { s } }
pub open spec fn trim_spec(s: Seq<char>, c: char) -> Seq<char> { trim_end_spec(trim_start_spec(s, c), c) }
pub open spec fn all_char(s: Seq<char>, c: char) -> bool { forall|i: int| 0 <= i < s.len() ==> #[trigger] s[i] == c }

/// `s.trim_matches(c)` for a char pattern
#[verifier::external_body]
pub fn x_trim_matches<'a>(s: &'a str, c: char) -> (r: &'a str)
    ensures r@ == trim_spec(s@, c)
{ s.trim_matches(c) }

/// `s.trim_start_matches(c)` for a char pattern
#[verifier::external_body]
pub fn x_trim_start_matches<'a>(s: &'a str, c: char) -> (r: &'a str)
    ensures r@ == trim_start_spec(s@, c)
{ s.trim_start_matches(c) }

/// `s.contains(set)` for a `&[char]` pattern
#[verifier::external_body]
pub fn x_str_contains_any(s: &str, set: &[char]) -> (r: bool)
    ensures r == exists|i: int| 0 <= i < s@.len() && set@.contains(#[trigger] s@[i])
{ s.contains(set) }

/// `s.contains(c)` for a char pattern
#[verifier::external_body]
pub fn x_str_contains_char(s: &str, c: char) -> (r: bool)
    ensures r == has_char(s@, c)
{ s.contains(c) }

pub proof fn lemma_trim_start_all(s: Seq<char>, c: char)
    ensures
        all_char(s, c) ==> trim_start_spec(s, c).len() == 0,
        !all_char(s, c) ==> trim_start_spec(s, c).len() > 0 && trim_start_spec(s, c)[0] != c && !all_char(trim_start_spec(s, c), c),
    decreases s.len()
{
    if s.len() > 0 && s[0] == c {
        let t = s.subrange(1, s.len() as int);
        lemma_trim_start_all(t, c);
        if all_char(s, c) {
            assert forall|i: int| 0 <= i < t.len() implies #[trigger] t[i] == c by { assert(t[i] == s[i + 1]); }
        } else {
            let j = choose|j: int| 0 <= j < s.len() && s[j] != c;
            assert(t[j - 1] == s[j]);
        }
    } else if s.len() > 0 {
        assert(s[0] != c);
    }
}

pub proof fn lemma_trim_end_all(s: Seq<char>, c: char)
    ensures
        all_char(s, c) ==> trim_end_spec(s, c).len() == 0,
        !all_char(s, c) ==> trim_end_spec(s, c).len() > 0,
    decreases s.len()
{
    if s.len() > 0 && s.last() == c {
        let t = s.drop_last();
        lemma_trim_end_all(t, c);
        if !all_char(s, c) {
            let j = choose|j: int| 0 <= j < s.len() && s[j] != c;
            assert(t[j] == s[j]);
        }
    } else if s.len() > 0 {
        assert(s[s.len() - 1] != c);
    }
}

/// trimming leaves nothing exactly when the string consists of the trimmed character only
pub proof fn lemma_trim_empty_iff_all(s: Seq<char>, c: char)
    ensures (trim_spec(s, c).len() == 0) == all_char(s, c)
{
    lemma_trim_start_all(s, c);
    lemma_trim_end_all(trim_start_spec(s, c), c);
}

pub proof fn lemma_lower_ascii_fixed(s: Seq<char>)
    requires forall|i: int| 0 <= i < s.len() ==> !ascii_upper_c(#[trigger] s[i])
    ensures lower_ascii_seq(s) == s
{
    assert(lower_ascii_seq(s) =~= s);
}

// ---- idempotence of lower-casing (C10, C12) ----
/// A-validated (exhaustive over all scalar values): lower-casing the lower-case mapping of a char changes nothing
#[verifier::external_body]
pub proof fn axiom_lower_idem_char(c: char)
    ensures lower_seq(u_to_lower(c)) == u_to_lower(c)
{ }

pub proof fn lemma_lower_seq_concat(a: Seq<char>, b: Seq<char>)
    ensures lower_seq(a + b) == lower_seq(a) + lower_seq(b)
    decreases b.len()
{
    if b.len() == 0 {
        assert(a + b =~= a);
        assert(lower_seq(a) + lower_seq(b) =~= lower_seq(a));
    } else {
        assert((a + b).drop_last() =~= a + b.drop_last());
        assert((a + b).last() == b.last());
        lemma_lower_seq_concat(a, b.drop_last());
        assert(lower_seq(a + b) =~= lower_seq(a) + lower_seq(b));
    }
}

/// lower-casing is a projection: applying it twice is applying it once
pub proof fn lemma_lower_seq_idem(s: Seq<char>)
    ensures lower_seq(lower_seq(s)) == lower_seq(s)
    decreases s.len()
{
    if s.len() > 0 {
        lemma_lower_seq_idem(s.drop_last());
        axiom_lower_idem_char(s.last());
        lemma_lower_seq_concat(lower_seq(s.drop_last()), u_to_lower(s.last()));
    }
}

// A-validated per char (exhaustive over all scalar values): lower-casing never yields the empty string
#[verifier::external_body]
pub proof fn axiom_lower_nonempty(c: char)
    ensures u_to_lower(c).len() > 0
{ }

// ---- theory: split.rs ----
// ---- splitting vocabulary (defined recursively, so the lemmas below are proved, not assumed) ----
pub open spec fn last_index_of(s: Seq<char>, c: char) -> int decreases s.len()
{ if s.len() == 0 { -1 } else if s.last() == c { s.len() - 1 } else { last_index_of(s.drop_last(), c) } }

pub open spec fn first_index_of(s: Seq<char>, c: char) -> int decreases s.len()
{ if s.len() == 0 { -1 } else if s[0] == c { 0 } else { let r = first_index_of(s.subrange(1, s.len() as int), c); if r < 0 { -1 } else { r + 1 } } }

pub proof fn lemma_last_index(s: Seq<char>, c: char)
    ensures
        has_char(s, c) <==> last_index_of(s, c) >= 0,
        last_index_of(s, c) >= 0 ==> last_index_of(s, c) < s.len() && s[last_index_of(s, c)] == c
            && forall|j: int| last_index_of(s, c) < j < s.len() ==> s[j] != c,
        last_index_of(s, c) >= -1,
    decreases s.len()
{
    if s.len() > 0 {
        let t = s.drop_last();
        lemma_last_index(t, c);
        if s.last() == c { assert(s[s.len() - 1] == c); }
        else {
            if has_char(s, c) { let i = choose|i: int| 0 <= i < s.len() && s[i] == c; assert(t[i] == c); }
            if has_char(t, c) { let i = choose|i: int| 0 <= i < t.len() && t[i] == c; assert(s[i] == c); }
            assert forall|j: int| last_index_of(s, c) < j < s.len() && last_index_of(s, c) >= 0 implies s[j] != c by {
                if j < t.len() { assert(t[j] == s[j]); }
            }
        }
    }
}

pub proof fn lemma_first_index(s: Seq<char>, c: char)
    ensures
        has_char(s, c) <==> first_index_of(s, c) >= 0,
        first_index_of(s, c) >= 0 ==> first_index_of(s, c) < s.len() && s[first_index_of(s, c)] == c
            && forall|j: int| 0 <= j < first_index_of(s, c) ==> s[j] != c,
        first_index_of(s, c) >= -1,
    decreases s.len()
{
    if s.len() > 0 {
        let t = s.subrange(1, s.len() as int);
        lemma_first_index(t, c);
        if s[0] == c { }
        else {
            if has_char(s, c) { let i = choose|i: int| 0 <= i < s.len() && s[i] == c; assert(t[i - 1] == c); }
            if has_char(t, c) { let i = choose|i: int| 0 <= i < t.len() && t[i] == c; assert(s[i + 1] == c); }
            if first_index_of(s, c) >= 0 {
                assert(s[first_index_of(t, c) + 1] == t[first_index_of(t, c)]);
                assert forall|j: int| 0 <= j < first_index_of(s, c) implies s[j] != c by {
                    if j > 0 { assert(t[j - 1] == s[j]); }
                }
            }
        }
    }
}

/// joining `ns`, separator, `name` and splitting at the LAST separator gives the pieces back when `name` has none
pub proof fn lemma_rsplit_join(ns: Seq<char>, name: Seq<char>, c: char)
    requires !has_char(name, c)
    ensures last_index_of(ns + seq![c] + name, c) == ns.len()
    decreases name.len()
{
    let s = ns + seq![c] + name;
    if name.len() == 0 {
        assert(s.last() == c);
    } else {
        assert(s.last() == name.last());
        assert(name[name.len() - 1] != c);
        assert(s.drop_last() =~= ns + seq![c] + name.drop_last());
        assert forall|i: int| 0 <= i < name.drop_last().len() implies name.drop_last()[i] != c by { assert(name[i] != c); }
        lemma_rsplit_join(ns, name.drop_last(), c);
    }
}

/// ... and at the FIRST separator when `ns` has none
pub proof fn lemma_split_join(ns: Seq<char>, name: Seq<char>, c: char)
    requires !has_char(ns, c)
    ensures first_index_of(ns + seq![c] + name, c) == ns.len()
    decreases ns.len()
{
    let s = ns + seq![c] + name;
    if ns.len() == 0 {
        assert(s[0] == c);
    } else {
        assert(s[0] == ns[0]);
        assert(ns[0] != c);
        let ns1 = ns.subrange(1, ns.len() as int);
        assert(s.subrange(1, s.len() as int) =~= ns1 + seq![c] + name);
        assert forall|i: int| 0 <= i < ns1.len() implies ns1[i] != c by { assert(ns[i + 1] != c); }
        lemma_split_join(ns1, name, c);
    }
}

/// `s.rsplit_once(c)` for a char pattern
#[verifier::external_body]
pub fn x_rsplit_once<'a>(s: &'a str, c: char) -> (r: Option<(&'a str, &'a str)>)
    ensures match r {
        None => last_index_of(s@, c) < 0,
        Some((a, b)) => last_index_of(s@, c) >= 0 && a@ == s@.subrange(0, last_index_of(s@, c))
            && b@ == s@.subrange(last_index_of(s@, c) + 1, s@.len() as int),
    }
{ s.rsplit_once(c) }

/// `s.split_once(c)` for a char pattern
#[verifier::external_body]
pub fn x_split_once<'a>(s: &'a str, c: char) -> (r: Option<(&'a str, &'a str)>)
    ensures match r {
        None => first_index_of(s@, c) < 0,
        Some((a, b)) => first_index_of(s@, c) >= 0 && a@ == s@.subrange(0, first_index_of(s@, c))
            && b@ == s@.subrange(first_index_of(s@, c) + 1, s@.len() as int),
    }
{ s.split_once(c) }

/// `Some(s).filter(|v| !v.is_empty())`
#[verifier::external_body]
pub fn x_some_nonempty<'a>(s: &'a str) -> (r: Option<&'a str>)
    ensures s@.len() == 0 ==> r is None, s@.len() > 0 ==> r is Some && r->Some_0@ == s@
{ Some(s).filter(|v| !v.is_empty()) }

/// `format!("{}<sep>{}", a, b)` for a one-character literal separator
#[verifier::external_body]
pub fn x_concat3(a: &str, sep: char, b: &str) -> (r: String)
    ensures r@ == a@ + seq![sep] + b@
{ let mut r = String::from(a); r.push(sep); r.push_str(b); r }

/// pieces between raw occurrences of `c`
pub open spec fn split_spec(s: Seq<char>, c: char) -> Seq<Seq<char>> decreases s.len()
{
    if first_index_of(s, c) < 0 || first_index_of(s, c) >= s.len() { seq![s] }
    else { seq![s.subrange(0, first_index_of(s, c))] + split_spec(s.subrange(first_index_of(s, c) + 1, s.len() as int), c) }
}


/// `s.split(c)` for a char pattern, collected (the loop below iterates over the collected pieces)
#[verifier::external_body]
pub fn x_split<'a>(s: &'a str, c: char) -> (r: Vec<&'a str>)
    ensures r@.len() == split_spec(s@, c).len(), forall|i: int| 0 <= i < r@.len() ==> (#[trigger] r@[i])@ == split_spec(s@, c)[i]
{ s.split(c).collect() }


// ---- generic facts about has_char (used by the inverse and checksum theories) ----
pub proof fn lemma_has_char_concat(a: Seq<char>, b: Seq<char>, c: char)
    ensures has_char(a + b, c) == (has_char(a, c) || has_char(b, c))
{
    if has_char(a, c) { let i = choose|i: int| 0 <= i < a.len() && a[i] == c; assert((a + b)[i] == c); }
    if has_char(b, c) { let i = choose|i: int| 0 <= i < b.len() && b[i] == c; assert((a + b)[a.len() + i] == c); }
    if has_char(a + b, c) {
        let i = choose|i: int| 0 <= i < (a + b).len() && (a + b)[i] == c;
        if i < a.len() { assert(a[i] == c); } else { assert(b[i - a.len()] == c); }
    }
}


pub proof fn lemma_single_excludes(c: char, x: char)
    requires c != x
    ensures !has_char(seq![c], x)
{
    if has_char(seq![c], x) { let i = choose|i: int| 0 <= i < seq![c].len() && seq![c][i] == x; }
}


pub proof fn lemma_split_pieces_no_sep(s: Seq<char>, c: char)
    ensures forall|i: int| 0 <= i < split_spec(s, c).len() ==> !has_char(#[trigger] split_spec(s, c)[i], c)
    decreases s.len()
{
    lemma_first_index(s, c);
    let f = first_index_of(s, c);
    if f < 0 || f >= s.len() {
        assert(split_spec(s, c) =~= seq![s]);
    } else {
        let head = s.subrange(0, f);
        let tail = s.subrange(f + 1, s.len() as int);
        lemma_split_pieces_no_sep(tail, c);
        if has_char(head, c) { let i = choose|i: int| 0 <= i < head.len() && head[i] == c; assert(s[i] == c); }
        let ps = split_spec(s, c);
        assert(ps =~= seq![head] + split_spec(tail, c));
        assert forall|i: int| 0 <= i < ps.len() implies !has_char(#[trigger] ps[i], c) by {
            if i == 0 { assert(ps[0] == head); } else { assert(ps[i] == split_spec(tail, c)[i - 1]); }
        }
    }
}


// ---- unit T.PurlField  <= purl/src/parse.rs:112 ----
#[derive(Debug, Clone, Copy)]
pub enum PurlField {
    PackageType,
    Namespace,
    Name,
    Version,
    Subpath,
}
// ---- unit T.ParseError  <= purl/src/parse.rs:17 ----
#[derive(Debug)]
pub enum ParseError {
    UnsupportedUrlScheme,
    MissingRequiredField(PurlField),
    InvalidPackageType,
    InvalidQualifier,
    InvalidEscape,
}
// ---- unit T.QualifierKey  <= purl/src/qualifiers.rs:319 ----
pub struct QualifierKey(pub SmallString);
// ---- unit theory.qualkeys  <= (contracts):0 ----
// ---- qualifier keys (C04, C05, C11: ASCII letters, digits, '.', '-', '_'; non-empty) ----
pub open spec fn key_char(c: char) -> bool { ascii_alnum_c(c) || c == '.' || c == '-' || c == '_' }
pub open spec fn valid_key(s: Seq<char>) -> bool { s.len() > 0 && forall|i: int| 0 <= i < s.len() ==> key_char(#[trigger] s[i]) }
/// canonical stored form: valid and free of ASCII upper-case
pub open spec fn canon_key(s: Seq<char>) -> bool { valid_key(s) && forall|i: int| 0 <= i < s.len() ==> !ascii_upper_c(#[trigger] s[i]) }

// ---- lexicographic order on Seq<char> by scalar value (= byte-wise order of the UTF-8 text, = str::cmp) ----
pub open spec fn lex_cmp(a: Seq<char>, b: Seq<char>) -> Ordering decreases a.len()
{
    if a.len() == 0 { if b.len() == 0 { Ordering::Equal } else { Ordering::Less } }
    else if b.len() == 0 { Ordering::Greater }
    else if (a[0] as u32) < (b[0] as u32) { Ordering::Less }
    else if (a[0] as u32) > (b[0] as u32) { Ordering::Greater }
    else { lex_cmp(a.subrange(1, a.len() as int), b.subrange(1, b.len() as int)) }
}
pub open spec fn str_lt(a: Seq<char>, b: Seq<char>) -> bool { lex_cmp(a, b) is Less }

pub proof fn lemma_lex_eq(a: Seq<char>, b: Seq<char>)
    ensures (lex_cmp(a, b) is Equal) == (a == b)
    decreases a.len()
{
    if a.len() > 0 && b.len() > 0 {
        if a[0] == b[0] {
            lemma_lex_eq(a.subrange(1, a.len() as int), b.subrange(1, b.len() as int));
            if a.subrange(1, a.len() as int) == b.subrange(1, b.len() as int) {
                assert(a =~= seq![a[0]] + a.subrange(1, a.len() as int));
                assert(b =~= seq![b[0]] + b.subrange(1, b.len() as int));
            }
        } else {
            assert((a[0] as u32) != (b[0] as u32));
        }
    } else {
        assert((a == b) == (a.len() == 0 && b.len() == 0)) by { if a.len() == 0 && b.len() == 0 { assert(a =~= b); } }
    }
}

pub proof fn lemma_lex_flip(a: Seq<char>, b: Seq<char>)
    ensures
        (lex_cmp(a, b) is Less) == (lex_cmp(b, a) is Greater),
        (lex_cmp(a, b) is Greater) == (lex_cmp(b, a) is Less),
    decreases a.len()
{
    if a.len() > 0 && b.len() > 0 && a[0] == b[0] {
        lemma_lex_flip(a.subrange(1, a.len() as int), b.subrange(1, b.len() as int));
    }
}

pub proof fn lemma_lex_trans(a: Seq<char>, b: Seq<char>, c: Seq<char>)
    requires str_lt(a, b), str_lt(b, c)
    ensures str_lt(a, c)
    decreases a.len()
{
    if a.len() > 0 && b.len() > 0 && c.len() > 0 && a[0] == b[0] && b[0] == c[0] {
        lemma_lex_trans(a.subrange(1, a.len() as int), b.subrange(1, b.len() as int), c.subrange(1, c.len() as int));
    }
}

pub proof fn lemma_lt_irrefl(a: Seq<char>)
    ensures !str_lt(a, a)
{
    lemma_lex_eq(a, a);
}

// ---- the representation invariant of Qualifiers (C04, C11): keys canonical, strictly ascending ----
pub open spec fn keys_sorted(v: Seq<(QualifierKey, SmallString)>) -> bool {
    forall|i: int, j: int| 0 <= i < j < v.len() ==> str_lt(#[trigger] v[i].0.0@, #[trigger] v[j].0.0@)
}
pub open spec fn keys_canon(v: Seq<(QualifierKey, SmallString)>) -> bool {
    forall|i: int| 0 <= i < v.len() ==> canon_key(#[trigger] v[i].0.0@)
}
pub open spec fn wf_seq(v: Seq<(QualifierKey, SmallString)>) -> bool { keys_sorted(v) && keys_canon(v) }

/// abstract content: key text -> value text (a function of the sequence; unique positions because keys are strictly ascending)
pub open spec fn has_key(v: Seq<(QualifierKey, SmallString)>, k: Seq<char>) -> bool {
    exists|i: int| 0 <= i < v.len() && #[trigger] v[i].0.0@ == k
}
pub open spec fn has_pair(v: Seq<(QualifierKey, SmallString)>, k: Seq<char>, val: Seq<char>) -> bool {
    exists|i: int| 0 <= i < v.len() && #[trigger] v[i].0.0@ == k && v[i].1@ == val
}

pub proof fn lemma_sorted_unique(v: Seq<(QualifierKey, SmallString)>, i: int, j: int)
    requires keys_sorted(v), 0 <= i < v.len(), 0 <= j < v.len(), v[i].0.0@ == v[j].0.0@
    ensures i == j
{
    lemma_lt_irrefl(v[i].0.0@);
    if i < j { assert(str_lt(v[i].0.0@, v[j].0.0@)); }
    if j < i { assert(str_lt(v[j].0.0@, v[i].0.0@)); }
}

/// the position of key `k` in a strictly ascending list = number of keys smaller than `k` (names the witness, so
/// whole-content postconditions need no existential)
pub open spec fn pos_of(v: Seq<(QualifierKey, SmallString)>, k: Seq<char>) -> int decreases v.len()
{
    if v.len() == 0 { 0 } else { pos_of(v.drop_last(), k) + if str_lt(v.last().0.0@, k) { 1int } else { 0int } }
}

pub proof fn lemma_pos_of(v: Seq<(QualifierKey, SmallString)>, k: Seq<char>, i: int)
    requires 0 <= i <= v.len(),
        forall|j: int| 0 <= j < i ==> str_lt(#[trigger] v[j].0.0@, k),
        forall|j: int| i <= j < v.len() ==> !str_lt(#[trigger] v[j].0.0@, k),
    ensures pos_of(v, k) == i
    decreases v.len()
{
    if v.len() > 0 {
        let w = v.drop_last();
        if i == v.len() {
            assert forall|j: int| 0 <= j < i - 1 implies str_lt(#[trigger] w[j].0.0@, k) by { assert(w[j] == v[j]); }
            lemma_pos_of(w, k, i - 1);
            assert(str_lt(v[v.len() - 1].0.0@, k));
        } else {
            assert forall|j: int| 0 <= j < i implies str_lt(#[trigger] w[j].0.0@, k) by { assert(w[j] == v[j]); }
            assert forall|j: int| i <= j < w.len() implies !str_lt(#[trigger] w[j].0.0@, k) by { assert(w[j] == v[j]); }
            lemma_pos_of(w, k, i);
            assert(!str_lt(v[v.len() - 1].0.0@, k));
        }
    }
}

pub proof fn lemma_lt_asym(a: Seq<char>, b: Seq<char>)
    requires str_lt(a, b)
    ensures !str_lt(b, a)
{
    lemma_lex_flip(a, b);
}

/// in a strictly ascending list, the value paired with key `k` is the one at `pos_of(k)`
pub proof fn lemma_has_pair_pos(v: Seq<(QualifierKey, SmallString)>, k: Seq<char>)
    requires keys_sorted(v)
    ensures forall|val: Seq<char>| has_pair(v, k, val) ==> 0 <= pos_of(v, k) < v.len() && v[pos_of(v, k)].0.0@ == k && v[pos_of(v, k)].1@ == val
{
    assert forall|val: Seq<char>| has_pair(v, k, val) implies 0 <= pos_of(v, k) < v.len() && v[pos_of(v, k)].0.0@ == k && v[pos_of(v, k)].1@ == val by {
        let i = choose|i: int| 0 <= i < v.len() && #[trigger] v[i].0.0@ == k && v[i].1@ == val;
        assert forall|j: int| 0 <= j < i implies str_lt(#[trigger] v[j].0.0@, k) by { assert(str_lt(v[j].0.0@, v[i].0.0@)); }
        assert forall|j: int| i <= j < v.len() implies !str_lt(#[trigger] v[j].0.0@, k) by {
            if j == i { lemma_lt_irrefl(k); } else { assert(str_lt(v[i].0.0@, v[j].0.0@)); lemma_lt_asym(k, v[j].0.0@); }
        }
        lemma_pos_of(v, k, i);
    }
}

// ---- unit theory.cow  <= (contracts):0 ----
// ---- R9: stub of std::borrow::Cow for B = str (two variants, same names) ----
pub enum Cow<'a, B: ?Sized> { Borrowed(&'a B), Owned(String) }

impl<'a> View for Cow<'a, str> {
    type V = Seq<char>;
    open spec fn view(&self) -> Seq<char> {
        match self { Cow::Borrowed(b) => b@, Cow::Owned(o) => o@ }
    }
}

impl<'a> core::ops::Deref for Cow<'a, str> {
    type Target = str;
    fn deref(&self) -> (r: &str)
        ensures r@ == self@
    {
        match self { Cow::Borrowed(b) => b, Cow::Owned(o) => o.as_str() }
    }
}

// R9: `String: From<Cow<str>>` for the stub Cow (std: the owned text, or a copy of the borrowed text)
pub uninterp spec fn string_of_cow<'a>(c: Cow<'a, str>) -> String;
#[verifier::external_body]
pub broadcast proof fn axiom_string_of_cow<'a>(c: Cow<'a, str>)
    ensures (#[trigger] string_of_cow(c))@ == c@
{ }
impl<'a> vstd::std_specs::convert::FromSpecImpl<Cow<'a, str>> for String {
    open spec fn obeys_from_spec() -> bool { true }
    open spec fn from_spec(c: Cow<'a, str>) -> String { string_of_cow(c) }
}
impl<'a> From<Cow<'a, str>> for String {
    #[verifier::external_body]
    fn from(c: Cow<'a, str>) -> (r: String)
    { match c { Cow::Borrowed(b) => b.to_string(), Cow::Owned(o) => o } }
}


// ---- unit theory.cksum  <= (contracts):0 ----
// ---- checksum qualifier: typed value <-> text (C04, C12), written from the statements ----
// R9: stub of std::collections::HashMap as used by Checksum (String keys, Cow<str> values); every operation on it is an
// assumed wrapper (std HashMap semantics). Its iteration order is modelled as ARBITRARY.
#[verifier::external_body]
#[verifier::accept_recursive_types(K)]
#[verifier::accept_recursive_types(V)]
pub struct HashMap<K, V> { _k: core::marker::PhantomData<K>, _v: core::marker::PhantomData<V> }

pub uninterp spec fn hm_view<'a>(m: HashMap<SmallString, Cow<'a, str>>) -> Map<Seq<char>, Seq<char>>;

/// entries as text pairs (algorithm, hex)
pub type VS = Seq<(Seq<char>, Seq<char>)>;
/// the text pairs of a vector of owned entries
pub open spec fn ev<'a>(es: Seq<(SmallString, Cow<'a, str>)>) -> VS { es.map_values(|e: (SmallString, Cow<'a, str>)| (e.0@, e.1@)) }

/// `es` lists every entry of `m` exactly once (in any order)
#[verifier::opaque]
pub open spec fn is_listing(es: VS, m: Map<Seq<char>, Seq<char>>) -> bool {
    (forall|i: int| 0 <= i < es.len() ==> m.contains_key(#[trigger] es[i].0) && m[es[i].0] == es[i].1)
    && (forall|i: int, j: int| 0 <= i < j < es.len() ==> #[trigger] es[i].0 != #[trigger] es[j].0)
    && (forall|k: Seq<char>| m.contains_key(k) ==> exists|i: int| 0 <= i < es.len() && #[trigger] es[i].0 == k)
}
#[verifier::opaque]
pub open spec fn sorted_by_key(es: VS) -> bool {
    forall|i: int, j: int| 0 <= i < j < es.len() ==> str_lt(#[trigger] es[i].0, #[trigger] es[j].0)
}

pub open spec fn hex_ok(v: Seq<char>) -> bool { (forall|i: int| 0 <= i < v.len() ==> ascii_hex_c(#[trigger] v[i])) && v.len() % 2 == 0 }
pub open spec fn entry_text(k: Seq<char>, v: Seq<char>) -> Seq<char> { k + seq![':'] + lower_ascii_seq(v) }
/// "comma-separated list of algorithm:hex entries", in the order of `es`
pub open spec fn listing_text(es: VS) -> Seq<char> decreases es.len() {
    if es.len() == 0 { Seq::<char>::empty() }
    else if es.len() == 1 { entry_text(es[0].0, es[0].1) }
    else { listing_text(es.drop_last()) + seq![','] + entry_text(es.last().0, es.last().1) }
}
pub open spec fn all_hex_ok(es: VS) -> bool { forall|i: int| 0 <= i < es.len() ==> hex_ok(#[trigger] es[i].1) }

/// ASSUMED (UTF-8): an all-ASCII string has as many bytes as chars
#[verifier::external_body]
pub proof fn axiom_utf8_len_ascii(s: Seq<char>)
    requires forall|i: int| 0 <= i < s.len() ==> is_ascii_c(#[trigger] s[i])
    ensures utf8_len(s) == s.len()
{ }

#[verifier::external_body]
pub fn x_str_len(s: &str) -> (r: usize)
    ensures r == utf8_len(s@)
{ s.len() }

/// `value.chars().filter(|c| *c == ch).count()`; a str never has more than isize::MAX bytes
#[verifier::external_body]
pub fn x_count_char(s: &str, ch: char) -> (r: usize)
    ensures r < usize::MAX
{ s.chars().filter(|c| *c == ch).count() }

#[verifier::external_body]
pub fn x_hm_with_capacity<'a>(n: usize) -> (r: HashMap<SmallString, Cow<'a, str>>)
    ensures hm_view(r) == Map::<Seq<char>, Seq<char>>::empty()
{ unimplemented!() }

/// `m.insert(k, v)`
#[verifier::external_body]
pub fn x_hm_insert<'a>(m: &mut HashMap<SmallString, Cow<'a, str>>, k: SmallString, v: Cow<'a, str>) -> (r: Option<Cow<'a, str>>)
    ensures hm_view(*final(m)) == hm_view(*old(m)).insert(k@, v@), r is Some == hm_view(*old(m)).contains_key(k@)
{ unimplemented!() }

/// `m.into_iter().collect::<Vec<_>>()`: every entry once, in an ARBITRARY order (hash seed, insertion history)
#[verifier::external_body]
pub fn x_hm_into_vec<'a>(m: HashMap<SmallString, Cow<'a, str>>) -> (r: Vec<(SmallString, Cow<'a, str>)>)
    ensures is_listing(ev(r@), hm_view(m))
{ unimplemented!() }

/// what `sort_unstable_by(|a, b| a.0.cmp(&b.0))` does: a permutation, ordered (non-strictly) by the keys
/// (String::cmp = byte-wise = scalar-value order). Four separately opaque facts (revealing both inclusion directions at once
/// sends the solver into a matching loop).
#[verifier::opaque]
pub open spec fn perm_into(before: VS, after: VS) -> bool {
    forall|i: int| 0 <= i < before.len() ==> exists|j: int| 0 <= j < after.len() && after[j] == #[trigger] before[i]
}
#[verifier::opaque]
pub open spec fn perm_from(before: VS, after: VS) -> bool {
    forall|j: int| 0 <= j < after.len() ==> exists|i: int| 0 <= i < before.len() && before[i] == #[trigger] after[j]
}
#[verifier::opaque]
pub open spec fn ordered_by_key(after: VS) -> bool {
    forall|i: int, j: int| 0 <= i < j < after.len() ==> !str_lt(#[trigger] after[j].0, #[trigger] after[i].0)
}
pub open spec fn distinct_keys(es: VS) -> bool {
    forall|i: int, j: int| 0 <= i < j < es.len() ==> #[trigger] es[i].0 != #[trigger] es[j].0
}
pub open spec fn is_sorted_perm(before: VS, after: VS) -> bool {
    after.len() == before.len() && perm_into(before, after) && perm_from(before, after) && ordered_by_key(after)
    // a permutation keeps pairwise-distinct keys pairwise distinct
    && (distinct_keys(before) ==> distinct_keys(after))
}

/// `v.sort_unstable_by(|a, b| a.0.cmp(&b.0))`
#[verifier::external_body]
pub fn x_sort_by_key0<'a>(v: &mut Vec<(SmallString, Cow<'a, str>)>)
    ensures is_sorted_perm(ev(old(v)@), ev(final(v)@)), final(v)@.len() == old(v)@.len()
{ unimplemented!() }

/// `v.iter().map(|(k, v)| k.len() + 1 + v.len()).sum::<usize>()`; ASSUMED not to overflow (the strings are all in memory)
#[verifier::external_body]
pub fn x_sum_entry_lens<'a>(v: &Vec<(SmallString, Cow<'a, str>)>) -> (r: usize)
    ensures r + v@.len() <= usize::MAX
{ unimplemented!() }

/// `s.extend(t.chars().map(|c| c.to_ascii_lowercase()))`
#[verifier::external_body]
pub fn x_extend_ascii_lower(s: &mut String, t: &str)
    ensures final(s)@ == old(s)@ + lower_ascii_seq(t@)
{ s.extend(t.chars().map(|c| c.to_ascii_lowercase())) }

/// a permutation of a duplicate-free listing, ordered non-strictly, is ordered strictly and is still a listing
#[verifier::external_body] /* proved in group cksum */
pub proof fn lemma_perm_members(before: VS, after: VS, m: Map<Seq<char>, Seq<char>>)
    requires is_listing(before, m), is_sorted_perm(before, after)
    ensures forall|i: int| 0 <= i < after.len() ==> m.contains_key(#[trigger] after[i].0) && m[after[i].0] == after[i].1
{ }
#[verifier::external_body] /* proved in group cksum */
pub proof fn lemma_perm_covers(before: VS, after: VS, m: Map<Seq<char>, Seq<char>>)
    requires is_listing(before, m), is_sorted_perm(before, after)
    ensures forall|k: Seq<char>| m.contains_key(k) ==> exists|i: int| 0 <= i < after.len() && #[trigger] after[i].0 == k
{ }
#[verifier::external_body] /* proved in group cksum */
pub proof fn lemma_perm_strict(before: VS, after: VS, m: Map<Seq<char>, Seq<char>>)
    requires is_listing(before, m), is_sorted_perm(before, after)
    ensures
        forall|i: int, j: int| 0 <= i < j < after.len() ==> #[trigger] after[i].0 != #[trigger] after[j].0,
        sorted_by_key(after),
{ }
#[verifier::external_body] /* proved in group cksum */
pub proof fn lemma_sorted_listing(before: VS, after: VS, m: Map<Seq<char>, Seq<char>>)
    requires is_listing(before, m), is_sorted_perm(before, after)
    ensures is_listing(after, m), sorted_by_key(after)
{ }

/// C12: the text does not depend on the order in which the map hands out its entries -- two strictly sorted listings of
/// the same map are the same sequence of (key text, value text)
#[verifier::external_body] /* proved in group cksum */
pub proof fn lemma_sorted_listing_unique(a: VS, b: VS, m: Map<Seq<char>, Seq<char>>)
    requires is_listing(a, m), sorted_by_key(a), is_listing(b, m), sorted_by_key(b)
    ensures a.len() == b.len(), forall|i: int| 0 <= i < a.len() ==> (#[trigger] a[i]).0 == b[i].0 && a[i].1 == b[i].1
    decreases a.len()
{ }

#[verifier::external_body] /* proved in group cksum */
pub proof fn lemma_bad_entry(es: VS, m: Map<Seq<char>, Seq<char>>, i: int)
    requires is_listing(es, m), 0 <= i < es.len(), !hex_ok(es[i].1)
    ensures exists|k: Seq<char>| m.contains_key(k) && !hex_ok(#[trigger] m[k])
{ }
#[verifier::external_body] /* proved in group cksum */
pub proof fn lemma_all_ok(es: VS, m: Map<Seq<char>, Seq<char>>)
    requires is_listing(es, m), forall|i: int| 0 <= i < es.len() ==> hex_ok(#[trigger] es[i].1)
    ensures forall|k: Seq<char>| m.contains_key(k) ==> hex_ok(#[trigger] m[k])
{ }
#[verifier::external_body] /* proved in group cksum */
pub proof fn lemma_listing_text_step(es: VS, i: int)
    requires 0 <= i < es.len()
    ensures listing_text(es.take(i + 1)) ==
        (if i == 0 { entry_text(es[i].0, es[i].1) } else { listing_text(es.take(i)) + seq![','] + entry_text(es[i].0, es[i].1) })
{ }
#[verifier::external_body] /* proved in group cksum */
pub proof fn lemma_hex_is_ascii(v: Seq<char>)
    requires forall|i: int| 0 <= i < v.len() ==> ascii_hex_c(#[trigger] v[i])
    ensures utf8_len(v) == v.len()
{ }
#[verifier::external_body] /* proved in group cksum */
pub proof fn lemma_listing_text_nonempty_iff(es: VS)
    ensures (listing_text(es).len() == 0) ==> es.len() == 0
    decreases es.len()
{ }

/// C04 / C12: THE text form of a set of entries: defined for maps whose every value is an even number of hex digits,
/// as the text of the strictly sorted listing (unique by lemma_sorted_listing_unique)
pub open spec fn all_values_hex(m: Map<Seq<char>, Seq<char>>) -> bool { forall|k: Seq<char>| m.contains_key(k) ==> hex_ok(#[trigger] m[k]) }
pub open spec fn canon_listing(m: Map<Seq<char>, Seq<char>>) -> VS { choose|vs: VS| is_listing(vs, m) && sorted_by_key(vs) }
pub open spec fn canon_text(m: Map<Seq<char>, Seq<char>>) -> Seq<char> { listing_text(canon_listing(m)) }

#[verifier::external_body] /* proved in group cksum */
pub proof fn lemma_canon_listing(vs: VS, m: Map<Seq<char>, Seq<char>>)
    requires is_listing(vs, m), sorted_by_key(vs)
    ensures canon_listing(m) == vs
{ }

// ---- text -> typed (C12): "split ',', rsplit_once ':', lower-case the algorithm, refuse duplicates" ----
pub open spec fn ck_fold(pieces: Seq<Seq<char>>) -> Option<Map<Seq<char>, Seq<char>>> decreases pieces.len() {
    if pieces.len() == 0 { Some(Map::<Seq<char>, Seq<char>>::empty()) } else {
        match ck_fold(pieces.drop_last()) {
            None => None,
            Some(m) => {
                let p = pieces.last();
                let i = last_index_of(p, ':');
                if i < 0 { None }                                             // entry without ':'
                else if m.contains_key(lower_seq(p.subrange(0, i))) { None }   // algorithm repeated in any case
                else { Some(m.insert(lower_seq(p.subrange(0, i)), p.subrange(i + 1, p.len() as int))) }
            },
        }
    }
}
pub open spec fn ck_parse(text: Seq<char>) -> Option<Map<Seq<char>, Seq<char>>> { ck_fold(split_spec(text, ',')) }

#[verifier::external_body] /* proved in group cksum */
pub proof fn lemma_ck_fold_none(ps: Seq<Seq<char>>, k: int)
    requires 0 <= k <= ps.len(), ck_fold(ps.take(k)) is None
    ensures ck_fold(ps) is None
    decreases ps.len() - k
{ }

/// the typed -> text conversion as a partial function of the entries (C04, C12)
pub open spec fn ck_text(m: Map<Seq<char>, Seq<char>>) -> Option<Seq<char>> { if all_values_hex(m) { Some(canon_text(m)) } else { None } }
pub open spec fn checksum_key() -> Seq<char> { seq!['c', 'h', 'e', 'c', 'k', 's', 'u', 'm'] }

/// a checksum parsed from any text has at least one entry, and the text form of a non-empty entry set is non-empty
#[verifier::external_body] /* proved in group cksum */
pub proof fn lemma_ck_fold_nonempty(ps: Seq<Seq<char>>)
    requires ps.len() > 0, ck_fold(ps) is Some
    ensures exists|k: Seq<char>| (#[trigger] ck_fold(ps)->Some_0.contains_key(k))
{ }
#[verifier::external_body] /* proved in group cksum */
pub proof fn lemma_split_nonempty(s: Seq<char>, c: char)
    ensures split_spec(s, c).len() > 0
    decreases s.len()
{ }
#[verifier::external_body] /* proved in group cksum */
pub proof fn lemma_listing_text_nonempty(es: VS)
    requires es.len() > 0
    ensures listing_text(es).len() > 0
    decreases es.len()
{ }
#[verifier::external_body] /* proved in group cksum */
pub proof fn lemma_ck_parse_nonempty(text: Seq<char>)
    requires ck_parse(text) is Some
    ensures exists|k: Seq<char>| (#[trigger] ck_parse(text)->Some_0.contains_key(k))
{ }
#[verifier::external_body] /* proved in group cksum */
pub proof fn lemma_listing_covers(es: VS, m: Map<Seq<char>, Seq<char>>, k: Seq<char>)
    requires is_listing(es, m), m.contains_key(k)
    ensures es.len() > 0
{ }

// ---- typed accessors of Checksum (C12) ----
/// representation invariant of Checksum: every algorithm name is stored lower-cased
pub open spec fn keys_lower(m: Map<Seq<char>, Seq<char>>) -> bool { forall|k: Seq<char>| #[trigger] m.contains_key(k) ==> lower_seq(k) == k }

/// `m.get_mut(k)`
#[verifier::external_body]
pub fn x_hm_get_mut<'a, 'b>(m: &'b mut HashMap<SmallString, Cow<'a, str>>, k: &str) -> (r: Option<&'b mut Cow<'a, str>>)
    ensures match r {
        Some(v) => hm_view(*old(m)).contains_key(k@) && (*v)@ == hm_view(*old(m))[k@]
            && hm_view(*final(m)) == hm_view(*old(m)).insert(k@, (*final(v))@),
        None => !hm_view(*old(m)).contains_key(k@) && hm_view(*final(m)) == hm_view(*old(m)),
    }
{ unimplemented!() }
/// `m.get(k)`
#[verifier::external_body]
pub fn x_hm_get<'a, 'b>(m: &'b HashMap<SmallString, Cow<'a, str>>, k: &str) -> (r: Option<&'b Cow<'a, str>>)
    ensures match r {
        Some(v) => hm_view(*m).contains_key(k@) && (*v)@ == hm_view(*m)[k@],
        None => !hm_view(*m).contains_key(k@),
    }
{ unimplemented!() }
/// `m.remove(k)`
#[verifier::external_body]
pub fn x_hm_remove<'a>(m: &mut HashMap<SmallString, Cow<'a, str>>, k: &str) -> (r: Option<Cow<'a, str>>)
    ensures hm_view(*final(m)) == hm_view(*old(m)).remove(k@)
{ unimplemented!() }

#[verifier::external_body] /* proved in group cksum */
pub proof fn lemma_ck_fold_keys_lower(ps: Seq<Seq<char>>)
    requires ck_fold(ps) is Some
    ensures keys_lower(ck_fold(ps)->Some_0)
    decreases ps.len()
{ }

// ---- unit theory.segs  <= (contracts):0 ----
// ---- percent-decoding (uninterpreted) and the segment folds, written from C02 / C05 / C07 ----
/// percent-decode + strict UTF-8 (the `percent-encoding` crate + `str::from_utf8`); None = refused
pub uninterp spec fn dec(s: Seq<char>) -> Option<Seq<char>>;

pub open spec fn is_dot(p: Seq<char>) -> bool { p == seq!['.'] }
pub open spec fn is_dotdot(p: Seq<char>) -> bool { p == seq!['.', '.'] }
pub open spec fn sub_skipped(p: Seq<char>) -> bool { p.len() == 0 || is_dot(p) || is_dotdot(p) }
pub open spec fn ns_skipped(p: Seq<char>) -> bool { p.len() == 0 }
pub open spec fn sub_bad(p: Seq<char>) -> bool {
    dec(p) is None || has_char(dec(p)->Some_0, '/') || is_dot(dec(p)->Some_0) || is_dotdot(dec(p)->Some_0)
}
pub open spec fn ns_bad(p: Seq<char>) -> bool { dec(p) is None || has_char(dec(p)->Some_0, '/') }
pub open spec fn join_push(acc: Seq<char>, seg: Seq<char>) -> Seq<char> { if acc.len() == 0 { seg } else { acc + seq!['/'] + seg } }

/// subpath: skip raw '', '.', '..'; refuse a piece that does not decode, or decodes to something containing '/' or to '.' / '..'
pub open spec fn sub_fold(pieces: Seq<Seq<char>>) -> Option<Seq<char>> decreases pieces.len() {
    if pieces.len() == 0 { Some(Seq::<char>::empty()) } else {
        match sub_fold(pieces.drop_last()) {
            None => None,
            Some(acc) => if sub_skipped(pieces.last()) { Some(acc) } else if sub_bad(pieces.last()) { None }
                         else { Some(join_push(acc, dec(pieces.last())->Some_0)) },
        }
    }
}
/// namespace: skip raw ''; refuse a piece that does not decode or decodes to something containing '/'
pub open spec fn ns_fold(pieces: Seq<Seq<char>>) -> Option<Seq<char>> decreases pieces.len() {
    if pieces.len() == 0 { Some(Seq::<char>::empty()) } else {
        match ns_fold(pieces.drop_last()) {
            None => None,
            Some(acc) => if ns_skipped(pieces.last()) { Some(acc) } else if ns_bad(pieces.last()) { None }
                         else { Some(join_push(acc, dec(pieces.last())->Some_0)) },
        }
    }
}

pub proof fn lemma_sub_fold_none(ps: Seq<Seq<char>>, k: int)
    requires 0 <= k <= ps.len(), sub_fold(ps.take(k)) is None
    ensures sub_fold(ps) is None
    decreases ps.len() - k
{
    if k < ps.len() {
        assert(ps.take(k + 1).drop_last() == ps.take(k));
        lemma_sub_fold_none(ps, k + 1);
    } else { assert(ps.take(k) == ps); }
}
pub proof fn lemma_ns_fold_none(ps: Seq<Seq<char>>, k: int)
    requires 0 <= k <= ps.len(), ns_fold(ps.take(k)) is None
    ensures ns_fold(ps) is None
    decreases ps.len() - k
{
    if k < ps.len() {
        assert(ps.take(k + 1).drop_last() == ps.take(k));
        lemma_ns_fold_none(ps, k + 1);
    } else { assert(ps.take(k) == ps); }
}

/// `[a, b, c].contains(&s)` on string slices
#[verifier::external_body]
pub fn x_is_one_of3(s: &str, a: &str, b: &str, c: &str) -> (r: bool)
    ensures r == (s@ == a@ || s@ == b@ || s@ == c@)
{ [a, b, c].contains(&s) }
#[verifier::external_body]
pub fn x_is_one_of2(s: &str, a: &str, b: &str) -> (r: bool)
    ensures r == (s@ == a@ || s@ == b@)
{ [a, b].contains(&s) }

/// `write!(w, "{}", d).unwrap()` on a String: appends the text (fmt::Write for String never fails)
#[verifier::external_body]
pub fn x_push_display(w: &mut String, d: &str)
    ensures final(w)@ == old(w)@ + d@
{ use std::fmt::Write; write!(w, "{}", d).unwrap() }

// ---- unit theory.segs_lemmas  <= (contracts):0 ----
// ---- C07 (L-seg): what a successful fold looks like ----
/// ASSUMED (A: bounded replay against the real decoder): a non-empty piece never decodes to the empty string
#[verifier::external_body]
pub proof fn axiom_dec_nonempty(p: Seq<char>)
    requires p.len() > 0, dec(p) is Some
    ensures dec(p)->Some_0.len() > 0
{ }

pub open spec fn join_segs(segs: Seq<Seq<char>>) -> Seq<char> decreases segs.len()
{ if segs.len() == 0 { Seq::<char>::empty() } else { join_push(join_segs(segs.drop_last()), segs.last()) } }

/// the decoded, non-skipped pieces of a subpath (meaningful when sub_fold is Some)
pub open spec fn sub_segs(pieces: Seq<Seq<char>>) -> Seq<Seq<char>> decreases pieces.len()
{
    if pieces.len() == 0 { Seq::<Seq<char>>::empty() }
    else if sub_skipped(pieces.last()) { sub_segs(pieces.drop_last()) }
    else { sub_segs(pieces.drop_last()).push(dec(pieces.last())->Some_0) }
}
pub open spec fn ns_segs(pieces: Seq<Seq<char>>) -> Seq<Seq<char>> decreases pieces.len()
{
    if pieces.len() == 0 { Seq::<Seq<char>>::empty() }
    else if ns_skipped(pieces.last()) { ns_segs(pieces.drop_last()) }
    else { ns_segs(pieces.drop_last()).push(dec(pieces.last())->Some_0) }
}

pub open spec fn clean_sub_seg(s: Seq<char>) -> bool { s.len() > 0 && !has_char(s, '/') && !is_dot(s) && !is_dotdot(s) }
pub open spec fn clean_ns_seg(s: Seq<char>) -> bool { s.len() > 0 && !has_char(s, '/') }

/// a successful subpath fold is the '/'-join of the decoded non-skipped pieces, every one of them clean
#[verifier::external_body] /* proved in group parse_seg */
pub proof fn lemma_sub_fold_shape(ps: Seq<Seq<char>>)
    requires sub_fold(ps) is Some
    ensures
        sub_fold(ps)->Some_0 == join_segs(sub_segs(ps)),
        forall|i: int| 0 <= i < sub_segs(ps).len() ==> clean_sub_seg(#[trigger] sub_segs(ps)[i]),
    decreases ps.len()
{ }
#[verifier::external_body] /* proved in group parse_seg */
pub proof fn lemma_ns_fold_shape(ps: Seq<Seq<char>>)
    requires ns_fold(ps) is Some
    ensures
        ns_fold(ps)->Some_0 == join_segs(ns_segs(ps)),
        forall|i: int| 0 <= i < ns_segs(ps).len() ==> clean_ns_seg(#[trigger] ns_segs(ps)[i]),
    decreases ps.len()
{ }

#[verifier::external_body] /* proved in group parse_seg */
pub proof fn lemma_first_index_prefix(a: Seq<char>, b: Seq<char>, c: char)
    requires has_char(a, c)
    ensures first_index_of(a + b, c) == first_index_of(a, c)
    decreases a.len()
{ }

#[verifier::external_body] /* proved in group parse_seg */
pub proof fn lemma_split_no_sep(s: Seq<char>, c: char)
    requires !has_char(s, c)
    ensures split_spec(s, c) == seq![s]
{ }

/// appending `c` and a `c`-free tail appends one piece
#[verifier::external_body] /* proved in group parse_seg */
pub proof fn lemma_split_append(a: Seq<char>, b: Seq<char>, c: char)
    requires !has_char(b, c)
    ensures split_spec(a + seq![c] + b, c) == split_spec(a, c).push(b)
    decreases a.len()
{ }

#[verifier::external_body] /* proved in group parse_seg */
pub proof fn lemma_join_nonempty(segs: Seq<Seq<char>>)
    requires segs.len() > 0, forall|i: int| 0 <= i < segs.len() ==> (#[trigger] segs[i]).len() > 0
    ensures join_segs(segs).len() > 0
{ }

/// C07: splitting the reported namespace / subpath at '/' gives back exactly the clean segments -- no empty
/// segment, hence no leading or trailing '/', and an escape neither split nor joined anything
#[verifier::external_body] /* proved in group parse_seg */
pub proof fn lemma_split_of_join(segs: Seq<Seq<char>>)
    requires segs.len() > 0, forall|i: int| 0 <= i < segs.len() ==> (#[trigger] segs[i]).len() > 0 && !has_char(segs[i], '/')
    ensures split_spec(join_segs(segs), '/') == segs
    decreases segs.len()
{ }

/// C07, as stated: for every accepted subpath text
#[verifier::external_body] /* proved in group parse_seg */
pub proof fn lemma_c07_subpath(ps: Seq<Seq<char>>)
    requires sub_fold(ps) is Some
    ensures ({
        let out = sub_fold(ps)->Some_0;
        if sub_segs(ps).len() == 0 { out.len() == 0 }      // reported as "no subpath"
        else {
            split_spec(out, '/') == sub_segs(ps)
            && forall|i: int| 0 <= i < sub_segs(ps).len() ==> clean_sub_seg(#[trigger] sub_segs(ps)[i])
        }
    })
{ }
#[verifier::external_body] /* proved in group parse_seg */
pub proof fn lemma_c07_namespace(ps: Seq<Seq<char>>)
    requires ns_fold(ps) is Some
    ensures ({
        let out = ns_fold(ps)->Some_0;
        if ns_segs(ps).len() == 0 { out.len() == 0 }
        else {
            split_spec(out, '/') == ns_segs(ps)
            && forall|i: int| 0 <= i < ns_segs(ps).len() ==> clean_ns_seg(#[trigger] ns_segs(ps)[i])
        }
    })
{ }

// ---- unit theory.ckfix  <= (contracts):0 ----
// ---- the checksum text is a fixpoint of parse + serialise (C01 / C10 / C12) ----
// A-validated per char (exhaustive over all scalar values): lower-casing never produces ',' from another character
#[verifier::external_body]
pub proof fn axiom_lower_no_comma(c: char)
    requires c != ','
    ensures !has_char(u_to_lower(c), ',')
{ }

pub proof fn lemma_lower_seq_no_comma(s: Seq<char>)
    requires !has_char(s, ',')
    ensures !has_char(lower_seq(s), ',')
    decreases s.len()
{
    if s.len() > 0 {
        let w = s.drop_last();
        if has_char(w, ',') { let i = choose|i: int| 0 <= i < w.len() && w[i] == ','; assert(s[i] == ','); }
        lemma_lower_seq_no_comma(w);
        if s.last() == ',' { assert(s[s.len() - 1] == ','); }
        axiom_lower_no_comma(s.last());
        lemma_has_char_concat(lower_seq(w), u_to_lower(s.last()), ',');
    }
}

pub open spec fn lower_vals(es: VS) -> VS { es.map_values(|e: (Seq<char>, Seq<char>)| (e.0, lower_ascii_seq(e.1))) }
pub open spec fn pieces_of(es: VS) -> Seq<Seq<char>> { es.map_values(|e: (Seq<char>, Seq<char>)| entry_text(e.0, e.1)) }
/// the map a listing denotes
pub open spec fn map_of(es: VS) -> Map<Seq<char>, Seq<char>> decreases es.len() {
    if es.len() == 0 { Map::<Seq<char>, Seq<char>>::empty() } else { map_of(es.drop_last()).insert(es.last().0, es.last().1) }
}
pub open spec fn keys_distinct(es: VS) -> bool { forall|i: int, j: int| 0 <= i < j < es.len() ==> #[trigger] es[i].0 != #[trigger] es[j].0 }
pub open spec fn keys_fixed(es: VS) -> bool { forall|i: int| 0 <= i < es.len() ==> lower_seq(#[trigger] es[i].0) == es[i].0 && !has_char(es[i].0, ',') }

pub proof fn lemma_hex_lower(v: Seq<char>)
    requires hex_ok(v)
    ensures hex_ok(lower_ascii_seq(v)), lower_ascii_seq(lower_ascii_seq(v)) == lower_ascii_seq(v),
        !has_char(lower_ascii_seq(v), ':'), !has_char(lower_ascii_seq(v), ',')
{
    let l = lower_ascii_seq(v);
    assert forall|i: int| 0 <= i < l.len() implies ascii_hex_c(#[trigger] l[i]) && !ascii_upper_c(l[i]) && l[i] != ':' && l[i] != ',' by { assert(ascii_hex_c(v[i])); }
    lemma_lower_ascii_fixed(l);
    if has_char(l, ':') { let i = choose|i: int| 0 <= i < l.len() && l[i] == ':'; }
    if has_char(l, ',') { let i = choose|i: int| 0 <= i < l.len() && l[i] == ','; }
}

pub proof fn lemma_map_of_keys(es: VS, k: Seq<char>)
    ensures map_of(es).contains_key(k) <==> exists|i: int| 0 <= i < es.len() && #[trigger] es[i].0 == k
    decreases es.len()
{
    if es.len() > 0 {
        let w = es.drop_last();
        lemma_map_of_keys(w, k);
        if exists|i: int| 0 <= i < w.len() && #[trigger] w[i].0 == k { let i = choose|i: int| 0 <= i < w.len() && #[trigger] w[i].0 == k; assert(es[i].0 == k); }
        if exists|i: int| 0 <= i < es.len() && #[trigger] es[i].0 == k {
            let i = choose|i: int| 0 <= i < es.len() && #[trigger] es[i].0 == k;
            if i < w.len() { assert(w[i].0 == k); }
        }
    }
}

pub proof fn lemma_map_of_is_listing(es: VS)
    requires keys_distinct(es)
    ensures is_listing(es, map_of(es))
    decreases es.len()
{
    reveal(is_listing);
    if es.len() > 0 {
        let w = es.drop_last();
        assert(keys_distinct(w)) by { assert forall|i: int, j: int| 0 <= i < j < w.len() implies #[trigger] w[i].0 != #[trigger] w[j].0 by { assert(es[i].0 != es[j].0); } }
        lemma_map_of_is_listing(w);
        let m = map_of(es);
        assert forall|i: int| 0 <= i < es.len() implies m.contains_key(#[trigger] es[i].0) && m[es[i].0] == es[i].1 by {
            if i < w.len() { assert(w[i] == es[i]); assert(es[i].0 != es[es.len() - 1].0); }
        }
        assert forall|k: Seq<char>| m.contains_key(k) implies exists|i: int| 0 <= i < es.len() && #[trigger] es[i].0 == k by {
            if k == es.last().0 { assert(es[es.len() - 1].0 == k); }
            else { let i = choose|i: int| 0 <= i < w.len() && #[trigger] w[i].0 == k; assert(es[i].0 == k); }
        }
    }
}

/// splitting the text of a non-empty listing at ',' gives back the entry texts (no key, no hex value contains ',')
pub proof fn lemma_split_listing(es: VS)
    requires es.len() > 0, keys_fixed(es), all_hex_ok(es)
    ensures split_spec(listing_text(es), ',') == pieces_of(es)
    decreases es.len()
{
    let last = es.last();
    lemma_hex_lower(last.1);
    lemma_single_excludes(':', ',');
    lemma_has_char_concat(last.0, seq![':'], ',');
    lemma_has_char_concat(last.0 + seq![':'], lower_ascii_seq(last.1), ',');
    let e = entry_text(last.0, last.1);
    assert(!has_char(e, ','));
    if es.len() == 1 {
        lemma_split_no_sep(e, ',');
        assert(pieces_of(es) =~= seq![e]);
    } else {
        let w = es.drop_last();
        assert(keys_fixed(w)) by { assert forall|i: int| 0 <= i < w.len() implies lower_seq(#[trigger] w[i].0) == w[i].0 && !has_char(w[i].0, ',') by { assert(w[i] == es[i]); } }
        assert(all_hex_ok(w)) by { assert forall|i: int| 0 <= i < w.len() implies hex_ok(#[trigger] w[i].1) by { assert(w[i] == es[i]); } }
        lemma_split_listing(w);
        lemma_split_append(listing_text(w), e, ',');
        assert(pieces_of(es) =~= pieces_of(w).push(e));
    }
}

/// folding the entry texts of a listing with distinct lower-case keys gives the map of the listing with lower-cased hex
pub proof fn lemma_fold_listing(es: VS)
    requires keys_fixed(es), keys_distinct(es), all_hex_ok(es)
    ensures ck_fold(pieces_of(es)) == Some(map_of(lower_vals(es)))
    decreases es.len()
{
    if es.len() == 0 {
        assert(pieces_of(es) =~= Seq::<Seq<char>>::empty());
        assert(lower_vals(es) =~= Seq::<(Seq<char>, Seq<char>)>::empty());
    } else {
        let w = es.drop_last();
        assert(keys_fixed(w)) by { assert forall|i: int| 0 <= i < w.len() implies lower_seq(#[trigger] w[i].0) == w[i].0 && !has_char(w[i].0, ',') by { assert(w[i] == es[i]); } }
        assert(all_hex_ok(w)) by { assert forall|i: int| 0 <= i < w.len() implies hex_ok(#[trigger] w[i].1) by { assert(w[i] == es[i]); } }
        assert(keys_distinct(w)) by { assert forall|i: int, j: int| 0 <= i < j < w.len() implies #[trigger] w[i].0 != #[trigger] w[j].0 by { assert(es[i].0 != es[j].0); } }
        lemma_fold_listing(w);
        let last = es.last();
        let lv = lower_ascii_seq(last.1);
        lemma_hex_lower(last.1);
        let p = entry_text(last.0, last.1);
        lemma_rsplit_join(last.0, lv, ':');
        assert(last_index_of(p, ':') == last.0.len());
        assert(p.subrange(0, last.0.len() as int) =~= last.0);
        assert(p.subrange(last.0.len() as int + 1, p.len() as int) =~= lv);
        assert(pieces_of(es).drop_last() =~= pieces_of(w));
        assert(pieces_of(es).last() == p);
        assert(lower_vals(es).drop_last() =~= lower_vals(w));
        assert(lower_vals(es).last() == (last.0, lv));
        let m0 = map_of(lower_vals(w));
        lemma_map_of_keys(lower_vals(w), last.0);
        if m0.contains_key(last.0) {
            let i = choose|i: int| 0 <= i < lower_vals(w).len() && #[trigger] lower_vals(w)[i].0 == last.0;
            assert(lower_vals(w)[i].0 == es[i].0);
            assert(es[i].0 != es[es.len() - 1].0);
        }
    }
}

pub proof fn lemma_lower_vals_text(es: VS)
    requires all_hex_ok(es)
    ensures listing_text(lower_vals(es)) == listing_text(es), all_hex_ok(lower_vals(es))
    decreases es.len()
{
    assert forall|i: int| 0 <= i < lower_vals(es).len() implies hex_ok(#[trigger] lower_vals(es)[i].1) by { lemma_hex_lower(es[i].1); }
    if es.len() > 0 {
        lemma_hex_lower(es.last().1);
        if es.len() == 1 {
            assert(lower_vals(es)[0] == (es[0].0, lower_ascii_seq(es[0].1)));
        } else {
            let w = es.drop_last();
            assert(all_hex_ok(w)) by { assert forall|i: int| 0 <= i < w.len() implies hex_ok(#[trigger] w[i].1) by { assert(w[i] == es[i]); } }
            lemma_lower_vals_text(w);
            assert(lower_vals(es).drop_last() =~= lower_vals(w));
            assert(lower_vals(es).last() == (es.last().0, lower_ascii_seq(es.last().1)));
        }
    }
}

/// C12 / C01: for entries `es` in ascending key order with lower-case, comma-free keys and hex values, the text parses
/// back to the same keys with lower-cased hex, and that map's canonical text is the same text
pub proof fn theorem_checksum_text_fixpoint(es: VS, m: Map<Seq<char>, Seq<char>>)
    requires es.len() > 0, is_listing(es, m), sorted_by_key(es), keys_fixed(es), all_hex_ok(es)
    ensures
        canon_text(m) == listing_text(es),
        ck_parse(canon_text(m)) is Some,
        ck_text(ck_parse(canon_text(m))->Some_0) == Some(canon_text(m)),
{
    lemma_canon_listing(es, m);
    assert(keys_distinct(es)) by { reveal(is_listing); }
    lemma_split_listing(es);
    lemma_fold_listing(es);
    let les = lower_vals(es);
    let m2 = map_of(les);
    assert(ck_parse(canon_text(m)) == Some(m2));
    // the lowered listing is the sorted listing of m2
    assert(keys_distinct(les)) by { assert forall|i: int, j: int| 0 <= i < j < les.len() implies #[trigger] les[i].0 != #[trigger] les[j].0 by { assert(es[i].0 != es[j].0); } }
    lemma_map_of_is_listing(les);
    assert(sorted_by_key(les)) by {
        reveal(sorted_by_key);
        assert forall|i: int, j: int| 0 <= i < j < les.len() implies str_lt(#[trigger] les[i].0, #[trigger] les[j].0) by { assert(str_lt(es[i].0, es[j].0)); }
    }
    lemma_canon_listing(les, m2);
    lemma_lower_vals_text(es);
    assert(all_values_hex(m2)) by {
        reveal(is_listing);
        assert forall|k: Seq<char>| m2.contains_key(k) implies hex_ok(#[trigger] m2[k]) by {
            let i = choose|i: int| 0 <= i < les.len() && #[trigger] les[i].0 == k;
            assert(m2[les[i].0] == les[i].1);
        }
    }
}

// ---- every map ck_parse returns has a sorted listing with lower-case, comma-free keys ----
pub proof fn lemma_lt_trichotomy(a: Seq<char>, b: Seq<char>)
    ensures str_lt(a, b) || a == b || str_lt(b, a)
{
    lemma_lex_eq(a, b);
    lemma_lex_flip(a, b);
}

pub open spec fn ins_pos(es: VS, k: Seq<char>) -> int decreases es.len() {
    if es.len() == 0 { 0 } else { ins_pos(es.drop_last(), k) + if str_lt(es.last().0, k) { 1int } else { 0int } }
}

pub proof fn lemma_ins_pos(es: VS, k: Seq<char>)
    requires sorted_by_key(es), forall|i: int| 0 <= i < es.len() ==> (#[trigger] es[i]).0 != k
    ensures 0 <= ins_pos(es, k) <= es.len(),
        forall|j: int| 0 <= j < ins_pos(es, k) ==> str_lt(#[trigger] es[j].0, k),
        forall|j: int| ins_pos(es, k) <= j < es.len() ==> str_lt(k, #[trigger] es[j].0),
    decreases es.len()
{
    reveal(sorted_by_key);
    if es.len() > 0 {
        let w = es.drop_last();
        assert(sorted_by_key(w)) by { assert forall|i: int, j: int| 0 <= i < j < w.len() implies str_lt(#[trigger] w[i].0, #[trigger] w[j].0) by { assert(str_lt(es[i].0, es[j].0)); } }
        assert forall|i: int| 0 <= i < w.len() implies (#[trigger] w[i]).0 != k by { assert(w[i] == es[i]); }
        lemma_ins_pos(w, k);
        let last = es.last();
        assert(es[es.len() - 1].0 != k);
        lemma_lt_trichotomy(last.0, k);
        if str_lt(last.0, k) {
            // everything is below k
            assert forall|j: int| 0 <= j < es.len() implies str_lt(#[trigger] es[j].0, k) by {
                if j < w.len() { assert(str_lt(es[j].0, es[es.len() - 1].0)); lemma_lex_trans(es[j].0, last.0, k); }
            }
            if ins_pos(w, k) < w.len() {
                let j = ins_pos(w, k);
                assert(str_lt(k, w[j].0));
                assert(w[j] == es[j]);
                lemma_lt_asym(k, es[j].0);
            }
            assert(ins_pos(w, k) == w.len());
        } else {
            assert(str_lt(k, last.0));
            assert forall|j: int| 0 <= j < ins_pos(es, k) implies str_lt(#[trigger] es[j].0, k) by { assert(w[j] == es[j]); }
            assert forall|j: int| ins_pos(es, k) <= j < es.len() implies str_lt(k, #[trigger] es[j].0) by { if j < w.len() { assert(w[j] == es[j]); } }
        }
    }
}

pub proof fn lemma_sorted_insert(es: VS, m: Map<Seq<char>, Seq<char>>, k: Seq<char>, v: Seq<char>)
    requires is_listing(es, m), sorted_by_key(es), !m.contains_key(k)
    ensures is_listing(es.insert(ins_pos(es, k), (k, v)), m.insert(k, v)), sorted_by_key(es.insert(ins_pos(es, k), (k, v)))
{
    reveal(is_listing);
    reveal(sorted_by_key);
    assert forall|i: int| 0 <= i < es.len() implies (#[trigger] es[i]).0 != k by { assert(m.contains_key(es[i].0)); }
    lemma_ins_pos(es, k);
    let p = ins_pos(es, k);
    let w = es.insert(p, (k, v));
    let m2 = m.insert(k, v);
    assert forall|i: int, j: int| 0 <= i < j < w.len() implies str_lt(#[trigger] w[i].0, #[trigger] w[j].0) by {
        if i < p && j == p { assert(w[i] == es[i]); }
        else if i < p && j > p { assert(w[i] == es[i]); assert(w[j] == es[j - 1]); assert(str_lt(es[i].0, es[j - 1].0)); }
        else if i == p { assert(w[j] == es[j - 1]); }
        else if i > p { assert(w[i] == es[i - 1]); assert(w[j] == es[j - 1]); assert(str_lt(es[i - 1].0, es[j - 1].0)); }
        else { assert(w[i] == es[i]); assert(w[j] == es[j]); assert(str_lt(es[i].0, es[j].0)); }
    }
    assert forall|i: int, j: int| 0 <= i < j < w.len() implies #[trigger] w[i].0 != #[trigger] w[j].0 by {
        assert(str_lt(w[i].0, w[j].0)); lemma_lt_irrefl(w[i].0);
    }
    assert forall|i: int| 0 <= i < w.len() implies m2.contains_key(#[trigger] w[i].0) && m2[w[i].0] == w[i].1 by {
        if i < p { assert(w[i] == es[i]); assert(m.contains_key(es[i].0)); }
        else if i > p { assert(w[i] == es[i - 1]); assert(m.contains_key(es[i - 1].0)); }
    }
    assert forall|kk: Seq<char>| m2.contains_key(kk) implies exists|i: int| 0 <= i < w.len() && #[trigger] w[i].0 == kk by {
        if kk == k { assert(w[p].0 == kk); }
        else {
            let i = choose|i: int| 0 <= i < es.len() && #[trigger] es[i].0 == kk;
            if i < p { assert(w[i] == es[i]); assert(w[i].0 == kk); } else { assert(w[i + 1] == es[i]); assert(w[i + 1].0 == kk); }
        }
    }
}

pub proof fn lemma_ck_fold_sorted_listing(ps: Seq<Seq<char>>)
    requires ck_fold(ps) is Some, forall|i: int| 0 <= i < ps.len() ==> !has_char(#[trigger] ps[i], ',')
    ensures exists|es: VS| #![auto] is_listing(es, ck_fold(ps)->Some_0) && sorted_by_key(es) && keys_fixed(es) && es.len() == ps.len()
    decreases ps.len()
{
    if ps.len() == 0 {
        let es = Seq::<(Seq<char>, Seq<char>)>::empty();
        assert(is_listing(es, ck_fold(ps)->Some_0)) by { reveal(is_listing); }
        assert(sorted_by_key(es)) by { reveal(sorted_by_key); }
        assert(keys_fixed(es));
    } else {
        let w = ps.drop_last();
        assert forall|i: int| 0 <= i < w.len() implies !has_char(#[trigger] w[i], ',') by { assert(w[i] == ps[i]); }
        lemma_ck_fold_sorted_listing(w);
        let m0 = ck_fold(w)->Some_0;
        let es0 = choose|es: VS| #![auto] is_listing(es, m0) && sorted_by_key(es) && keys_fixed(es) && es.len() == w.len();
        let p = ps.last();
        let i = last_index_of(p, ':');
        lemma_last_index(p, ':');
        let raw = p.subrange(0, i);
        let k = lower_seq(raw);
        let v = p.subrange(i + 1, p.len() as int);
        assert(!has_char(p, ','));
        if has_char(raw, ',') { let j = choose|j: int| 0 <= j < raw.len() && raw[j] == ','; assert(p[j] == ','); }
        lemma_lower_seq_no_comma(raw);
        lemma_lower_seq_idem(raw);
        lemma_sorted_insert(es0, m0, k, v);
        let es = es0.insert(ins_pos(es0, k), (k, v));
        reveal(is_listing);
        assert forall|j: int| 0 <= j < es0.len() implies (#[trigger] es0[j]).0 != k by { assert(m0.contains_key(es0[j].0)); }
        lemma_ins_pos(es0, k);
        assert(keys_fixed(es)) by {
            let q = ins_pos(es0, k);
            assert forall|j: int| 0 <= j < es.len() implies lower_seq(#[trigger] es[j].0) == es[j].0 && !has_char(es[j].0, ',') by {
                if j < q { assert(es[j] == es0[j]); } else if j > q { assert(es[j] == es0[j - 1]); } else { assert(es[j] == (k, v)); }
            }
        }
    }
}

/// C12 / C01 / C10, as used by build(): the text build() stores for a checksum is a fixpoint of what build() does to it
pub proof fn theorem_checksum_rebuild(x: Seq<char>)
    requires ck_parse(x) is Some, ck_text(ck_parse(x)->Some_0) is Some
    ensures ({
        let t = ck_text(ck_parse(x)->Some_0)->Some_0;
        t.len() > 0 && ck_parse(t) is Some && ck_text(ck_parse(t)->Some_0) == Some(t)
    })
{
    let ps = split_spec(x, ',');
    lemma_split_pieces_no_sep(x, ',');
    lemma_split_nonempty(x, ',');
    lemma_ck_fold_sorted_listing(ps);
    let m = ck_parse(x)->Some_0;
    let es = choose|es: VS| #![auto] is_listing(es, m) && sorted_by_key(es) && keys_fixed(es) && es.len() == ps.len();
    assert(all_hex_ok(es)) by { reveal(is_listing); assert forall|i: int| 0 <= i < es.len() implies hex_ok(#[trigger] es[i].1) by { assert(m.contains_key(es[i].0)); } }
    theorem_checksum_text_fixpoint(es, m);
    lemma_listing_text_nonempty(es);
}

// ---- C04: the stored checksum text is free of ASCII upper-case letters ----
pub proof fn lemma_lower_seq_len(s: Seq<char>)
    ensures lower_seq(s).len() >= s.len()
    decreases s.len()
{
    if s.len() > 0 { lemma_lower_seq_len(s.drop_last()); axiom_lower_nonempty(s.last()); }
}

/// a text that lower-casing leaves alone contains no ASCII upper-case letter
pub proof fn lemma_lower_fixed_no_upper(k: Seq<char>)
    requires lower_seq(k) == k
    ensures forall|i: int| 0 <= i < k.len() ==> !ascii_upper_c(#[trigger] k[i])
    decreases k.len()
{
    broadcast use axiom_ascii_to_lower;
    if k.len() > 0 {
        let w = k.drop_last();
        let c = k.last();
        lemma_lower_seq_len(w);
        axiom_lower_nonempty(c);
        let lw = lower_seq(w);
        let lc = u_to_lower(c);
        assert(lower_seq(k) == lw + lc);
        assert(lw.len() == w.len() && lc.len() == 1);
        assert(lw =~= k.subrange(0, w.len() as int)) by { assert forall|i: int| 0 <= i < lw.len() implies lw[i] == k[i] by { assert((lw + lc)[i] == lw[i]); } }
        assert(k.subrange(0, w.len() as int) =~= w);
        lemma_lower_fixed_no_upper(w);
        assert((lw + lc)[w.len() as int] == lc[0]);
        assert(lc[0] == c);
        if ascii_upper_c(c) { assert(is_ascii_c(c)); assert(u_to_lower(c) == seq![ascii_lower(c)]); assert(false); }
        assert forall|i: int| 0 <= i < k.len() implies !ascii_upper_c(#[trigger] k[i]) by { if i < w.len() { assert(k[i] == w[i]); } }
    }
}

pub open spec fn no_ascii_upper(s: Seq<char>) -> bool { forall|i: int| 0 <= i < s.len() ==> !ascii_upper_c(#[trigger] s[i]) }

pub proof fn lemma_no_upper_concat(a: Seq<char>, b: Seq<char>)
    requires no_ascii_upper(a), no_ascii_upper(b)
    ensures no_ascii_upper(a + b)
{
    assert forall|i: int| 0 <= i < (a + b).len() implies !ascii_upper_c(#[trigger] (a + b)[i]) by {
        if i < a.len() { assert((a + b)[i] == a[i]); } else { assert((a + b)[i] == b[i - a.len()]); }
    }
}

pub proof fn lemma_listing_text_no_upper(es: VS)
    requires keys_fixed(es), all_hex_ok(es)
    ensures no_ascii_upper(listing_text(es))
    decreases es.len()
{
    if es.len() > 0 {
        let last = es.last();
        lemma_lower_fixed_no_upper(last.0);
        lemma_hex_lower(last.1);
        let lv = lower_ascii_seq(last.1);
        assert(no_ascii_upper(lv)) by { assert forall|i: int| 0 <= i < lv.len() implies !ascii_upper_c(#[trigger] lv[i]) by { assert(ascii_hex_c(last.1[i])); } }
        assert(no_ascii_upper(seq![':'])); assert(no_ascii_upper(seq![',']));
        lemma_no_upper_concat(last.0, seq![':']);
        lemma_no_upper_concat(last.0 + seq![':'], lv);
        if es.len() > 1 {
            let w = es.drop_last();
            assert(keys_fixed(w)) by { assert forall|i: int| 0 <= i < w.len() implies lower_seq(#[trigger] w[i].0) == w[i].0 && !has_char(w[i].0, ',') by { assert(w[i] == es[i]); } }
            assert(all_hex_ok(w)) by { assert forall|i: int| 0 <= i < w.len() implies hex_ok(#[trigger] w[i].1) by { assert(w[i] == es[i]); } }
            lemma_listing_text_no_upper(w);
            lemma_no_upper_concat(listing_text(w), seq![',']);
            lemma_no_upper_concat(listing_text(w) + seq![','], entry_text(last.0, last.1));
        }
    }
}

/// C04 (checksum clause): the text build() stores is the ','-joined listing `algorithm:hex` of entries in strictly ascending
/// algorithm order, each with an even number of (lower-case) hex digits, and contains no ASCII upper-case letter
pub proof fn theorem_checksum_text_shape(x: Seq<char>)
    requires ck_parse(x) is Some, ck_text(ck_parse(x)->Some_0) is Some
    ensures exists|es: VS| #![auto] es.len() > 0 && sorted_by_key(es) && all_hex_ok(es) && is_listing(es, ck_parse(x)->Some_0)
        && ck_text(ck_parse(x)->Some_0)->Some_0 == listing_text(es) && no_ascii_upper(listing_text(es))
{
    let ps = split_spec(x, ',');
    lemma_split_pieces_no_sep(x, ',');
    lemma_split_nonempty(x, ',');
    lemma_ck_fold_sorted_listing(ps);
    let m = ck_parse(x)->Some_0;
    let es = choose|es: VS| #![auto] is_listing(es, m) && sorted_by_key(es) && keys_fixed(es) && es.len() == ps.len();
    assert(all_hex_ok(es)) by { reveal(is_listing); assert forall|i: int| 0 <= i < es.len() implies hex_ok(#[trigger] es[i].1) by { assert(m.contains_key(es[i].0)); } }
    lemma_canon_listing(es, m);
    lemma_listing_text_no_upper(es);
}

// ---- unit theory.ckspell  <= (contracts):0 ----
// ---- C12: "any equivalent spelling (order, case ...) carries that one canonical text" ----
pub open spec fn piece_ok(p: Seq<char>) -> bool { last_index_of(p, ':') >= 0 }
pub open spec fn piece_key(p: Seq<char>) -> Seq<char> { lower_seq(p.subrange(0, last_index_of(p, ':'))) }
pub open spec fn piece_val(p: Seq<char>) -> Seq<char> { p.subrange(last_index_of(p, ':') + 1, p.len() as int) }
pub open spec fn pieces_ok(ps: Seq<Seq<char>>) -> bool { forall|i: int| 0 <= i < ps.len() ==> piece_ok(#[trigger] ps[i]) }
pub open spec fn pieces_distinct(ps: Seq<Seq<char>>) -> bool {
    forall|i: int, j: int| 0 <= i < j < ps.len() ==> piece_key(#[trigger] ps[i]) != piece_key(#[trigger] ps[j])
}
/// m is exactly the map {algorithm (lower-cased) -> hex as written} of the pieces
pub open spec fn map_is(ps: Seq<Seq<char>>, m: Map<Seq<char>, Seq<char>>) -> bool {
    (forall|k: Seq<char>| m.contains_key(k) <==> exists|i: int| 0 <= i < ps.len() && piece_key(#[trigger] ps[i]) == k)
    && (forall|i: int| 0 <= i < ps.len() ==> m.contains_key(piece_key(#[trigger] ps[i])) && m[piece_key(ps[i])] == piece_val(ps[i]))
}

/// what ck_fold computes, independent of the order of the pieces
pub proof fn lemma_ck_fold_char(ps: Seq<Seq<char>>)
    ensures
        (ck_fold(ps) is Some) == (pieces_ok(ps) && pieces_distinct(ps)),
        ck_fold(ps) is Some ==> map_is(ps, ck_fold(ps)->Some_0),
    decreases ps.len()
{
    if ps.len() == 0 {
        assert(map_is(ps, Map::<Seq<char>, Seq<char>>::empty()));
    } else {
        let w = ps.drop_last();
        let last = ps.last();
        lemma_ck_fold_char(w);
        if pieces_ok(ps) && pieces_distinct(ps) {
            assert(pieces_ok(w)) by { assert forall|i: int| 0 <= i < w.len() implies piece_ok(#[trigger] w[i]) by { assert(w[i] == ps[i]); } }
            assert(pieces_distinct(w)) by { assert forall|i: int, j: int| 0 <= i < j < w.len() implies piece_key(#[trigger] w[i]) != piece_key(#[trigger] w[j]) by { assert(w[i] == ps[i] && w[j] == ps[j]); } }
            assert(piece_ok(ps[ps.len() - 1]));
            let m0 = ck_fold(w)->Some_0;
            if m0.contains_key(piece_key(last)) {
                let i = choose|i: int| 0 <= i < w.len() && piece_key(#[trigger] w[i]) == piece_key(last);
                assert(w[i] == ps[i]);
                assert(piece_key(ps[i]) != piece_key(ps[ps.len() - 1]));
            }
        }
        if ck_fold(ps) is Some {
            let m0 = ck_fold(w)->Some_0;
            let m = ck_fold(ps)->Some_0;
            assert(pieces_ok(ps)) by { assert forall|i: int| 0 <= i < ps.len() implies piece_ok(#[trigger] ps[i]) by { if i < w.len() { assert(w[i] == ps[i]); } } }
            assert(pieces_distinct(ps)) by {
                assert forall|i: int, j: int| 0 <= i < j < ps.len() implies piece_key(#[trigger] ps[i]) != piece_key(#[trigger] ps[j]) by {
                    if j < w.len() { assert(w[i] == ps[i] && w[j] == ps[j]); }
                    else { assert(w[i] == ps[i]); assert(m0.contains_key(piece_key(w[i]))); }
                }
            }
            assert(map_is(ps, m)) by {
                assert forall|k: Seq<char>| m.contains_key(k) <==> exists|i: int| 0 <= i < ps.len() && piece_key(#[trigger] ps[i]) == k by {
                    if m.contains_key(k) {
                        if k == piece_key(last) { assert(piece_key(ps[ps.len() - 1]) == k); }
                        else { let i = choose|i: int| 0 <= i < w.len() && piece_key(#[trigger] w[i]) == k; assert(w[i] == ps[i]); }
                    }
                    if exists|i: int| 0 <= i < ps.len() && piece_key(#[trigger] ps[i]) == k {
                        let i = choose|i: int| 0 <= i < ps.len() && piece_key(#[trigger] ps[i]) == k;
                        if i < w.len() { assert(w[i] == ps[i]); assert(m0.contains_key(piece_key(w[i]))); }
                    }
                }
                assert forall|i: int| 0 <= i < ps.len() implies m.contains_key(piece_key(#[trigger] ps[i])) && m[piece_key(ps[i])] == piece_val(ps[i]) by {
                    if i < w.len() { assert(w[i] == ps[i]); assert(m0.contains_key(piece_key(w[i]))); assert(piece_key(ps[i]) != piece_key(ps[ps.len() - 1])); }
                }
            }
        }
    }
}

/// two maps with the same algorithms whose hex values agree up to ASCII case
pub open spec fn same_up_to_hex_case(m1: Map<Seq<char>, Seq<char>>, m2: Map<Seq<char>, Seq<char>>) -> bool {
    (forall|k: Seq<char>| m1.contains_key(k) <==> m2.contains_key(k))
    && (forall|k: Seq<char>| #[trigger] m1.contains_key(k) ==> lower_ascii_seq(m1[k]) == lower_ascii_seq(m2[k]))
}

pub proof fn lemma_hex_case(a: Seq<char>, b: Seq<char>)
    requires hex_ok(a), lower_ascii_seq(a) == lower_ascii_seq(b)
    ensures hex_ok(b)
{
    assert(a.len() == lower_ascii_seq(a).len() && b.len() == lower_ascii_seq(b).len());
    assert forall|i: int| 0 <= i < b.len() implies ascii_hex_c(#[trigger] b[i]) by {
        assert(ascii_hex_c(a[i]));
        assert(lower_ascii_seq(a)[i] == ascii_lower(a[i]));
        assert(lower_ascii_seq(b)[i] == ascii_lower(b[i]));
    }
}

pub open spec fn with_vals(es: VS, m: Map<Seq<char>, Seq<char>>) -> VS { es.map_values(|e: (Seq<char>, Seq<char>)| (e.0, m[e.0])) }

pub proof fn lemma_listing_text_vals(es: VS, m2: Map<Seq<char>, Seq<char>>)
    requires forall|i: int| 0 <= i < es.len() ==> lower_ascii_seq((#[trigger] es[i]).1) == lower_ascii_seq(m2[es[i].0])
    ensures listing_text(with_vals(es, m2)) == listing_text(es)
    decreases es.len()
{
    let es2 = with_vals(es, m2);
    if es.len() > 0 {
        assert(es2.last() == (es.last().0, m2[es.last().0]));
        assert(lower_ascii_seq(es[es.len() - 1].1) == lower_ascii_seq(m2[es[es.len() - 1].0]));
        if es.len() == 1 {
            assert(es2[0] == (es[0].0, m2[es[0].0]));
        } else {
            let w = es.drop_last();
            assert forall|i: int| 0 <= i < w.len() implies lower_ascii_seq((#[trigger] w[i]).1) == lower_ascii_seq(m2[w[i].0]) by { assert(w[i] == es[i]); }
            lemma_listing_text_vals(w, m2);
            assert(es2.drop_last() =~= with_vals(w, m2));
        }
    }
}

/// the canonical text depends on the algorithms and on the hex values up to ASCII case only
pub proof fn lemma_canon_text_hex_case(es: VS, m1: Map<Seq<char>, Seq<char>>, m2: Map<Seq<char>, Seq<char>>)
    requires is_listing(es, m1), sorted_by_key(es), same_up_to_hex_case(m1, m2), all_values_hex(m1)
    ensures canon_text(m2) == canon_text(m1), all_values_hex(m2)
{
    let es2 = with_vals(es, m2);
    lemma_canon_listing(es, m1);
    assert(is_listing(es2, m2)) by {
        reveal(is_listing);
        assert forall|i: int| 0 <= i < es2.len() implies m2.contains_key(#[trigger] es2[i].0) && m2[es2[i].0] == es2[i].1 by { assert(es2[i] == (es[i].0, m2[es[i].0])); assert(m1.contains_key(es[i].0)); }
        assert forall|i: int, j: int| 0 <= i < j < es2.len() implies #[trigger] es2[i].0 != #[trigger] es2[j].0 by { assert(es2[i].0 == es[i].0 && es2[j].0 == es[j].0); assert(es[i].0 != es[j].0); }
        assert forall|k: Seq<char>| m2.contains_key(k) implies exists|i: int| 0 <= i < es2.len() && #[trigger] es2[i].0 == k by {
            assert(m1.contains_key(k));
            let i = choose|i: int| 0 <= i < es.len() && #[trigger] es[i].0 == k;
            assert(es2[i].0 == k);
        }
    }
    assert(sorted_by_key(es2)) by {
        reveal(sorted_by_key);
        assert forall|i: int, j: int| 0 <= i < j < es2.len() implies str_lt(#[trigger] es2[i].0, #[trigger] es2[j].0) by { assert(es2[i].0 == es[i].0 && es2[j].0 == es[j].0); assert(str_lt(es[i].0, es[j].0)); }
    }
    lemma_canon_listing(es2, m2);
    assert forall|i: int| 0 <= i < es.len() implies lower_ascii_seq((#[trigger] es[i]).1) == lower_ascii_seq(m2[es[i].0]) by {
        reveal(is_listing);
        assert(m1.contains_key(es[i].0) && m1[es[i].0] == es[i].1);
    }
    lemma_listing_text_vals(es, m2);
    assert forall|k: Seq<char>| m2.contains_key(k) implies hex_ok(#[trigger] m2[k]) by { assert(m1.contains_key(k)); lemma_hex_case(m1[k], m2[k]); }
}

/// C12: two checksum texts whose entries are the same up to order, letter case of the algorithm names and letter case of the
/// hex digits -- if build() accepts the first it accepts the second and stores the SAME canonical text for both
pub proof fn theorem_checksum_spellings(x1: Seq<char>, x2: Seq<char>)
    requires
        ck_parse(x1) is Some, ck_text(ck_parse(x1)->Some_0) is Some,
        ({
            let ps1 = split_spec(x1, ','); let ps2 = split_spec(x2, ',');
            pieces_ok(ps2) && pieces_distinct(ps2)
            && (forall|i: int| 0 <= i < ps2.len() ==> exists|j: int| 0 <= j < ps1.len() && piece_key(#[trigger] ps2[i]) == piece_key(#[trigger] ps1[j])
                    && lower_ascii_seq(piece_val(ps2[i])) == lower_ascii_seq(piece_val(ps1[j])))
            && (forall|j: int| 0 <= j < ps1.len() ==> exists|i: int| 0 <= i < ps2.len() && piece_key(#[trigger] ps2[i]) == piece_key(#[trigger] ps1[j]))
        }),
    ensures ck_parse(x2) is Some, ck_text(ck_parse(x2)->Some_0) == ck_text(ck_parse(x1)->Some_0)
{
    let ps1 = split_spec(x1, ',');
    let ps2 = split_spec(x2, ',');
    lemma_ck_fold_char(ps1);
    lemma_ck_fold_char(ps2);
    let m1 = ck_parse(x1)->Some_0;
    let m2 = ck_parse(x2)->Some_0;
    assert(same_up_to_hex_case(m1, m2)) by {
        assert forall|k: Seq<char>| m1.contains_key(k) <==> m2.contains_key(k) by {
            if m1.contains_key(k) {
                let j = choose|j: int| 0 <= j < ps1.len() && piece_key(#[trigger] ps1[j]) == k;
                let i = choose|i: int| 0 <= i < ps2.len() && piece_key(#[trigger] ps2[i]) == piece_key(#[trigger] ps1[j]);
                assert(m2.contains_key(piece_key(ps2[i])));
            }
            if m2.contains_key(k) {
                let i = choose|i: int| 0 <= i < ps2.len() && piece_key(#[trigger] ps2[i]) == k;
                let j = choose|j: int| 0 <= j < ps1.len() && piece_key(#[trigger] ps2[i]) == piece_key(#[trigger] ps1[j])
                    && lower_ascii_seq(piece_val(ps2[i])) == lower_ascii_seq(piece_val(ps1[j]));
                assert(m1.contains_key(piece_key(ps1[j])));
            }
        }
        assert forall|k: Seq<char>| #[trigger] m1.contains_key(k) implies lower_ascii_seq(m1[k]) == lower_ascii_seq(m2[k]) by {
            assert(m2.contains_key(k));
            let i = choose|i: int| 0 <= i < ps2.len() && piece_key(#[trigger] ps2[i]) == k;
            let j = choose|j: int| 0 <= j < ps1.len() && piece_key(#[trigger] ps2[i]) == piece_key(#[trigger] ps1[j])
                && lower_ascii_seq(piece_val(ps2[i])) == lower_ascii_seq(piece_val(ps1[j]));
            assert(m1[piece_key(ps1[j])] == piece_val(ps1[j]));
            assert(m2[piece_key(ps2[i])] == piece_val(ps2[i]));
        }
    }
    lemma_split_pieces_no_sep(x1, ',');
    lemma_ck_fold_sorted_listing(ps1);
    let es = choose|es: VS| #![auto] is_listing(es, m1) && sorted_by_key(es) && keys_fixed(es) && es.len() == ps1.len();
    lemma_canon_text_hex_case(es, m1, m2);
}


// ---- consistency canary: must be REJECTED; if it verifies the assumptions are contradictory ----
pub proof fn verif_canary_must_fail()
{
    axiom_string_from(); broadcast use axiom_ascii_to_lower; axiom_utf8_len_ascii(seq!['a']); axiom_lower_no_comma('a');
    assert(false);
}
} // verus!
fn main() {}
