// GENERATED on every run by vlib/extract.py from /repo -- do not edit
#![allow(unused_imports, unused_variables, unused_mut, dead_code, unused_parens, unused_braces, non_snake_case)]
#![feature(allocator_api)]
use vstd::prelude::*;

verus! {

// ---- theory: base.rs ----
// Shared vocabulary. Strings are Seq<char>. Everything marked `uninterp` or `external_body` below is an
// ASSUMPTION about std / Unicode; each is listed in the trusted base and replayed against the real std by
// the A step (exhaustively per char, bounded per string).

pub type SmallString = String;   // R0: purl's own `#[cfg(not(feature = "smartstring"))] type SmallString = String;`

// ---- Unicode tables (uninterpreted) ----
pub uninterp spec fn u_to_lower(c: char) -> Seq<char>;      // char::to_lowercase, as a sequence

pub open spec fn is_ascii_c(c: char) -> bool { (c as u32) < 128 }
pub open spec fn ascii_upper_c(c: char) -> bool { 'A' <= c && c <= 'Z' }
pub open spec fn ascii_lower_c(c: char) -> bool { 'a' <= c && c <= 'z' }
pub open spec fn ascii_digit_c(c: char) -> bool { '0' <= c && c <= '9' }
pub open spec fn ascii_alnum_c(c: char) -> bool { ascii_upper_c(c) || ascii_lower_c(c) || ascii_digit_c(c) }
pub open spec fn ascii_hex_c(c: char) -> bool { ascii_digit_c(c) || ('a' <= c && c <= 'f') || ('A' <= c && c <= 'F') }
pub open spec fn ascii_lower(c: char) -> char { if ascii_upper_c(c) { ((c as u32 + 32) as char) } else { c } }

/// Unicode lower-casing of a string: each character replaced by its lower-case mapping (C08 wording).
pub open spec fn lower_seq(s: Seq<char>) -> Seq<char> decreases s.len()
{ if s.len() == 0 { seq![] } else { lower_seq(s.drop_last()) + u_to_lower(s.last()) } }

/// ASCII lower-casing (what make_ascii_lowercase / to_ascii_lowercase do).
pub open spec fn lower_ascii_seq(s: Seq<char>) -> Seq<char> { s.map_values(|c: char| ascii_lower(c)) }

pub open spec fn all_ascii_lower(s: Seq<char>) -> bool { forall|i: int| 0 <= i < s.len() ==> ascii_lower_c(#[trigger] s[i]) }

pub open spec fn has_char(s: Seq<char>, c: char) -> bool { exists|i: int| 0 <= i < s.len() && s[i] == c }

// A-validated fact (exhaustive over all 128 ASCII chars): on ASCII, Unicode lower-casing is ASCII lower-casing.
#[verifier::external_body]
pub broadcast proof fn axiom_ascii_to_lower(c: char)
    requires is_ascii_c(c)
    ensures #[trigger] u_to_lower(c) == seq![ascii_lower(c)]
{ }

// ---- char methods (assumed = their documented ASCII definitions; A: exhaustive over all scalar values) ----
pub assume_specification [char::is_ascii] (c: &char) -> (r: bool) ensures r == is_ascii_c(*c);
pub assume_specification [char::is_ascii_alphanumeric] (c: &char) -> (r: bool) ensures r == ascii_alnum_c(*c);
pub assume_specification [char::is_ascii_lowercase] (c: &char) -> (r: bool) ensures r == ascii_lower_c(*c);
pub assume_specification [char::is_ascii_hexdigit] (c: &char) -> (r: bool) ensures r == ascii_hex_c(*c);
pub assume_specification [char::is_ascii_uppercase] (c: &char) -> (r: bool) ensures r == ascii_upper_c(*c);
pub assume_specification [char::is_ascii_digit] (c: &char) -> (r: bool) ensures r == ascii_digit_c(*c);
pub assume_specification [char::is_ascii_alphabetic] (c: &char) -> (r: bool) ensures r == (ascii_upper_c(*c) || ascii_lower_c(*c));
pub assume_specification [char::to_ascii_lowercase] (c: &char) -> (r: char) ensures r == ascii_lower(*c);

/// byte length of the UTF-8 encoding (uninterpreted; only that it is a function of the text is used)
pub uninterp spec fn utf8_len(s: Seq<char>) -> nat;
pub assume_specification [String::len] (s: &String) -> (r: usize) ensures r == utf8_len(s@);

pub assume_specification [std::string::String::with_capacity] (n: usize) -> (r: String) ensures r@ == Seq::<char>::empty();

// ---- string wrappers (R3): body IS the original call; only the contract is assumed ----
#[verifier::external_body]
pub fn x_make_ascii_lowercase(s: &mut str)
    ensures final(s)@ == lower_ascii_seq(old(s)@)
{ s.make_ascii_lowercase() }

// `&mut String -> &mut str` deref coercion: same text, writes go through.
pub assume_specification [ <String as core::ops::DerefMut>::deref_mut ] (s: &mut String) -> (r: &mut str)
    ensures r@ == old(s)@, final(r)@ == final(s)@;

/// `<[char]>::contains`
#[verifier::external_body]
pub fn x_slice_contains(s: &[char], c: &char) -> (r: bool)
    ensures r == s@.contains(*c)
{ s.contains(c) }

#[verifier::external_body]
pub fn x_to_ascii_lowercase(s: &str) -> (r: String)
    ensures r@ == lower_ascii_seq(s@)
{ s.to_ascii_lowercase() }

/// `s.chars().flat_map(|c| c.to_lowercase()).collect()`
#[verifier::external_body]
pub fn x_lower_collect(s: &str) -> (r: String)
    ensures r@ == lower_seq(s@)
{ s.chars().flat_map(|c| c.to_lowercase()).collect() }

/// `c.to_lowercase().ne([c])`
#[verifier::external_body]
pub fn x_lower_changes(c: char) -> (r: bool)
    ensures r == (u_to_lower(c) != seq![c])
{ c.to_lowercase().ne([c]) }

/// `result.extend(c.to_lowercase())`
#[verifier::external_body]
pub fn x_extend_lower(s: &mut String, c: char)
    ensures final(s)@ == old(s)@ + u_to_lower(c)
{ s.extend(c.to_lowercase()) }

// String::from(&str) / String::from(String) / .into(): vstd ties From::from to FromSpec; the two instances used by
// purl (with SmallString = String) are assumed to copy / move the text.
#[verifier::external_body]
pub proof fn axiom_string_from()
    ensures
        <String as vstd::std_specs::convert::FromSpec<&str>>::obeys_from_spec(),
        forall|s: &str| (#[trigger] <String as vstd::std_specs::convert::FromSpec<&str>>::from_spec(s))@ == s@,
        <String as vstd::std_specs::convert::FromSpec<String>>::obeys_from_spec(),
        forall|s: String| (#[trigger] <String as vstd::std_specs::convert::FromSpec<String>>::from_spec(s)) == s,
{ }

// ---- lemmas over the vocabulary (proved) ----
pub proof fn lemma_lower_seq_identity(s: Seq<char>)
    requires forall|i: int| 0 <= i < s.len() ==> u_to_lower(#[trigger] s[i]) == seq![s[i]]
    ensures lower_seq(s) == s
    decreases s.len()
{
    if s.len() > 0 {
        lemma_lower_seq_identity(s.drop_last());
        assert(s.drop_last().push(s.last()) == s);
        assert(lower_seq(s) =~= s);
    }
}

pub proof fn lemma_lower_seq_ascii(s: Seq<char>)
    requires forall|i: int| 0 <= i < s.len() ==> (u_to_lower(#[trigger] s[i]) != seq![s[i]] ==> is_ascii_c(s[i]))
    ensures lower_seq(s) == lower_ascii_seq(s)
    decreases s.len()
{
    broadcast use axiom_ascii_to_lower;
    if s.len() > 0 {
        lemma_lower_seq_ascii(s.drop_last());
        let c = s.last();
        if is_ascii_c(c) {
            assert(u_to_lower(c) == seq![ascii_lower(c)]);
        } else {
            assert(u_to_lower(c) == seq![c]);
            assert(ascii_lower(c) == c);
        }
        assert(lower_ascii_seq(s.drop_last()) =~= lower_ascii_seq(s).drop_last());
        assert(lower_seq(s) =~= lower_ascii_seq(s));
    } else {
        assert(lower_seq(s) =~= lower_ascii_seq(s));
    }
}

pub proof fn lemma_lower_seq_push(s: Seq<char>, c: char)
    ensures lower_seq(s.push(c)) == lower_seq(s) + u_to_lower(c)
{
    assert(s.push(c).drop_last() == s);
}

pub proof fn lemma_lower_seq_take(s: Seq<char>, k: int)
    requires 0 <= k < s.len()
    ensures lower_seq(s.take(k + 1)) == lower_seq(s.take(k)) + u_to_lower(s[k])
{
    assert(s.take(k + 1).drop_last() == s.take(k));
}

// ---- trimming / splitting vocabulary (defined, so lemmas about it are proved) ----
pub open spec fn trim_start_spec(s: Seq<char>, c: char) -> Seq<char> decreases s.len()
{ if s.len() > 0 && s[0] == c { trim_start_spec(s.subrange(1, s.len() as int), c) } else { s } }
pub open spec fn trim_end_spec(s: Seq<char>, c: char) -> Seq<char> decreases s.len()
{ if s.len() > 0 && s.last() == c { trim_end_spec(s.drop_last(), c) } else { s } }
pub open spec fn trim_spec(s: Seq<char>, c: char) -> Seq<char> { trim_end_spec(trim_start_spec(s, c), c) }
pub open spec fn all_char(s: Seq<char>, c: char) -> bool { forall|i: int| 0 <= i < s.len() ==> #[trigger] s[i] == c }

/// `s.trim_matches(c)` for a char pattern
#[verifier::external_body]
pub fn x_trim_matches<'a>(s: &'a str, c: char) -> (r: &'a str)
    ensures r@ == trim_spec(s@, c)
{ s.trim_matches(c) }

/// `s.trim_start_matches(c)` for a char pattern
#[verifier::external_body]
pub fn x_trim_start_matches<'a>(s: &'a str, c: char) -> (r: &'a str)
    ensures r@ == trim_start_spec(s@, c)
{ s.trim_start_matches(c) }

/// `s.contains(set)` for a `&[char]` pattern
#[verifier::external_body]
pub fn x_str_contains_any(s: &str, set: &[char]) -> (r: bool)
    ensures r == exists|i: int| 0 <= i < s@.len() && set@.contains(#[trigger] s@[i])
{ s.contains(set) }

/// `s.contains(c)` for a char pattern
#[verifier::external_body]
pub fn x_str_contains_char(s: &str, c: char) -> (r: bool)
    ensures r == has_char(s@, c)
{ s.contains(c) }

pub proof fn lemma_trim_start_all(s: Seq<char>, c: char)
    ensures
        all_char(s, c) ==> trim_start_spec(s, c).len() == 0,
        !all_char(s, c) ==> trim_start_spec(s, c).len() > 0 && trim_start_spec(s, c)[0] != c && !all_char(trim_start_spec(s, c), c),
    decreases s.len()
{
    if s.len() > 0 && s[0] == c {
        let t = s.subrange(1, s.len() as int);
        lemma_trim_start_all(t, c);
        if all_char(s, c) {
            assert forall|i: int| 0 <= i < t.len() implies #[trigger] t[i] == c by { assert(t[i] == s[i + 1]); }
        } else {
            let j = choose|j: int| 0 <= j < s.len() && s[j] != c;
            assert(t[j - 1] == s[j]);
        }
    } else if s.len() > 0 {
        assert(s[0] != c);
    }
}

pub proof fn lemma_trim_end_all(s: Seq<char>, c: char)
    ensures
        all_char(s, c) ==> trim_end_spec(s, c).len() == 0,
        !all_char(s, c) ==> trim_end_spec(s, c).len() > 0,
    decreases s.len()
{
    if s.len() > 0 && s.last() == c {
        let t = s.drop_last();
        lemma_trim_end_all(t, c);
        if !all_char(s, c) {
            let j = choose|j: int| 0 <= j < s.len() && s[j] != c;
            assert(t[j] == s[j]);
        }
    } else if s.len() > 0 {
        assert(s[s.len() - 1] != c);
    }
}

/// trimming leaves nothing exactly when the string consists of the trimmed character only
pub proof fn lemma_trim_empty_iff_all(s: Seq<char>, c: char)
    ensures (trim_spec(s, c).len() == 0) == all_char(s, c)
{
    lemma_trim_start_all(s, c);
    lemma_trim_end_all(trim_start_spec(s, c), c);
}

pub proof fn lemma_lower_ascii_fixed(s: Seq<char>)
    requires forall|i: int| 0 <= i < s.len() ==> !ascii_upper_c(#[trigger] s[i])
    ensures lower_ascii_seq(s) == s
{
    assert(lower_ascii_seq(s) =~= s);
}

// ---- idempotence of lower-casing (C10, C12) ----
/// A-validated (exhaustive over all scalar values): lower-casing the lower-case mapping of a char changes nothing
#[verifier::external_body]
pub proof fn axiom_lower_idem_char(c: char)
    ensures lower_seq(u_to_lower(c)) == u_to_lower(c)
{ }

pub proof fn lemma_lower_seq_concat(a: Seq<char>, b: Seq<char>)
    ensures lower_seq(a + b) == lower_seq(a) + lower_seq(b)
    decreases b.len()
{
    if b.len() == 0 {
        assert(a + b =~= a);
        assert(lower_seq(a) + lower_seq(b) =~= lower_seq(a));
    } else {
        assert((a + b).drop_last() =~= a + b.drop_last());
        assert((a + b).last() == b.last());
        lemma_lower_seq_concat(a, b.drop_last());
        assert(lower_seq(a + b) =~= lower_seq(a) + lower_seq(b));
    }
}

/// lower-casing is a projection: applying it twice is applying it once
pub proof fn lemma_lower_seq_idem(s: Seq<char>)
    ensures lower_seq(lower_seq(s)) == lower_seq(s)
    decreases s.len()
{
    if s.len() > 0 {
        lemma_lower_seq_idem(s.drop_last());
        axiom_lower_idem_char(s.last());
        lemma_lower_seq_concat(lower_seq(s.drop_last()), u_to_lower(s.last()));
    }
}

// A-validated per char (exhaustive over all scalar values): lower-casing never yields the empty string
#[verifier::external_body]
pub proof fn axiom_lower_nonempty(c: char)
    ensures u_to_lower(c).len() > 0
{ }

// ---- unit T.wk.RepositoryUrl  <= purl/src/qualifiers/well_known.rs:28 ----
pub struct RepositoryUrl<'a>(pub &'a str);
// ---- unit U-wk.RepositoryUrl.as_ref  <= purl/src/qualifiers/well_known.rs:31 ----
pub fn wk_repositoryurl_as_ref<'a>(this: &RepositoryUrl<'a>) -> (r: &'a str)
    ensures r@ == this.0@
{
                this.0
            }
// ---- unit U-wk.RepositoryUrl.into_str  <= purl/src/qualifiers/well_known.rs:37 ----
pub fn wk_repositoryurl_into_str<'a>(value: RepositoryUrl<'a>) -> (r: &'a str)
    ensures r@ == value.0@
{
                value.0
            }
// ---- unit U-wk.RepositoryUrl.from_str  <= purl/src/qualifiers/well_known.rs:43 ----
pub fn wk_repositoryurl_from_str<'a>(value: &'a str) -> (r: RepositoryUrl<'a>)
    ensures r.0@ == value@
{
                RepositoryUrl(value)
            }
// ---- unit U-wk.RepositoryUrl.into_string  <= purl/src/qualifiers/well_known.rs:49 ----
pub fn wk_repositoryurl_into_string<'a>(value: RepositoryUrl<'a>) -> (r: SmallString)
    ensures r@ == value.0@
{
    proof { axiom_string_from(); }

                SmallString::from(wk_repositoryurl_into_str(value))
            }
// ---- unit U-wk.RepositoryUrl.deref  <= purl/src/qualifiers/well_known.rs:57 ----
pub fn wk_repositoryurl_deref<'a>(this: &RepositoryUrl<'a>) -> (r: &'a str)
    ensures r@ == this.0@
{
                this.0
            }
// ---- unit T.wk.DownloadUrl  <= purl/src/qualifiers/well_known.rs:28 ----
pub struct DownloadUrl<'a>(pub &'a str);
// ---- unit U-wk.DownloadUrl.as_ref  <= purl/src/qualifiers/well_known.rs:31 ----
pub fn wk_downloadurl_as_ref<'a>(this: &DownloadUrl<'a>) -> (r: &'a str)
    ensures r@ == this.0@
{
                this.0
            }
// ---- unit U-wk.DownloadUrl.into_str  <= purl/src/qualifiers/well_known.rs:37 ----
pub fn wk_downloadurl_into_str<'a>(value: DownloadUrl<'a>) -> (r: &'a str)
    ensures r@ == value.0@
{
                value.0
            }
// ---- unit U-wk.DownloadUrl.from_str  <= purl/src/qualifiers/well_known.rs:43 ----
pub fn wk_downloadurl_from_str<'a>(value: &'a str) -> (r: DownloadUrl<'a>)
    ensures r.0@ == value@
{
                DownloadUrl(value)
            }
// ---- unit U-wk.DownloadUrl.into_string  <= purl/src/qualifiers/well_known.rs:49 ----
pub fn wk_downloadurl_into_string<'a>(value: DownloadUrl<'a>) -> (r: SmallString)
    ensures r@ == value.0@
{
    proof { axiom_string_from(); }

                SmallString::from(wk_downloadurl_into_str(value))
            }
// ---- unit U-wk.DownloadUrl.deref  <= purl/src/qualifiers/well_known.rs:57 ----
pub fn wk_downloadurl_deref<'a>(this: &DownloadUrl<'a>) -> (r: &'a str)
    ensures r@ == this.0@
{
                this.0
            }
// ---- unit T.wk.VcsUrl  <= purl/src/qualifiers/well_known.rs:28 ----
pub struct VcsUrl<'a>(pub &'a str);
// ---- unit U-wk.VcsUrl.as_ref  <= purl/src/qualifiers/well_known.rs:31 ----
pub fn wk_vcsurl_as_ref<'a>(this: &VcsUrl<'a>) -> (r: &'a str)
    ensures r@ == this.0@
{
                this.0
            }
// ---- unit U-wk.VcsUrl.into_str  <= purl/src/qualifiers/well_known.rs:37 ----
pub fn wk_vcsurl_into_str<'a>(value: VcsUrl<'a>) -> (r: &'a str)
    ensures r@ == value.0@
{
                value.0
            }
// ---- unit U-wk.VcsUrl.from_str  <= purl/src/qualifiers/well_known.rs:43 ----
pub fn wk_vcsurl_from_str<'a>(value: &'a str) -> (r: VcsUrl<'a>)
    ensures r.0@ == value@
{
                VcsUrl(value)
            }
// ---- unit U-wk.VcsUrl.into_string  <= purl/src/qualifiers/well_known.rs:49 ----
pub fn wk_vcsurl_into_string<'a>(value: VcsUrl<'a>) -> (r: SmallString)
    ensures r@ == value.0@
{
    proof { axiom_string_from(); }

                SmallString::from(wk_vcsurl_into_str(value))
            }
// ---- unit U-wk.VcsUrl.deref  <= purl/src/qualifiers/well_known.rs:57 ----
pub fn wk_vcsurl_deref<'a>(this: &VcsUrl<'a>) -> (r: &'a str)
    ensures r@ == this.0@
{
                this.0
            }
// ---- unit T.wk.FileName  <= purl/src/qualifiers/well_known.rs:28 ----
pub struct FileName<'a>(pub &'a str);
// ---- unit U-wk.FileName.as_ref  <= purl/src/qualifiers/well_known.rs:31 ----
pub fn wk_filename_as_ref<'a>(this: &FileName<'a>) -> (r: &'a str)
    ensures r@ == this.0@
{
                this.0
            }
// ---- unit U-wk.FileName.into_str  <= purl/src/qualifiers/well_known.rs:37 ----
pub fn wk_filename_into_str<'a>(value: FileName<'a>) -> (r: &'a str)
    ensures r@ == value.0@
{
                value.0
            }
// ---- unit U-wk.FileName.from_str  <= purl/src/qualifiers/well_known.rs:43 ----
pub fn wk_filename_from_str<'a>(value: &'a str) -> (r: FileName<'a>)
    ensures r.0@ == value@
{
                FileName(value)
            }
// ---- unit U-wk.FileName.into_string  <= purl/src/qualifiers/well_known.rs:49 ----
pub fn wk_filename_into_string<'a>(value: FileName<'a>) -> (r: SmallString)
    ensures r@ == value.0@
{
    proof { axiom_string_from(); }

                SmallString::from(wk_filename_into_str(value))
            }
// ---- unit U-wk.FileName.deref  <= purl/src/qualifiers/well_known.rs:57 ----
pub fn wk_filename_deref<'a>(this: &FileName<'a>) -> (r: &'a str)
    ensures r@ == this.0@
{
                this.0
            }
// ---- unit T.wk.Platform  <= purl/src/qualifiers/well_known.rs:28 ----
pub struct Platform<'a>(pub &'a str);
// ---- unit U-wk.Platform.as_ref  <= purl/src/qualifiers/well_known.rs:31 ----
pub fn wk_platform_as_ref<'a>(this: &Platform<'a>) -> (r: &'a str)
    ensures r@ == this.0@
{
                this.0
            }
// ---- unit U-wk.Platform.into_str  <= purl/src/qualifiers/well_known.rs:37 ----
pub fn wk_platform_into_str<'a>(value: Platform<'a>) -> (r: &'a str)
    ensures r@ == value.0@
{
                value.0
            }
// ---- unit U-wk.Platform.from_str  <= purl/src/qualifiers/well_known.rs:43 ----
pub fn wk_platform_from_str<'a>(value: &'a str) -> (r: Platform<'a>)
    ensures r.0@ == value@
{
                Platform(value)
            }
// ---- unit U-wk.Platform.into_string  <= purl/src/qualifiers/well_known.rs:49 ----
pub fn wk_platform_into_string<'a>(value: Platform<'a>) -> (r: SmallString)
    ensures r@ == value.0@
{
    proof { axiom_string_from(); }

                SmallString::from(wk_platform_into_str(value))
            }
// ---- unit U-wk.Platform.deref  <= purl/src/qualifiers/well_known.rs:57 ----
pub fn wk_platform_deref<'a>(this: &Platform<'a>) -> (r: &'a str)
    ensures r@ == this.0@
{
                this.0
            }
// ---- unit T.wk.Classifier  <= purl/src/qualifiers/well_known.rs:28 ----
pub struct Classifier<'a>(pub &'a str);
// ---- unit U-wk.Classifier.as_ref  <= purl/src/qualifiers/well_known.rs:31 ----
pub fn wk_classifier_as_ref<'a>(this: &Classifier<'a>) -> (r: &'a str)
    ensures r@ == this.0@
{
                this.0
            }
// ---- unit U-wk.Classifier.into_str  <= purl/src/qualifiers/well_known.rs:37 ----
pub fn wk_classifier_into_str<'a>(value: Classifier<'a>) -> (r: &'a str)
    ensures r@ == value.0@
{
                value.0
            }
// ---- unit U-wk.Classifier.from_str  <= purl/src/qualifiers/well_known.rs:43 ----
pub fn wk_classifier_from_str<'a>(value: &'a str) -> (r: Classifier<'a>)
    ensures r.0@ == value@
{
                Classifier(value)
            }
// ---- unit U-wk.Classifier.into_string  <= purl/src/qualifiers/well_known.rs:49 ----
pub fn wk_classifier_into_string<'a>(value: Classifier<'a>) -> (r: SmallString)
    ensures r@ == value.0@
{
    proof { axiom_string_from(); }

                SmallString::from(wk_classifier_into_str(value))
            }
// ---- unit U-wk.Classifier.deref  <= purl/src/qualifiers/well_known.rs:57 ----
pub fn wk_classifier_deref<'a>(this: &Classifier<'a>) -> (r: &'a str)
    ensures r@ == this.0@
{
                this.0
            }
// ---- unit T.wk.Type  <= purl/src/qualifiers/well_known.rs:28 ----
pub struct Type<'a>(pub &'a str);
// ---- unit U-wk.Type.as_ref  <= purl/src/qualifiers/well_known.rs:31 ----
pub fn wk_type_as_ref<'a>(this: &Type<'a>) -> (r: &'a str)
    ensures r@ == this.0@
{
                this.0
            }
// ---- unit U-wk.Type.into_str  <= purl/src/qualifiers/well_known.rs:37 ----
pub fn wk_type_into_str<'a>(value: Type<'a>) -> (r: &'a str)
    ensures r@ == value.0@
{
                value.0
            }
// ---- unit U-wk.Type.from_str  <= purl/src/qualifiers/well_known.rs:43 ----
pub fn wk_type_from_str<'a>(value: &'a str) -> (r: Type<'a>)
    ensures r.0@ == value@
{
                Type(value)
            }
// ---- unit U-wk.Type.into_string  <= purl/src/qualifiers/well_known.rs:49 ----
pub fn wk_type_into_string<'a>(value: Type<'a>) -> (r: SmallString)
    ensures r@ == value.0@
{
    proof { axiom_string_from(); }

                SmallString::from(wk_type_into_str(value))
            }
// ---- unit U-wk.Type.deref  <= purl/src/qualifiers/well_known.rs:57 ----
pub fn wk_type_deref<'a>(this: &Type<'a>) -> (r: &'a str)
    ensures r@ == this.0@
{
                this.0
            }

// ---- consistency canary: must be REJECTED; if it verifies the assumptions are contradictory ----
pub proof fn verif_canary_must_fail()
{
    axiom_string_from();
    assert(false);
}
} // verus!
fn main() {}
