// GENERATED on every run by vlib/extract.py from /repo -- do not edit
#![allow(unused_imports, unused_variables, unused_mut, dead_code, unused_parens, unused_braces, non_snake_case)]
#![feature(allocator_api)]
use vstd::prelude::*;
use core::cmp::Ordering;
verus! {

// ---- theory: base.rs ----
// Shared vocabulary. Strings are Seq<char>. Everything marked `uninterp` or `external_body` below is an
// ASSUMPTION about std / Unicode; each is listed in the trusted base and replayed against the real std by
// the A step (exhaustively per char, bounded per string).

pub type SmallString = String;   // R0: purl's own `#[cfg(not(feature = "smartstring"))] type SmallString = String;`

// ---- Unicode tables (uninterpreted) ----
pub uninterp spec fn u_to_lower(c: char) -> Seq<char>;      // char::to_lowercase, as a sequence

pub open spec fn is_ascii_c(c: char) -> bool { (c as u32) < 128 }
pub open spec fn ascii_upper_c(c: char) -> bool { 'A' <= c && c <= 'Z' }
pub open spec fn ascii_lower_c(c: char) -> bool { 'a' <= c && c <= 'z' }
pub open spec fn ascii_digit_c(c: char) -> bool { '0' <= c && c <= '9' }
pub open spec fn ascii_alnum_c(c: char) -> bool { ascii_upper_c(c) || ascii_lower_c(c) || ascii_digit_c(c) }
pub open spec fn ascii_hex_c(c: char) -> bool { ascii_digit_c(c) || ('a' <= c && c <= 'f') || ('A' <= c && c <= 'F') }
pub open spec fn ascii_lower(c: char) -> char { if ascii_upper_c(c) { ((c as u32 + 32) as char) } else { c } }

/// Unicode lower-casing of a string: each character replaced by its lower-case mapping (C08 wording).
pub open spec fn lower_seq(s: Seq<char>) -> Seq<char> decreases s.len()
{ if s.len() == 0 { seq![] } else { lower_seq(s.drop_last()) + u_to_lower(s.last()) } }

/// ASCII lower-casing (what make_ascii_lowercase / to_ascii_lowercase do).
pub open spec fn lower_ascii_seq(s: Seq<char>) -> Seq<char> { s.map_values(|c: char| ascii_lower(c)) }

pub open spec fn all_ascii_lower(s: Seq<char>) -> bool { forall|i: int| 0 <= i < s.len() ==> ascii_lower_c(#[trigger] s[i]) }

pub open spec fn has_char(s: Seq<char>, c: char) -> bool { exists|i: int| 0 <= i < s.len() && s[i] == c }

// A-validated fact (exhaustive over all 128 ASCII chars): on ASCII, Unicode lower-casing is ASCII lower-casing.
#[verifier::external_body]
pub broadcast proof fn axiom_ascii_to_lower(c: char)
    requires is_ascii_c(c)
    ensures #[trigger] u_to_lower(c) == seq![ascii_lower(c)]
{ }

// ---- char methods (assumed = their documented ASCII definitions; A: exhaustive over all scalar values) ----
pub assume_specification [char::is_ascii] (c: &char) -> (r: bool) ensures r == is_ascii_c(*c);
pub assume_specification [char::is_ascii_alphanumeric] (c: &char) -> (r: bool) ensures r == ascii_alnum_c(*c);
pub assume_specification [char::is_ascii_lowercase] (c: &char) -> (r: bool) ensures r == ascii_lower_c(*c);
pub assume_specification [char::is_ascii_hexdigit] (c: &char) -> (r: bool) ensures r == ascii_hex_c(*c);
pub assume_specification [char::is_ascii_uppercase] (c: &char) -> (r: bool) ensures r == ascii_upper_c(*c);
pub assume_specification [char::is_ascii_digit] (c: &char) -> (r: bool) ensures r == ascii_digit_c(*c);
pub assume_specification [char::is_ascii_alphabetic] (c: &char) -> (r: bool) ensures r == (ascii_upper_c(*c) || ascii_lower_c(*c));
pub assume_specification [char::to_ascii_lowercase] (c: &char) -> (r: char) ensures r == ascii_lower(*c);

/// byte length of the UTF-8 encoding (uninterpreted; only that it is a function of the text is used)
pub uninterp spec fn utf8_len(s: Seq<char>) -> nat;
pub assume_specification [String::len] (s: &String) -> (r: usize) ensures r == utf8_len(s@);

pub assume_specification [std::string::String::with_capacity] (n: usize) -> (r: String) ensures r@ == Seq::<char>::empty();

// ---- string wrappers (R3): body IS the original call; only the contract is assumed ----
#[verifier::external_body]
pub fn x_make_ascii_lowercase(s: &mut str)
    ensures final(s)@ == lower_ascii_seq(old(s)@)
{ s.make_ascii_lowercase() }

// `&mut String -> &mut str` deref coercion: same text, writes go through.
pub assume_specification [ <String as core::ops::DerefMut>::deref_mut ] (s: &mut String) -> (r: &mut str)
    ensures r@ == old(s)@, final(r)@ == final(s)@;

/// `<[char]>::contains`
#[verifier::external_body]
pub fn x_slice_contains(s: &[char], c: &char) -> (r: bool)
    ensures r == s@.contains(*c)
{ s.contains(c) }

#[verifier::external_body]
pub fn x_to_ascii_lowercase(s: &str) -> (r: String)
    ensures r@ == lower_ascii_seq(s@)
{ s.to_ascii_lowercase() }

/// `s.chars().flat_map(|c| c.to_lowercase()).collect()`
#[verifier::external_body]
pub fn x_lower_collect(s: &str) -> (r: String)
    ensures r@ == lower_seq(s@)
{ s.chars().flat_map(|c| c.to_lowercase()).collect() }

/// `c.to_lowercase().ne([c])`
#[verifier::external_body]
pub fn x_lower_changes(c: char) -> (r: bool)
    ensures r == (u_to_lower(c) != seq![c])
{ c.to_lowercase().ne([c]) }

/// `result.extend(c.to_lowercase())`
#[verifier::external_body]
pub fn x_extend_lower(s: &mut String, c: char)
    ensures final(s)@ == old(s)@ + u_to_lower(c)
{ s.extend(c.to_lowercase()) }

// String::from(&str) / String::from(String) / .into(): vstd ties From::from to FromSpec; the two instances used by
// purl (with SmallString = String) are assumed to copy / move the text.
#[verifier::external_body]
pub proof fn axiom_string_from()
    ensures
        <String as vstd::std_specs::convert::FromSpec<&str>>::obeys_from_spec(),
        forall|s: &str| (#[trigger] <String as vstd::std_specs::convert::FromSpec<&str>>::from_spec(s))@ == s@,
        <String as vstd::std_specs::convert::FromSpec<String>>::obeys_from_spec(),
        forall|s: String| (#[trigger] <String as vstd::std_specs::convert::FromSpec<String>>::from_spec(s)) == s,
{ }

// ---- lemmas over the vocabulary (proved) ----
pub proof fn lemma_lower_seq_identity(s: Seq<char>)
    requires forall|i: int| 0 <= i < s.len() ==> u_to_lower(#[trigger] s[i]) == seq![s[i]]
    ensures lower_seq(s) == s
    decreases s.len()
{
    if s.len() > 0 {
        lemma_lower_seq_identity(s.drop_last());
        assert(s.drop_last().push(s.last()) == s);
        assert(lower_seq(s) =~= s);
    }
}

pub proof fn lemma_lower_seq_ascii(s: Seq<char>)
    requires forall|i: int| 0 <= i < s.len() ==> (u_to_lower(#[trigger] s[i]) != seq![s[i]] ==> is_ascii_c(s[i]))
    ensures lower_seq(s) == lower_ascii_seq(s)
    decreases s.len()
{
    broadcast use axiom_ascii_to_lower;
    if s.len() > 0 {
        lemma_lower_seq_ascii(s.drop_last());
        let c = s.last();
        if is_ascii_c(c) {
            assert(u_to_lower(c) == seq![ascii_lower(c)]);
        } else {
            assert(u_to_lower(c) == seq![c]);
            assert(ascii_lower(c) == c);
        }
        assert(lower_ascii_seq(s.drop_last()) =~= lower_ascii_seq(s).drop_last());
        assert(lower_seq(s) =~= lower_ascii_seq(s));
    } else {
        assert(lower_seq(s) =~= lower_ascii_seq(s));
    }
}

pub proof fn lemma_lower_seq_push(s: Seq<char>, c: char)
    ensures lower_seq(s.push(c)) == lower_seq(s) + u_to_lower(c)
{
    assert(s.push(c).drop_last() == s);
}

pub proof fn lemma_lower_seq_take(s: Seq<char>, k: int)
    requires 0 <= k < s.len()
    ensures lower_seq(s.take(k + 1)) == lower_seq(s.take(k)) + u_to_lower(s[k])
{
    assert(s.take(k + 1).drop_last() == s.take(k));
}

// ---- trimming / splitting vocabulary (defined, so lemmas about it are proved) ----
pub open spec fn trim_start_spec(s: Seq<char>, c: char) -> Seq<char> decreases s.len()
{ if s.len() > 0 && s[0] == c { trim_start_spec(s.subrange(1, s.len() as int), c) } else { s } }
pub open spec fn trim_end_spec(s: Seq<char>, c: char) -> Seq<char> decreases s.len()
{ if s.len() > 0 && s.last() == c { trim_end_spec(s.drop_last(), c) } else { s } }
pub open spec fn trim_spec(s: Seq<char>, c: char) -> Seq<char> { trim_end_spec(trim_start_spec(s, c), c) }
pub open spec fn all_char(s: Seq<char>, c: char) -> bool { forall|i: int| 0 <= i < s.len() ==> #[trigger] s[i] == c }

/// `s.trim_matches(c)` for a char pattern
#[verifier::external_body]
pub fn x_trim_matches<'a>(s: &'a str, c: char) -> (r: &'a str)
    ensures r@ == trim_spec(s@, c)
{ s.trim_matches(c) }

/// `s.trim_start_matches(c)` for a char pattern
#[verifier::external_body]
pub fn x_trim_start_matches<'a>(s: &'a str, c: char) -> (r: &'a str)
    ensures r@ == trim_start_spec(s@, c)
{ s.trim_start_matches(c) }

/// `s.contains(set)` for a `&[char]` pattern
#[verifier::external_body]
pub fn x_str_contains_any(s: &str, set: &[char]) -> (r: bool)
    ensures r == exists|i: int| 0 <= i < s@.len() && set@.contains(#[trigger] s@[i])
{ s.contains(set) }

/// `s.contains(c)` for a char pattern
#[verifier::external_body]
pub fn x_str_contains_char(s: &str, c: char) -> (r: bool)
    ensures r == has_char(s@, c)
{ s.contains(c) }

pub proof fn lemma_trim_start_all(s: Seq<char>, c: char)
    ensures
        all_char(s, c) ==> trim_start_spec(s, c).len() == 0,
        !all_char(s, c) ==> trim_start_spec(s, c).len() > 0 && trim_start_spec(s, c)[0] != c && !all_char(trim_start_spec(s, c), c),
    decreases s.len()
{
    if s.len() > 0 && s[0] == c {
        let t = s.subrange(1, s.len() as int);
        lemma_trim_start_all(t, c);
        if all_char(s, c) {
            assert forall|i: int| 0 <= i < t.len() implies #[trigger] t[i] == c by { assert(t[i] == s[i + 1]); }
        } else {
            let j = choose|j: int| 0 <= j < s.len() && s[j] != c;
            assert(t[j - 1] == s[j]);
        }
    } else if s.len() > 0 {
        assert(s[0] != c);
    }
}

pub proof fn lemma_trim_end_all(s: Seq<char>, c: char)
    ensures
        all_char(s, c) ==> trim_end_spec(s, c).len() == 0,
        !all_char(s, c) ==> trim_end_spec(s, c).len() > 0,
    decreases s.len()
{
    if s.len() > 0 && s.last() == c {
        let t = s.drop_last();
        lemma_trim_end_all(t, c);
        if !all_char(s, c) {
            let j = choose|j: int| 0 <= j < s.len() && s[j] != c;
            assert(t[j] == s[j]);
        }
    } else if s.len() > 0 {
        assert(s[s.len() - 1] != c);
    }
}

/// trimming leaves nothing exactly when the string consists of the trimmed character only
pub proof fn lemma_trim_empty_iff_all(s: Seq<char>, c: char)
    ensures (trim_spec(s, c).len() == 0) == all_char(s, c)
{
    lemma_trim_start_all(s, c);
    lemma_trim_end_all(trim_start_spec(s, c), c);
}

pub proof fn lemma_lower_ascii_fixed(s: Seq<char>)
    requires forall|i: int| 0 <= i < s.len() ==> !ascii_upper_c(#[trigger] s[i])
    ensures lower_ascii_seq(s) == s
{
    assert(lower_ascii_seq(s) =~= s);
}

// ---- idempotence of lower-casing (C10, C12) ----
/// A-validated (exhaustive over all scalar values): lower-casing the lower-case mapping of a char changes nothing
#[verifier::external_body]
pub proof fn axiom_lower_idem_char(c: char)
    ensures lower_seq(u_to_lower(c)) == u_to_lower(c)
{ }

pub proof fn lemma_lower_seq_concat(a: Seq<char>, b: Seq<char>)
    ensures lower_seq(a + b) == lower_seq(a) + lower_seq(b)
    decreases b.len()
{
    if b.len() == 0 {
        assert(a + b =~= a);
        assert(lower_seq(a) + lower_seq(b) =~= lower_seq(a));
    } else {
        assert((a + b).drop_last() =~= a + b.drop_last());
        assert((a + b).last() == b.last());
        lemma_lower_seq_concat(a, b.drop_last());
        assert(lower_seq(a + b) =~= lower_seq(a) + lower_seq(b));
    }
}

/// lower-casing is a projection: applying it twice is applying it once
pub proof fn lemma_lower_seq_idem(s: Seq<char>)
    ensures lower_seq(lower_seq(s)) == lower_seq(s)
    decreases s.len()
{
    if s.len() > 0 {
        lemma_lower_seq_idem(s.drop_last());
        axiom_lower_idem_char(s.last());
        lemma_lower_seq_concat(lower_seq(s.drop_last()), u_to_lower(s.last()));
    }
}

// A-validated per char (exhaustive over all scalar values): lower-casing never yields the empty string
#[verifier::external_body]
pub proof fn axiom_lower_nonempty(c: char)
    ensures u_to_lower(c).len() > 0
{ }

// ---- theory: split.rs ----
// ---- splitting vocabulary (defined recursively, so the lemmas below are proved, not assumed) ----
pub open spec fn last_index_of(s: Seq<char>, c: char) -> int decreases s.len()
{ if s.len() == 0 { -1 } else if s.last() == c { s.len() - 1 } else { last_index_of(s.drop_last(), c) } }

pub open spec fn first_index_of(s: Seq<char>, c: char) -> int decreases s.len()
{ if s.len() == 0 { -1 } else if s[0] == c { 0 } else { let r = first_index_of(s.subrange(1, s.len() as int), c); if r < 0 { -1 } else { r + 1 } } }

pub proof fn lemma_last_index(s: Seq<char>, c: char)
    ensures
        has_char(s, c) <==> last_index_of(s, c) >= 0,
        last_index_of(s, c) >= 0 ==> last_index_of(s, c) < s.len() && s[last_index_of(s, c)] == c
            && forall|j: int| last_index_of(s, c) < j < s.len() ==> s[j] != c,
        last_index_of(s, c) >= -1,
    decreases s.len()
{
    if s.len() > 0 {
        let t = s.drop_last();
        lemma_last_index(t, c);
        if s.last() == c { assert(s[s.len() - 1] == c); }
        else {
            if has_char(s, c) { let i = choose|i: int| 0 <= i < s.len() && s[i] == c; assert(t[i] == c); }
            if has_char(t, c) { let i = choose|i: int| 0 <= i < t.len() && t[i] == c; assert(s[i] == c); }
            assert forall|j: int| last_index_of(s, c) < j < s.len() && last_index_of(s, c) >= 0 implies s[j] != c by {
                if j < t.len() { assert(t[j] == s[j]); }
            }
        }
    }
}

pub proof fn lemma_first_index(s: Seq<char>, c: char)
    ensures
        has_char(s, c) <==> first_index_of(s, c) >= 0,
        first_index_of(s, c) >= 0 ==> first_index_of(s, c) < s.len() && s[first_index_of(s, c)] == c
            && forall|j: int| 0 <= j < first_index_of(s, c) ==> s[j] != c,
        first_index_of(s, c) >= -1,
    decreases s.len()
{
    if s.len() > 0 {
        let t = s.subrange(1, s.len() as int);
        lemma_first_index(t, c);
        if s[0] == c { }
        else {
            if has_char(s, c) { let i = choose|i: int| 0 <= i < s.len() && s[i] == c; assert(t[i - 1] == c); }
            if has_char(t, c) { let i = choose|i: int| 0 <= i < t.len() && t[i] == c; assert(s[i + 1] == c); }
            if first_index_of(s, c) >= 0 {
                assert(s[first_index_of(t, c) + 1] == t[first_index_of(t, c)]);
                assert forall|j: int| 0 <= j < first_index_of(s, c) implies s[j] != c by {
                    if j > 0 { assert(t[j - 1] == s[j]); }
                }
            }
        }
    }
}

/// joining `ns`, separator, `name` and splitting at the LAST separator gives the pieces back when `name` has none
pub proof fn lemma_rsplit_join(ns: Seq<char>, name: Seq<char>, c: char)
    requires !has_char(name, c)
    ensures last_index_of(ns + seq![c] + name, c) == ns.len()
    decreases name.len()
{
    let s = ns + seq![c] + name;
    if name.len() == 0 {
        assert(s.last() == c);
    } else {
        assert(s.last() == name.last());
        assert(name[name.len() - 1] != c);
        assert(s.drop_last() =~= ns + seq![c] + name.drop_last());
        assert forall|i: int| 0 <= i < name.drop_last().len() implies name.drop_last()[i] != c by { assert(name[i] != c); }
        lemma_rsplit_join(ns, name.drop_last(), c);
    }
}

/// ... and at the FIRST separator when `ns` has none
pub proof fn lemma_split_join(ns: Seq<char>, name: Seq<char>, c: char)
    requires !has_char(ns, c)
    ensures first_index_of(ns + seq![c] + name, c) == ns.len()
    decreases ns.len()
{
    let s = ns + seq![c] + name;
    if ns.len() == 0 {
        assert(s[0] == c);
    } else {
        assert(s[0] == ns[0]);
        assert(ns[0] != c);
        let ns1 = ns.subrange(1, ns.len() as int);
        assert(s.subrange(1, s.len() as int) =~= ns1 + seq![c] + name);
        assert forall|i: int| 0 <= i < ns1.len() implies ns1[i] != c by { assert(ns[i + 1] != c); }
        lemma_split_join(ns1, name, c);
    }
}

/// `s.rsplit_once(c)` for a char pattern
#[verifier::external_body]
pub fn x_rsplit_once<'a>(s: &'a str, c: char) -> (r: Option<(&'a str, &'a str)>)
    ensures match r {
        None => last_index_of(s@, c) < 0,
        Some((a, b)) => last_index_of(s@, c) >= 0 && a@ == s@.subrange(0, last_index_of(s@, c))
            && b@ == s@.subrange(last_index_of(s@, c) + 1, s@.len() as int),
    }
{ s.rsplit_once(c) }

/// `s.split_once(c)` for a char pattern
#[verifier::external_body]
pub fn x_split_once<'a>(s: &'a str, c: char) -> (r: Option<(&'a str, &'a str)>)
    ensures match r {
        None => first_index_of(s@, c) < 0,
        Some((a, b)) => first_index_of(s@, c) >= 0 && a@ == s@.subrange(0, first_index_of(s@, c))
            && b@ == s@.subrange(first_index_of(s@, c) + 1, s@.len() as int),
    }
{ s.split_once(c) }

/// `Some(s).filter(|v| !v.is_empty())`
#[verifier::external_body]
pub fn x_some_nonempty<'a>(s: &'a str) -> (r: Option<&'a str>)
    ensures s@.len() == 0 ==> r is None, s@.len() > 0 ==> r is Some && r->Some_0@ == s@
{ Some(s).filter(|v| !v.is_empty()) }

/// `format!("{}<sep>{}", a, b)` for a one-character literal separator
#[verifier::external_body]
pub fn x_concat3(a: &str, sep: char, b: &str) -> (r: String)
    ensures r@ == a@ + seq![sep] + b@
{ let mut r = String::from(a); r.push(sep); r.push_str(b); r }

/// pieces between raw occurrences of `c`
pub open spec fn split_spec(s: Seq<char>, c: char) -> Seq<Seq<char>> decreases s.len()
{
    if first_index_of(s, c) < 0 || first_index_of(s, c) >= s.len() { seq![s] }
    else { seq![s.subrange(0, first_index_of(s, c))] + split_spec(s.subrange(first_index_of(s, c) + 1, s.len() as int), c) }
}


/// `s.split(c)` for a char pattern, collected (the loop below iterates over the collected pieces)
#[verifier::external_body]
pub fn x_split<'a>(s: &'a str, c: char) -> (r: Vec<&'a str>)
    ensures r@.len() == split_spec(s@, c).len(), forall|i: int| 0 <= i < r@.len() ==> (#[trigger] r@[i])@ == split_spec(s@, c)[i]
{ s.split(c).collect() }


// ---- generic facts about has_char (used by the inverse and checksum theories) ----
pub proof fn lemma_has_char_concat(a: Seq<char>, b: Seq<char>, c: char)
    ensures has_char(a + b, c) == (has_char(a, c) || has_char(b, c))
{
    if has_char(a, c) { let i = choose|i: int| 0 <= i < a.len() && a[i] == c; assert((a + b)[i] == c); }
    if has_char(b, c) { let i = choose|i: int| 0 <= i < b.len() && b[i] == c; assert((a + b)[a.len() + i] == c); }
    if has_char(a + b, c) {
        let i = choose|i: int| 0 <= i < (a + b).len() && (a + b)[i] == c;
        if i < a.len() { assert(a[i] == c); } else { assert(b[i - a.len()] == c); }
    }
}


pub proof fn lemma_single_excludes(c: char, x: char)
    requires c != x
    ensures !has_char(seq![c], x)
{
    if has_char(seq![c], x) { let i = choose|i: int| 0 <= i < seq![c].len() && seq![c][i] == x; }
}


pub proof fn lemma_split_pieces_no_sep(s: Seq<char>, c: char)
    ensures forall|i: int| 0 <= i < split_spec(s, c).len() ==> !has_char(#[trigger] split_spec(s, c)[i], c)
    decreases s.len()
{
    lemma_first_index(s, c);
    let f = first_index_of(s, c);
    if f < 0 || f >= s.len() {
        assert(split_spec(s, c) =~= seq![s]);
    } else {
        let head = s.subrange(0, f);
        let tail = s.subrange(f + 1, s.len() as int);
        lemma_split_pieces_no_sep(tail, c);
        if has_char(head, c) { let i = choose|i: int| 0 <= i < head.len() && head[i] == c; assert(s[i] == c); }
        let ps = split_spec(s, c);
        assert(ps =~= seq![head] + split_spec(tail, c));
        assert forall|i: int| 0 <= i < ps.len() implies !has_char(#[trigger] ps[i], c) by {
            if i == 0 { assert(ps[0] == head); } else { assert(ps[i] == split_spec(tail, c)[i - 1]); }
        }
    }
}


// ---- unit T.PurlField  <= purl/src/parse.rs:112 ----
#[derive(Debug, Clone, Copy)]
pub enum PurlField {
    PackageType,
    Namespace,
    Name,
    Version,
    Subpath,
}
// ---- unit T.ParseError  <= purl/src/parse.rs:17 ----
#[derive(Debug)]
pub enum ParseError {
    UnsupportedUrlScheme,
    MissingRequiredField(PurlField),
    InvalidPackageType,
    InvalidQualifier,
    InvalidEscape,
}
// ---- unit T.QualifierKey  <= purl/src/qualifiers.rs:319 ----
pub struct QualifierKey(pub SmallString);
// ---- unit T.Qualifiers  <= purl/src/qualifiers.rs:21 ----
pub struct Qualifiers {
    pub qualifiers: Vec<(QualifierKey, SmallString)>,
}
// ---- unit T.PurlParts  <= purl/src/lib.rs:212 ----
pub struct PurlParts {
    pub namespace: SmallString,
    pub name: SmallString,
    pub version: SmallString,
    pub qualifiers: Qualifiers,
    pub subpath: SmallString,
}
// ---- unit theory.qualkeys  <= (contracts):0 ----
// ---- qualifier keys (C04, C05, C11: ASCII letters, digits, '.', '-', '_'; non-empty) ----
pub open spec fn key_char(c: char) -> bool { ascii_alnum_c(c) || c == '.' || c == '-' || c == '_' }
pub open spec fn valid_key(s: Seq<char>) -> bool { s.len() > 0 && forall|i: int| 0 <= i < s.len() ==> key_char(#[trigger] s[i]) }
/// canonical stored form: valid and free of ASCII upper-case
pub open spec fn canon_key(s: Seq<char>) -> bool { valid_key(s) && forall|i: int| 0 <= i < s.len() ==> !ascii_upper_c(#[trigger] s[i]) }

// ---- lexicographic order on Seq<char> by scalar value (= byte-wise order of the UTF-8 text, = str::cmp) ----
pub open spec fn lex_cmp(a: Seq<char>, b: Seq<char>) -> Ordering decreases a.len()
{
    if a.len() == 0 { if b.len() == 0 { Ordering::Equal } else { Ordering::Less } }
    else if b.len() == 0 { Ordering::Greater }
    else if (a[0] as u32) < (b[0] as u32) { Ordering::Less }
    else if (a[0] as u32) > (b[0] as u32) { Ordering::Greater }
    else { lex_cmp(a.subrange(1, a.len() as int), b.subrange(1, b.len() as int)) }
}
pub open spec fn str_lt(a: Seq<char>, b: Seq<char>) -> bool { lex_cmp(a, b) is Less }

pub proof fn lemma_lex_eq(a: Seq<char>, b: Seq<char>)
    ensures (lex_cmp(a, b) is Equal) == (a == b)
    decreases a.len()
{
    if a.len() > 0 && b.len() > 0 {
        if a[0] == b[0] {
            lemma_lex_eq(a.subrange(1, a.len() as int), b.subrange(1, b.len() as int));
            if a.subrange(1, a.len() as int) == b.subrange(1, b.len() as int) {
                assert(a =~= seq![a[0]] + a.subrange(1, a.len() as int));
                assert(b =~= seq![b[0]] + b.subrange(1, b.len() as int));
            }
        } else {
            assert((a[0] as u32) != (b[0] as u32));
        }
    } else {
        assert((a == b) == (a.len() == 0 && b.len() == 0)) by { if a.len() == 0 && b.len() == 0 { assert(a =~= b); } }
    }
}

pub proof fn lemma_lex_flip(a: Seq<char>, b: Seq<char>)
    ensures
        (lex_cmp(a, b) is Less) == (lex_cmp(b, a) is Greater),
        (lex_cmp(a, b) is Greater) == (lex_cmp(b, a) is Less),
    decreases a.len()
{
    if a.len() > 0 && b.len() > 0 && a[0] == b[0] {
        lemma_lex_flip(a.subrange(1, a.len() as int), b.subrange(1, b.len() as int));
    }
}

pub proof fn lemma_lex_trans(a: Seq<char>, b: Seq<char>, c: Seq<char>)
    requires str_lt(a, b), str_lt(b, c)
    ensures str_lt(a, c)
    decreases a.len()
{
    if a.len() > 0 && b.len() > 0 && c.len() > 0 && a[0] == b[0] && b[0] == c[0] {
        lemma_lex_trans(a.subrange(1, a.len() as int), b.subrange(1, b.len() as int), c.subrange(1, c.len() as int));
    }
}

pub proof fn lemma_lt_irrefl(a: Seq<char>)
    ensures !str_lt(a, a)
{
    lemma_lex_eq(a, a);
}

// ---- the representation invariant of Qualifiers (C04, C11): keys canonical, strictly ascending ----
pub open spec fn keys_sorted(v: Seq<(QualifierKey, SmallString)>) -> bool {
    forall|i: int, j: int| 0 <= i < j < v.len() ==> str_lt(#[trigger] v[i].0.0@, #[trigger] v[j].0.0@)
}
pub open spec fn keys_canon(v: Seq<(QualifierKey, SmallString)>) -> bool {
    forall|i: int| 0 <= i < v.len() ==> canon_key(#[trigger] v[i].0.0@)
}
pub open spec fn wf_seq(v: Seq<(QualifierKey, SmallString)>) -> bool { keys_sorted(v) && keys_canon(v) }

/// abstract content: key text -> value text (a function of the sequence; unique positions because keys are strictly ascending)
pub open spec fn has_key(v: Seq<(QualifierKey, SmallString)>, k: Seq<char>) -> bool {
    exists|i: int| 0 <= i < v.len() && #[trigger] v[i].0.0@ == k
}
pub open spec fn has_pair(v: Seq<(QualifierKey, SmallString)>, k: Seq<char>, val: Seq<char>) -> bool {
    exists|i: int| 0 <= i < v.len() && #[trigger] v[i].0.0@ == k && v[i].1@ == val
}

pub proof fn lemma_sorted_unique(v: Seq<(QualifierKey, SmallString)>, i: int, j: int)
    requires keys_sorted(v), 0 <= i < v.len(), 0 <= j < v.len(), v[i].0.0@ == v[j].0.0@
    ensures i == j
{
    lemma_lt_irrefl(v[i].0.0@);
    if i < j { assert(str_lt(v[i].0.0@, v[j].0.0@)); }
    if j < i { assert(str_lt(v[j].0.0@, v[i].0.0@)); }
}

/// the position of key `k` in a strictly ascending list = number of keys smaller than `k` (names the witness, so
/// whole-content postconditions need no existential)
pub open spec fn pos_of(v: Seq<(QualifierKey, SmallString)>, k: Seq<char>) -> int decreases v.len()
{
    if v.len() == 0 { 0 } else { pos_of(v.drop_last(), k) + if str_lt(v.last().0.0@, k) { 1int } else { 0int } }
}

pub proof fn lemma_pos_of(v: Seq<(QualifierKey, SmallString)>, k: Seq<char>, i: int)
    requires 0 <= i <= v.len(),
        forall|j: int| 0 <= j < i ==> str_lt(#[trigger] v[j].0.0@, k),
        forall|j: int| i <= j < v.len() ==> !str_lt(#[trigger] v[j].0.0@, k),
    ensures pos_of(v, k) == i
    decreases v.len()
{
    if v.len() > 0 {
        let w = v.drop_last();
        if i == v.len() {
            assert forall|j: int| 0 <= j < i - 1 implies str_lt(#[trigger] w[j].0.0@, k) by { assert(w[j] == v[j]); }
            lemma_pos_of(w, k, i - 1);
            assert(str_lt(v[v.len() - 1].0.0@, k));
        } else {
            assert forall|j: int| 0 <= j < i implies str_lt(#[trigger] w[j].0.0@, k) by { assert(w[j] == v[j]); }
            assert forall|j: int| i <= j < w.len() implies !str_lt(#[trigger] w[j].0.0@, k) by { assert(w[j] == v[j]); }
            lemma_pos_of(w, k, i);
            assert(!str_lt(v[v.len() - 1].0.0@, k));
        }
    }
}

pub proof fn lemma_lt_asym(a: Seq<char>, b: Seq<char>)
    requires str_lt(a, b)
    ensures !str_lt(b, a)
{
    lemma_lex_flip(a, b);
}

/// in a strictly ascending list, the value paired with key `k` is the one at `pos_of(k)`
pub proof fn lemma_has_pair_pos(v: Seq<(QualifierKey, SmallString)>, k: Seq<char>)
    requires keys_sorted(v)
    ensures forall|val: Seq<char>| has_pair(v, k, val) ==> 0 <= pos_of(v, k) < v.len() && v[pos_of(v, k)].0.0@ == k && v[pos_of(v, k)].1@ == val
{
    assert forall|val: Seq<char>| has_pair(v, k, val) implies 0 <= pos_of(v, k) < v.len() && v[pos_of(v, k)].0.0@ == k && v[pos_of(v, k)].1@ == val by {
        let i = choose|i: int| 0 <= i < v.len() && #[trigger] v[i].0.0@ == k && v[i].1@ == val;
        assert forall|j: int| 0 <= j < i implies str_lt(#[trigger] v[j].0.0@, k) by { assert(str_lt(v[j].0.0@, v[i].0.0@)); }
        assert forall|j: int| i <= j < v.len() implies !str_lt(#[trigger] v[j].0.0@, k) by {
            if j == i { lemma_lt_irrefl(k); } else { assert(str_lt(v[i].0.0@, v[j].0.0@)); lemma_lt_asym(k, v[j].0.0@); }
        }
        lemma_pos_of(v, k, i);
    }
}

// ---- unit theory.types  <= (contracts):0 ----
// ---- R9: stub of std::borrow::Cow for B = str (two variants, same names) ----
pub enum Cow<'a, B: ?Sized> { Borrowed(&'a B), Owned(String) }

impl<'a> View for Cow<'a, str> {
    type V = Seq<char>;
    open spec fn view(&self) -> Seq<char> {
        match self { Cow::Borrowed(b) => b@, Cow::Owned(o) => o@ }
    }
}

impl<'a> core::ops::Deref for Cow<'a, str> {
    type Target = str;
    fn deref(&self) -> (r: &str)
        ensures r@ == self@
    {
        match self { Cow::Borrowed(b) => b, Cow::Owned(o) => o.as_str() }
    }
}

// R9: `String: From<Cow<str>>` for the stub Cow (std: the owned text, or a copy of the borrowed text)
pub uninterp spec fn string_of_cow<'a>(c: Cow<'a, str>) -> String;
#[verifier::external_body]
pub broadcast proof fn axiom_string_of_cow<'a>(c: Cow<'a, str>)
    ensures (#[trigger] string_of_cow(c))@ == c@
{ }
impl<'a> vstd::std_specs::convert::FromSpecImpl<Cow<'a, str>> for String {
    open spec fn obeys_from_spec() -> bool { true }
    open spec fn from_spec(c: Cow<'a, str>) -> String { string_of_cow(c) }
}
impl<'a> From<Cow<'a, str>> for String {
    #[verifier::external_body]
    fn from(c: Cow<'a, str>) -> (r: String)
    { match c { Cow::Borrowed(b) => b.to_string(), Cow::Owned(o) => o } }
}

// ---- vocabulary for package types (written from C02/C04/C05: letters, digits, '.', '+', '-'; non-empty) ----
pub open spec fn type_char(c: char) -> bool { ascii_alnum_c(c) || c == '.' || c == '+' || c == '-' }
pub open spec fn valid_type(s: Seq<char>) -> bool { s.len() > 0 && forall|i: int| 0 <= i < s.len() ==> type_char(#[trigger] s[i]) }

/// What every built-in string-like shape must do in `finish` (C04, C13): validate, then ASCII-lower-case; parts untouched.
pub open spec fn shape_rel(t0: Seq<char>, p0: PurlParts, t1: Seq<char>, p1: PurlParts, r: Result<(), ParseError>) -> bool {
    p1 == p0
    && (valid_type(t0) ==> r is Ok && t1 == lower_ascii_seq(t0))
    && (!valid_type(t0) ==> r == Err::<(), ParseError>(ParseError::InvalidPackageType))
}


/// C10 / C13 (type string): validating and ASCII-lower-casing twice is doing it once
pub proof fn lemma_shape_idem(t0: Seq<char>, p0: PurlParts, t1: Seq<char>, p1: PurlParts, t2: Seq<char>, p2: PurlParts, r2: Result<(), ParseError>)
    requires shape_rel(t0, p0, t1, p1, Ok::<(), ParseError>(())), shape_rel(t1, p1, t2, p2, r2)
    ensures r2 is Ok, t2 == t1, p2 == p1
{
    assert(valid_type(t0));
    let l = lower_ascii_seq(t0);
    assert(t1 == l);
    assert forall|i: int| 0 <= i < l.len() implies type_char(#[trigger] l[i]) && !ascii_upper_c(l[i]) by { assert(type_char(t0[i])); }
    assert(valid_type(l));
    lemma_lower_ascii_fixed(l);
}

// ---- unit theory.segs  <= (contracts):0 ----
// ---- percent-decoding (uninterpreted) and the segment folds, written from C02 / C05 / C07 ----
/// percent-decode + strict UTF-8 (the `percent-encoding` crate + `str::from_utf8`); None = refused
pub uninterp spec fn dec(s: Seq<char>) -> Option<Seq<char>>;

pub open spec fn is_dot(p: Seq<char>) -> bool { p == seq!['.'] }
pub open spec fn is_dotdot(p: Seq<char>) -> bool { p == seq!['.', '.'] }
pub open spec fn sub_skipped(p: Seq<char>) -> bool { p.len() == 0 || is_dot(p) || is_dotdot(p) }
pub open spec fn ns_skipped(p: Seq<char>) -> bool { p.len() == 0 }
pub open spec fn sub_bad(p: Seq<char>) -> bool {
    dec(p) is None || has_char(dec(p)->Some_0, '/') || is_dot(dec(p)->Some_0) || is_dotdot(dec(p)->Some_0)
}
pub open spec fn ns_bad(p: Seq<char>) -> bool { dec(p) is None || has_char(dec(p)->Some_0, '/') }
pub open spec fn join_push(acc: Seq<char>, seg: Seq<char>) -> Seq<char> { if acc.len() == 0 { seg } else { acc + seq!['/'] + seg } }

/// subpath: skip raw '', '.', '..'; refuse a piece that does not decode, or decodes to something containing '/' or to '.' / '..'
pub open spec fn sub_fold(pieces: Seq<Seq<char>>) -> Option<Seq<char>> decreases pieces.len() {
    if pieces.len() == 0 { Some(Seq::<char>::empty()) } else {
        match sub_fold(pieces.drop_last()) {
            None => None,
            Some(acc) => if sub_skipped(pieces.last()) { Some(acc) } else if sub_bad(pieces.last()) { None }
                         else { Some(join_push(acc, dec(pieces.last())->Some_0)) },
        }
    }
}
/// namespace: skip raw ''; refuse a piece that does not decode or decodes to something containing '/'
pub open spec fn ns_fold(pieces: Seq<Seq<char>>) -> Option<Seq<char>> decreases pieces.len() {
    if pieces.len() == 0 { Some(Seq::<char>::empty()) } else {
        match ns_fold(pieces.drop_last()) {
            None => None,
            Some(acc) => if ns_skipped(pieces.last()) { Some(acc) } else if ns_bad(pieces.last()) { None }
                         else { Some(join_push(acc, dec(pieces.last())->Some_0)) },
        }
    }
}

pub proof fn lemma_sub_fold_none(ps: Seq<Seq<char>>, k: int)
    requires 0 <= k <= ps.len(), sub_fold(ps.take(k)) is None
    ensures sub_fold(ps) is None
    decreases ps.len() - k
{
    if k < ps.len() {
        assert(ps.take(k + 1).drop_last() == ps.take(k));
        lemma_sub_fold_none(ps, k + 1);
    } else { assert(ps.take(k) == ps); }
}
pub proof fn lemma_ns_fold_none(ps: Seq<Seq<char>>, k: int)
    requires 0 <= k <= ps.len(), ns_fold(ps.take(k)) is None
    ensures ns_fold(ps) is None
    decreases ps.len() - k
{
    if k < ps.len() {
        assert(ps.take(k + 1).drop_last() == ps.take(k));
        lemma_ns_fold_none(ps, k + 1);
    } else { assert(ps.take(k) == ps); }
}

/// `[a, b, c].contains(&s)` on string slices
#[verifier::external_body]
pub fn x_is_one_of3(s: &str, a: &str, b: &str, c: &str) -> (r: bool)
    ensures r == (s@ == a@ || s@ == b@ || s@ == c@)
{ [a, b, c].contains(&s) }
#[verifier::external_body]
pub fn x_is_one_of2(s: &str, a: &str, b: &str) -> (r: bool)
    ensures r == (s@ == a@ || s@ == b@)
{ [a, b].contains(&s) }

/// `write!(w, "{}", d).unwrap()` on a String: appends the text (fmt::Write for String never fails)
#[verifier::external_body]
pub fn x_push_display(w: &mut String, d: &str)
    ensures final(w)@ == old(w)@ + d@
{ use std::fmt::Write; write!(w, "{}", d).unwrap() }

// ---- unit theory.segs_lemmas  <= (contracts):0 ----
// ---- C07 (L-seg): what a successful fold looks like ----
/// ASSUMED (A: bounded replay against the real decoder): a non-empty piece never decodes to the empty string
#[verifier::external_body]
pub proof fn axiom_dec_nonempty(p: Seq<char>)
    requires p.len() > 0, dec(p) is Some
    ensures dec(p)->Some_0.len() > 0
{ }

pub open spec fn join_segs(segs: Seq<Seq<char>>) -> Seq<char> decreases segs.len()
{ if segs.len() == 0 { Seq::<char>::empty() } else { join_push(join_segs(segs.drop_last()), segs.last()) } }

/// the decoded, non-skipped pieces of a subpath (meaningful when sub_fold is Some)
pub open spec fn sub_segs(pieces: Seq<Seq<char>>) -> Seq<Seq<char>> decreases pieces.len()
{
    if pieces.len() == 0 { Seq::<Seq<char>>::empty() }
    else if sub_skipped(pieces.last()) { sub_segs(pieces.drop_last()) }
    else { sub_segs(pieces.drop_last()).push(dec(pieces.last())->Some_0) }
}
pub open spec fn ns_segs(pieces: Seq<Seq<char>>) -> Seq<Seq<char>> decreases pieces.len()
{
    if pieces.len() == 0 { Seq::<Seq<char>>::empty() }
    else if ns_skipped(pieces.last()) { ns_segs(pieces.drop_last()) }
    else { ns_segs(pieces.drop_last()).push(dec(pieces.last())->Some_0) }
}

pub open spec fn clean_sub_seg(s: Seq<char>) -> bool { s.len() > 0 && !has_char(s, '/') && !is_dot(s) && !is_dotdot(s) }
pub open spec fn clean_ns_seg(s: Seq<char>) -> bool { s.len() > 0 && !has_char(s, '/') }

/// a successful subpath fold is the '/'-join of the decoded non-skipped pieces, every one of them clean
pub proof fn lemma_sub_fold_shape(ps: Seq<Seq<char>>)
    requires sub_fold(ps) is Some
    ensures
        sub_fold(ps)->Some_0 == join_segs(sub_segs(ps)),
        forall|i: int| 0 <= i < sub_segs(ps).len() ==> clean_sub_seg(#[trigger] sub_segs(ps)[i]),
    decreases ps.len()
{
    if ps.len() > 0 {
        let init = ps.drop_last();
        lemma_sub_fold_shape(init);
        if !sub_skipped(ps.last()) {
            axiom_dec_nonempty(ps.last());
            let d = dec(ps.last())->Some_0;
            let segs = sub_segs(ps);
            assert(segs.drop_last() == sub_segs(init));
            assert forall|i: int| 0 <= i < segs.len() implies clean_sub_seg(#[trigger] segs[i]) by {
                if i < segs.len() - 1 { assert(segs[i] == sub_segs(init)[i]); }
            }
        }
    }
}
pub proof fn lemma_ns_fold_shape(ps: Seq<Seq<char>>)
    requires ns_fold(ps) is Some
    ensures
        ns_fold(ps)->Some_0 == join_segs(ns_segs(ps)),
        forall|i: int| 0 <= i < ns_segs(ps).len() ==> clean_ns_seg(#[trigger] ns_segs(ps)[i]),
    decreases ps.len()
{
    if ps.len() > 0 {
        let init = ps.drop_last();
        lemma_ns_fold_shape(init);
        if !ns_skipped(ps.last()) {
            axiom_dec_nonempty(ps.last());
            let segs = ns_segs(ps);
            assert(segs.drop_last() == ns_segs(init));
            assert forall|i: int| 0 <= i < segs.len() implies clean_ns_seg(#[trigger] segs[i]) by {
                if i < segs.len() - 1 { assert(segs[i] == ns_segs(init)[i]); }
            }
        }
    }
}

pub proof fn lemma_first_index_prefix(a: Seq<char>, b: Seq<char>, c: char)
    requires has_char(a, c)
    ensures first_index_of(a + b, c) == first_index_of(a, c)
    decreases a.len()
{
    lemma_first_index(a, c);
    if a.len() > 0 {
        assert((a + b)[0] == a[0]);
        if a[0] != c {
            let a1 = a.subrange(1, a.len() as int);
            assert((a + b).subrange(1, (a + b).len() as int) =~= a1 + b);
            let i = choose|i: int| 0 <= i < a.len() && a[i] == c;
            assert(a1[i - 1] == c);
            lemma_first_index_prefix(a1, b, c);
        }
    }
}

pub proof fn lemma_split_no_sep(s: Seq<char>, c: char)
    requires !has_char(s, c)
    ensures split_spec(s, c) == seq![s]
{
    lemma_first_index(s, c);
}

/// appending `c` and a `c`-free tail appends one piece
pub proof fn lemma_split_append(a: Seq<char>, b: Seq<char>, c: char)
    requires !has_char(b, c)
    ensures split_spec(a + seq![c] + b, c) == split_spec(a, c).push(b)
    decreases a.len()
{
    let s = a + seq![c] + b;
    lemma_first_index(a, c);
    if !has_char(a, c) {
        lemma_split_join(a, b, c);
        assert(s.subrange(0, a.len() as int) =~= a);
        assert(s.subrange(a.len() as int + 1, s.len() as int) =~= b);
        lemma_split_no_sep(b, c);
        lemma_split_no_sep(a, c);
        assert(split_spec(s, c) =~= seq![a].push(b));
    } else {
        let i = first_index_of(a, c);
        assert(s =~= a + (seq![c] + b));
        lemma_first_index_prefix(a, seq![c] + b, c);
        let rest = a.subrange(i + 1, a.len() as int);
        assert(s.subrange(0, i) =~= a.subrange(0, i));
        assert(s.subrange(i + 1, s.len() as int) =~= rest + seq![c] + b);
        lemma_split_append(rest, b, c);
        assert(split_spec(s, c) =~= split_spec(a, c).push(b));
    }
}

pub proof fn lemma_join_nonempty(segs: Seq<Seq<char>>)
    requires segs.len() > 0, forall|i: int| 0 <= i < segs.len() ==> (#[trigger] segs[i]).len() > 0
    ensures join_segs(segs).len() > 0
{
}

/// C07: splitting the reported namespace / subpath at '/' gives back exactly the clean segments -- no empty
/// segment, hence no leading or trailing '/', and an escape neither split nor joined anything
pub proof fn lemma_split_of_join(segs: Seq<Seq<char>>)
    requires segs.len() > 0, forall|i: int| 0 <= i < segs.len() ==> (#[trigger] segs[i]).len() > 0 && !has_char(segs[i], '/')
    ensures split_spec(join_segs(segs), '/') == segs
    decreases segs.len()
{
    let init = segs.drop_last();
    if init.len() == 0 {
        assert(join_segs(segs) == segs[0]);
        lemma_split_no_sep(segs[0], '/');
        assert(segs =~= seq![segs[0]]);
    } else {
        assert forall|i: int| 0 <= i < init.len() implies (#[trigger] init[i]).len() > 0 && !has_char(init[i], '/') by { assert(init[i] == segs[i]); }
        lemma_split_of_join(init);
        lemma_join_nonempty(init);
        lemma_split_append(join_segs(init), segs.last(), '/');
        assert(init.push(segs.last()) =~= segs);
    }
}

/// C07, as stated: for every accepted subpath text
pub proof fn lemma_c07_subpath(ps: Seq<Seq<char>>)
    requires sub_fold(ps) is Some
    ensures ({
        let out = sub_fold(ps)->Some_0;
        if sub_segs(ps).len() == 0 { out.len() == 0 }      // reported as "no subpath"
        else {
            split_spec(out, '/') == sub_segs(ps)
            && forall|i: int| 0 <= i < sub_segs(ps).len() ==> clean_sub_seg(#[trigger] sub_segs(ps)[i])
        }
    })
{
    lemma_sub_fold_shape(ps);
    if sub_segs(ps).len() > 0 { lemma_split_of_join(sub_segs(ps)); }
}
pub proof fn lemma_c07_namespace(ps: Seq<Seq<char>>)
    requires ns_fold(ps) is Some
    ensures ({
        let out = ns_fold(ps)->Some_0;
        if ns_segs(ps).len() == 0 { out.len() == 0 }
        else {
            split_spec(out, '/') == ns_segs(ps)
            && forall|i: int| 0 <= i < ns_segs(ps).len() ==> clean_ns_seg(#[trigger] ns_segs(ps)[i])
        }
    })
{
    lemma_ns_fold_shape(ps);
    if ns_segs(ps).len() > 0 { lemma_split_of_join(ns_segs(ps)); }
}

// ---- unit theory.dq  <= (contracts):0 ----
// ---- qualifiers part of the parser (C02, C05), written from the statements ----
pub type KV = Seq<(Seq<char>, Seq<char>)>;
pub open spec fn kvs(v: Seq<(QualifierKey, SmallString)>) -> KV { v.map_values(|e: (QualifierKey, SmallString)| (e.0.0@, e.1@)) }

pub open spec fn kv_has_key(v: KV, k: Seq<char>) -> bool { exists|i: int| 0 <= i < v.len() && (#[trigger] v[i]).0 == k }
pub open spec fn kv_pos_of(v: KV, k: Seq<char>) -> int decreases v.len()
{ if v.len() == 0 { 0 } else { kv_pos_of(v.drop_last(), k) + if str_lt(v.last().0, k) { 1int } else { 0int } } }

pub proof fn lemma_kvs_pos_of(v: Seq<(QualifierKey, SmallString)>, k: Seq<char>)
    ensures kv_pos_of(kvs(v), k) == pos_of(v, k), kv_has_key(kvs(v), k) == has_key(v, k)
    decreases v.len()
{
    if v.len() > 0 {
        assert(kvs(v).drop_last() =~= kvs(v.drop_last()));
        lemma_kvs_pos_of(v.drop_last(), k);
        assert(kvs(v).last().0 == v.last().0.0@);
    }
    if has_key(v, k) { let i = choose|i: int| 0 <= i < v.len() && #[trigger] v[i].0.0@ == k; assert(kvs(v)[i].0 == k); }
    if kv_has_key(kvs(v), k) { let i = choose|i: int| 0 <= i < kvs(v).len() && (#[trigger] kvs(v)[i]).0 == k; assert(v[i].0.0@ == k); }
}

pub enum DqErr { Qualifier, Escape }

/// one `key=value` item, in the order the statement lists the defects: no '=', invalid key, key already present,
/// value not decodable; an empty decoded value is skipped; otherwise the pair is inserted at its sorted position
pub open spec fn dq_step(acc: KV, item: Seq<char>) -> Result<KV, DqErr> {
    let i = first_index_of(item, '=');
    if i < 0 { Err(DqErr::Qualifier) } else {
        let k = item.subrange(0, i);
        let v = item.subrange(i + 1, item.len() as int);
        if !valid_key(k) { Err(DqErr::Qualifier) }
        else if kv_has_key(acc, lower_ascii_seq(k)) { Err(DqErr::Qualifier) }
        else if dec(v) is None { Err(DqErr::Escape) }
        else if dec(v)->Some_0.len() == 0 { Ok(acc) }
        else { Ok(acc.insert(kv_pos_of(acc, lower_ascii_seq(k)), (lower_ascii_seq(k), dec(v)->Some_0))) }
    }
}
pub open spec fn dq_fold(items: Seq<Seq<char>>, acc0: KV) -> Result<KV, DqErr> decreases items.len() {
    if items.len() == 0 { Ok(acc0) } else {
        match dq_fold(items.drop_last(), acc0) { Err(e) => Err(e), Ok(acc) => dq_step(acc, items.last()) }
    }
}
pub open spec fn dq_err(e: ParseError, d: DqErr) -> bool {
    match d { DqErr::Qualifier => e == ParseError::InvalidQualifier, DqErr::Escape => e == ParseError::InvalidEscape }
}
pub proof fn lemma_dq_fold_err(items: Seq<Seq<char>>, acc0: KV, k: int)
    requires 0 <= k <= items.len(), dq_fold(items.take(k), acc0) is Err
    ensures dq_fold(items, acc0) == dq_fold(items.take(k), acc0)
    decreases items.len() - k
{
    if k < items.len() {
        assert(items.take(k + 1).drop_last() == items.take(k));
        lemma_dq_fold_err(items, acc0, k + 1);
    } else { assert(items.take(k) == items); }
}

// ---- unit theory.enc  <= (contracts):0 ----
// ---- percent-encoding as a specification function (C03): defined per character from the documented table ----
// What is ASSUMED about the dependency: `utf8_percent_encode(s, SET)` produces `enc(SET, s)` (its per-byte table is proved by
// Kani on the real constants; that it works char by char is replayed by A), and `dec(enc(set, s)) == Some(s)` (A).
#[derive(Clone, Copy)]
pub enum SetId { Path, Segment, Query, Fragment }
pub const PURL_PATH: SetId = SetId::Path;
pub const PURL_PATH_SEGMENT: SetId = SetId::Segment;
pub const PURL_QUERY: SetId = SetId::Query;
pub const PURL_FRAGMENT: SetId = SetId::Fragment;

/// C03's table: "every byte that is a control character, DEL, space, non-ASCII, '"', '<', '>', '%', '@', '?' or '#' - and
/// additionally '`', '{', '}' in namespace, name and version, '/' in the name, '+' and '&' in qualifier values, '`' in the subpath"
pub open spec fn escaped_c(set: SetId, c: char) -> bool {
    (c as u32) < 0x20 || (c as u32) >= 0x7f || c == ' ' || c == '"' || c == '<' || c == '>' || c == '%' || c == '@' || c == '?' || c == '#'
    || match set {
        SetId::Path => c == '`' || c == '{' || c == '}',
        SetId::Segment => c == '`' || c == '{' || c == '}' || c == '/',
        SetId::Query => c == '+' || c == '&',
        SetId::Fragment => c == '`',
    }
}
/// `%XX…` for the UTF-8 bytes of `c` (uninterpreted; only its alphabet is used)
pub uninterp spec fn pct(c: char) -> Seq<char>;
pub open spec fn pct_alphabet(x: char) -> bool { x == '%' || ('0' <= x && x <= '9') || ('A' <= x && x <= 'F') }
/// ASSUMED (definition of percent-encoding): non-empty, made of '%' and upper-case hex digits
#[verifier::external_body]
pub proof fn axiom_pct(c: char)
    ensures pct(c).len() > 0, forall|i: int| 0 <= i < pct(c).len() ==> pct_alphabet(#[trigger] pct(c)[i])
{ }

pub open spec fn enc_char(set: SetId, c: char) -> Seq<char> { if escaped_c(set, c) { pct(c) } else { seq![c] } }
pub open spec fn enc(set: SetId, s: Seq<char>) -> Seq<char> decreases s.len()
{ if s.len() == 0 { Seq::<char>::empty() } else { enc(set, s.drop_last()) + enc_char(set, s.last()) } }

// ---- unit theory.canon  <= (contracts):0 ----
// ---- the canonical string as a specification function, written from C03 ----
pub open spec fn opt_part(present: bool, s: Seq<char>) -> Seq<char> { if present { s } else { Seq::<char>::empty() } }

/// [`?` + key=value pairs joined by `&`, in storage order]
pub open spec fn quals_text(v: Seq<(QualifierKey, SmallString)>) -> Seq<char> decreases v.len() {
    if v.len() == 0 { Seq::<char>::empty() }
    else {
        quals_text(v.drop_last()) + seq![if v.len() == 1 { '?' } else { '&' }]
            + enc(SetId::Query, v.last().0.0@) + seq!['='] + enc(SetId::Query, v.last().1@)
    }
}

/// C03: `pkg:` + type + `/` + [namespace + `/`] + name + [`@` + version] + [`?` + pairs] + [`#` + subpath], absent parts omitted
pub open spec fn canon_spec(ty: Seq<char>, p: PurlParts) -> Seq<char> {
    "pkg:"@ + ty + "/"@
    + opt_part(p.namespace@.len() > 0, enc(SetId::Path, p.namespace@) + "/"@)
    + enc(SetId::Segment, p.name@)
    + opt_part(p.version@.len() > 0, "@"@ + enc(SetId::Path, p.version@))
    + quals_text(p.qualifiers.qualifiers@)
    + opt_part(p.subpath@.len() > 0, "#"@ + enc(SetId::Fragment, p.subpath@))
}

// staged prefixes of canon_spec (one per write group), so that each stage closes with one extensional equality
pub open spec fn cs1(ty: Seq<char>) -> Seq<char> { "pkg:"@ + ty + "/"@ }
pub open spec fn cs2(ty: Seq<char>, p: PurlParts) -> Seq<char> { cs1(ty) + opt_part(p.namespace@.len() > 0, enc(SetId::Path, p.namespace@) + "/"@) }
pub open spec fn cs3(ty: Seq<char>, p: PurlParts) -> Seq<char> { cs2(ty, p) + enc(SetId::Segment, p.name@) }
pub open spec fn cs4(ty: Seq<char>, p: PurlParts) -> Seq<char> { cs3(ty, p) + opt_part(p.version@.len() > 0, "@"@ + enc(SetId::Path, p.version@)) }
pub open spec fn cs5(ty: Seq<char>, p: PurlParts) -> Seq<char> { cs4(ty, p) + quals_text(p.qualifiers.qualifiers@) }
pub proof fn lemma_canon_stages(ty: Seq<char>, p: PurlParts)
    ensures canon_spec(ty, p) == cs5(ty, p) + opt_part(p.subpath@.len() > 0, "#"@ + enc(SetId::Fragment, p.subpath@))
{ }

// ---- unit theory.parse_phase  <= (contracts):0 ----
// ---- the parser's two phases as specification functions (C02, C05, C07, C14) ----
pub open spec fn has_prefix(s: Seq<char>, p: Seq<char>) -> bool { s.len() >= p.len() && s.subrange(0, p.len() as int) == p }

/// right-to-left split at the LAST occurrence of `c`: (left part, right part if `c` occurs)
pub open spec fn rsplit_at(s: Seq<char>, c: char) -> (Seq<char>, Option<Seq<char>>) {
    if last_index_of(s, c) < 0 { (s, None) }
    else { (s.subrange(0, last_index_of(s, c)), Some(s.subrange(last_index_of(s, c) + 1, s.len() as int))) }
}

pub struct PhaseA { pub ty: Seq<char>, pub rest: Seq<char>, pub sub: Seq<char>, pub kv: KV }
pub struct PhaseB { pub ns: Seq<char>, pub name: Seq<char>, pub version: Seq<char> }

pub open spec fn dq_parse_err(d: DqErr) -> ParseError { match d { DqErr::Qualifier => ParseError::InvalidQualifier, DqErr::Escape => ParseError::InvalidEscape } }

/// everything up to the type conversion: scheme, leading slashes, subpath after the last '#', qualifiers after the last '?',
/// type up to the first '/', type syntax
pub open spec fn phase_a(s: Seq<char>) -> Result<PhaseA, ParseError> {
    if !has_prefix(s, "pkg:"@) { Err(ParseError::UnsupportedUrlScheme) } else {
        let s1 = trim_start_spec(s.subrange("pkg:"@.len() as int, s.len() as int), '/');
        let (s2, sub_raw) = rsplit_at(s1, '#');
        let sub = match sub_raw { None => Some(Seq::<char>::empty()), Some(x) => sub_fold(split_spec(trim_spec(x, '/'), '/')) };
        if sub is None { Err(ParseError::InvalidEscape) } else {
            let (s3, q_raw) = rsplit_at(s2, '?');
            let kv = match q_raw { None => Ok::<KV, DqErr>(Seq::<(Seq<char>, Seq<char>)>::empty()), Some(x) => dq_fold(split_spec(x, '&'), Seq::<(Seq<char>, Seq<char>)>::empty()) };
            match kv {
                Err(d) => Err(dq_parse_err(d)),
                Ok(kvv) =>
                    if s3.len() == 0 { Err(ParseError::MissingRequiredField(PurlField::PackageType)) }
                    else if first_index_of(s3, '/') < 0 { Err(ParseError::MissingRequiredField(PurlField::Name)) }
                    else {
                        let ty = s3.subrange(0, first_index_of(s3, '/'));
                        if !valid_type(ty) { Err(ParseError::InvalidPackageType) }
                        else { Ok(PhaseA { ty, rest: s3.subrange(first_index_of(s3, '/') + 1, s3.len() as int), sub: sub->Some_0, kv: kvv }) }
                    },
            }
        }
    }
}

/// after the conversion: version after the last '@', namespace before the last '/', name
pub open spec fn phase_b(rest: Seq<char>) -> Result<PhaseB, ParseError> {
    let (r1, ver_raw) = rsplit_at(rest, '@');
    let version = match ver_raw { None => Some(Seq::<char>::empty()), Some(x) => dec(x) };
    if version is None { Err(ParseError::InvalidEscape) } else {
        let (ns_raw, name_raw) = if last_index_of(r1, '/') < 0 { (None::<Seq<char>>, r1) }
            else { (Some(r1.subrange(0, last_index_of(r1, '/'))), r1.subrange(last_index_of(r1, '/') + 1, r1.len() as int)) };
        let ns = match ns_raw { None => Some(Seq::<char>::empty()), Some(x) => ns_fold(split_spec(trim_spec(x, '/'), '/')) };
        if ns is None { Err(ParseError::InvalidEscape) }
        else if dec(name_raw) is None { Err(ParseError::InvalidEscape) }
        else { Ok(PhaseB { ns: ns->Some_0, name: dec(name_raw)->Some_0, version: version->Some_0 }) }
    }
}


// ---- unit theory.inverse1  <= (contracts):0 ----
// ---- C01 / C09 / C19: parsing the canonical string gives the parts back (the inverse direction), part 1: encoding lemmas ----
/// ASSUMED (A: bounded replay): percent-decoding inverts percent-encoding, for every escape set
#[verifier::external_body]
pub proof fn axiom_dec_enc(set: SetId, s: Seq<char>)
    ensures dec(enc(set, s)) == Some(s)
{ }

pub proof fn lemma_enc_concat(set: SetId, a: Seq<char>, b: Seq<char>)
    ensures enc(set, a + b) == enc(set, a) + enc(set, b)
    decreases b.len()
{
    if b.len() == 0 {
        assert(a + b =~= a);
        assert(enc(set, a) + enc(set, b) =~= enc(set, a));
    } else {
        assert((a + b).drop_last() =~= a + b.drop_last());
        assert((a + b).last() == b.last());
        lemma_enc_concat(set, a, b.drop_last());
        assert(enc(set, a + b) =~= enc(set, a) + enc(set, b));
    }
}

pub proof fn lemma_enc_single(set: SetId, c: char)
    ensures enc(set, seq![c]) == enc_char(set, c)
{
    assert(seq![c].drop_last() =~= Seq::<char>::empty());
    assert(enc(set, Seq::<char>::empty()) =~= Seq::<char>::empty());
    assert(Seq::<char>::empty() + enc_char(set, c) =~= enc_char(set, c));
}

pub proof fn lemma_enc_len(set: SetId, s: Seq<char>)
    ensures (enc(set, s).len() == 0) == (s.len() == 0), enc(set, s).len() >= s.len()
    decreases s.len()
{
    if s.len() > 0 { lemma_enc_len(set, s.drop_last()); axiom_pct(s.last()); }
}

/// a character that is escaped in `set` and is not in the %HEX alphabet never appears in an encoded string
pub proof fn lemma_enc_excludes(set: SetId, s: Seq<char>, x: char)
    requires escaped_c(set, x), !pct_alphabet(x)
    ensures !has_char(enc(set, s), x)
    decreases s.len()
{
    if s.len() > 0 {
        lemma_enc_excludes(set, s.drop_last(), x);
        let c = s.last();
        axiom_pct(c);
        let e = enc_char(set, c);
        assert(!has_char(e, x)) by {
            if has_char(e, x) {
                let i = choose|i: int| 0 <= i < e.len() && e[i] == x;
                if escaped_c(set, c) { assert(pct_alphabet(pct(c)[i])); } else { assert(e[i] == c); }
            }
        }
        lemma_has_char_concat(enc(set, s.drop_last()), e, x);
    }
}

/// an unescaped character of the %HEX-free kind is preserved: it occurs in the encoding iff it occurs in the text
pub proof fn lemma_enc_preserves(set: SetId, s: Seq<char>, x: char)
    requires !escaped_c(set, x), !pct_alphabet(x)
    ensures has_char(enc(set, s), x) == has_char(s, x)
    decreases s.len()
{
    if s.len() > 0 {
        lemma_enc_preserves(set, s.drop_last(), x);
        let c = s.last();
        axiom_pct(c);
        let e = enc_char(set, c);
        assert(has_char(e, x) == (c == x)) by {
            if has_char(e, x) {
                let i = choose|i: int| 0 <= i < e.len() && e[i] == x;
                if escaped_c(set, c) { assert(pct_alphabet(pct(c)[i])); } else { assert(e[i] == c); }
            }
            if c == x { assert(e == seq![c]); assert(e[0] == x); }
        }
        lemma_has_char_concat(enc(set, s.drop_last()), e, x);
        assert(s.drop_last().push(c) =~= s);
        lemma_has_char_concat(s.drop_last(), seq![c], x);
        assert(s.drop_last() + seq![c] =~= s);
        assert(has_char(seq![c], x) == (c == x)) by { if c == x { assert(seq![c][0] == x); } }
    }
}

/// a string made of unescaped characters only is its own encoding (qualifier keys, '/', ...)
pub proof fn lemma_enc_identity(set: SetId, s: Seq<char>)
    requires forall|i: int| 0 <= i < s.len() ==> !escaped_c(set, #[trigger] s[i])
    ensures enc(set, s) == s
    decreases s.len()
{
    if s.len() > 0 {
        assert forall|i: int| 0 <= i < s.drop_last().len() implies !escaped_c(set, #[trigger] s.drop_last()[i]) by { assert(s.drop_last()[i] == s[i]); }
        lemma_enc_identity(set, s.drop_last());
        assert(!escaped_c(set, s[s.len() - 1]));
        assert(enc(set, s) =~= s);
    } else { assert(enc(set, s) =~= s); }
}

/// first / last character of an encoding is the separator `x` (unescaped, not %HEX) iff that of the text is
pub proof fn lemma_enc_ends(set: SetId, s: Seq<char>, x: char)
    requires !escaped_c(set, x), !pct_alphabet(x), s.len() > 0
    ensures enc(set, s).len() > 0, (enc(set, s)[0] == x) == (s[0] == x), (enc(set, s).last() == x) == (s.last() == x)
    decreases s.len()
{
    lemma_enc_len(set, s);
    let c = s.last();
    axiom_pct(c);
    let e = enc_char(set, c);
    let pre = enc(set, s.drop_last());
    assert((pre + e).last() == e.last());
    assert((e.last() == x) == (c == x)) by { if escaped_c(set, c) { assert(pct_alphabet(pct(c)[pct(c).len() - 1])); } }
    if s.len() == 1 {
        assert(s.drop_last() =~= Seq::<char>::empty());
        assert(pre =~= Seq::<char>::empty());
        assert(pre + e =~= e);
        assert((e[0] == x) == (c == x)) by { if escaped_c(set, c) { assert(pct_alphabet(pct(c)[0])); } }
    } else {
        lemma_enc_ends(set, s.drop_last(), x);
        assert((pre + e)[0] == pre[0]);
        assert(s.drop_last()[0] == s[0]);
    }
}

// ---- unit theory.inverse2  <= (contracts):0 ----
// ---- part 2: namespace / subpath text survives encode -> split -> decode ----
pub open spec fn enc_each(set: SetId, segs: Seq<Seq<char>>) -> Seq<Seq<char>> { segs.map_values(|s: Seq<char>| enc(set, s)) }

pub open spec fn slash_free_nonempty(segs: Seq<Seq<char>>) -> bool {
    forall|i: int| 0 <= i < segs.len() ==> (#[trigger] segs[i]).len() > 0 && !has_char(segs[i], '/')
}

pub proof fn lemma_slash_unescaped()
    ensures !escaped_c(SetId::Path, '/'), !escaped_c(SetId::Fragment, '/'), !pct_alphabet('/'), !pct_alphabet('.'),
        !escaped_c(SetId::Path, '.'), !escaped_c(SetId::Fragment, '.')
{ }

/// encoding a '/'-join (with a set that leaves '/' alone) is the '/'-join of the encodings
pub proof fn lemma_enc_join(set: SetId, segs: Seq<Seq<char>>)
    requires !escaped_c(set, '/'), slash_free_nonempty(segs)
    ensures enc(set, join_segs(segs)) == join_segs(enc_each(set, segs)), slash_free_nonempty(enc_each(set, segs))
    decreases segs.len()
{
    let es = enc_each(set, segs);
    assert forall|i: int| 0 <= i < es.len() implies (#[trigger] es[i]).len() > 0 && !has_char(es[i], '/') by {
        lemma_enc_len(set, segs[i]);
        lemma_enc_preserves(set, segs[i], '/');
    }
    if segs.len() == 0 {
        assert(enc(set, join_segs(segs)) =~= join_segs(es));
    } else {
        let init = segs.drop_last();
        assert forall|i: int| 0 <= i < init.len() implies (#[trigger] init[i]).len() > 0 && !has_char(init[i], '/') by { assert(init[i] == segs[i]); }
        lemma_enc_join(set, init);
        assert(es.drop_last() =~= enc_each(set, init));
        assert(es.last() == enc(set, segs.last()));
        if init.len() == 0 {
            assert(join_segs(init) =~= Seq::<char>::empty());
            assert(join_segs(es.drop_last()) =~= Seq::<char>::empty());
        } else {
            lemma_join_nonempty(init);
            lemma_join_nonempty(enc_each(set, init));
            lemma_enc_concat(set, join_segs(init) + seq!['/'], segs.last());
            lemma_enc_concat(set, join_segs(init), seq!['/']);
            lemma_enc_single(set, '/');
        }
    }
}

/// folding the pieces enc(seg_i) with the namespace rule gives the '/'-join of the segments
pub proof fn lemma_ns_fold_of_enc(set: SetId, segs: Seq<Seq<char>>)
    requires slash_free_nonempty(segs)
    ensures ns_fold(enc_each(set, segs)) == Some(join_segs(segs))
    decreases segs.len()
{
    let es = enc_each(set, segs);
    if segs.len() > 0 {
        let init = segs.drop_last();
        assert forall|i: int| 0 <= i < init.len() implies (#[trigger] init[i]).len() > 0 && !has_char(init[i], '/') by { assert(init[i] == segs[i]); }
        lemma_ns_fold_of_enc(set, init);
        assert(es.drop_last() =~= enc_each(set, init));
        assert(es.last() == enc(set, segs.last()));
        lemma_enc_len(set, segs.last());
        axiom_dec_enc(set, segs.last());
        assert(segs[segs.len() - 1].len() > 0 && !has_char(segs[segs.len() - 1], '/'));
    }
}

pub open spec fn clean_sub_segs(segs: Seq<Seq<char>>) -> bool {
    forall|i: int| 0 <= i < segs.len() ==> clean_sub_seg(#[trigger] segs[i])
}

/// an encoding equals "." / ".." only if the text does ('.' is never escaped, escapes contain '%')
pub proof fn lemma_enc_dot(set: SetId, s: Seq<char>)
    requires !escaped_c(set, '.')
    ensures is_dot(enc(set, s)) ==> is_dot(s), is_dotdot(enc(set, s)) ==> is_dotdot(s)
{
    lemma_enc_len(set, s);
    let e = enc(set, s);
    if is_dot(e) || is_dotdot(e) {
        // every char of e is '.', so no escape happened: each char of s is unescaped and equals its image
        lemma_enc_all_dots(set, s);
    }
}

pub proof fn lemma_enc_all_dots(set: SetId, s: Seq<char>)
    requires forall|i: int| 0 <= i < enc(set, s).len() ==> #[trigger] enc(set, s)[i] == '.'
    ensures enc(set, s) == s
    decreases s.len()
{
    if s.len() > 0 {
        let pre = enc(set, s.drop_last());
        let c = s.last();
        let e = enc_char(set, c);
        axiom_pct(c);
        assert forall|i: int| 0 <= i < pre.len() implies #[trigger] pre[i] == '.' by { assert((pre + e)[i] == pre[i]); }
        lemma_enc_all_dots(set, s.drop_last());
        assert((pre + e)[pre.len() as int] == e[0]);
        if escaped_c(set, c) { assert(pct_alphabet(pct(c)[0])); assert(false); }
        assert(e == seq![c]);
        assert(enc(set, s) =~= s);
    } else { assert(enc(set, s) =~= s); }
}

pub proof fn lemma_sub_fold_of_enc(set: SetId, segs: Seq<Seq<char>>)
    requires clean_sub_segs(segs), !escaped_c(set, '.')
    ensures sub_fold(enc_each(set, segs)) == Some(join_segs(segs))
    decreases segs.len()
{
    let es = enc_each(set, segs);
    if segs.len() > 0 {
        let init = segs.drop_last();
        assert forall|i: int| 0 <= i < init.len() implies clean_sub_seg(#[trigger] init[i]) by { assert(init[i] == segs[i]); }
        lemma_sub_fold_of_enc(set, init);
        assert(es.drop_last() =~= enc_each(set, init));
        assert(es.last() == enc(set, segs.last()));
        lemma_enc_len(set, segs.last());
        axiom_dec_enc(set, segs.last());
        lemma_enc_dot(set, segs.last());
        assert(clean_sub_seg(segs[segs.len() - 1]));
    }
}

/// trimming '/' does nothing to a text that neither starts nor ends with '/'
pub proof fn lemma_trim_noop(s: Seq<char>, c: char)
    requires s.len() == 0 || (s[0] != c && s.last() != c)
    ensures trim_spec(s, c) == s
{
    if s.len() > 0 { assert(trim_start_spec(s, c) == s); assert(trim_end_spec(s, c) == s); }
}

pub proof fn lemma_join_ends(segs: Seq<Seq<char>>)
    requires segs.len() > 0, slash_free_nonempty(segs)
    ensures join_segs(segs).len() > 0, join_segs(segs)[0] != '/', join_segs(segs).last() != '/'
    decreases segs.len()
{
    let init = segs.drop_last();
    let l = segs.last();
    assert(l.len() > 0 && !has_char(l, '/')) by { assert(segs[segs.len() - 1] == l); }
    assert(l[0] != '/'); assert(l[l.len() - 1] != '/');
    if init.len() == 0 {
        assert(join_segs(init) =~= Seq::<char>::empty());
    } else {
        assert forall|i: int| 0 <= i < init.len() implies (#[trigger] init[i]).len() > 0 && !has_char(init[i], '/') by { assert(init[i] == segs[i]); }
        lemma_join_ends(init);
        let j = join_segs(init);
        assert((j + seq!['/'] + l)[0] == j[0]);
        assert((j + seq!['/'] + l).last() == l.last());
    }
}

/// C07 / C01 (namespace): the printed namespace parses back to itself
pub proof fn lemma_ns_roundtrip(segs: Seq<Seq<char>>)
    requires segs.len() > 0, slash_free_nonempty(segs)
    ensures ns_fold(split_spec(trim_spec(enc(SetId::Path, join_segs(segs)), '/'), '/')) == Some(join_segs(segs))
{
    lemma_slash_unescaped();
    lemma_enc_join(SetId::Path, segs);
    let es = enc_each(SetId::Path, segs);
    lemma_join_ends(es);
    lemma_trim_noop(join_segs(es), '/');
    lemma_split_of_join(es);
    lemma_ns_fold_of_enc(SetId::Path, segs);
}

/// C07 / C01 (subpath)
pub proof fn lemma_sub_roundtrip(segs: Seq<Seq<char>>)
    requires segs.len() > 0, clean_sub_segs(segs)
    ensures sub_fold(split_spec(trim_spec(enc(SetId::Fragment, join_segs(segs)), '/'), '/')) == Some(join_segs(segs))
{
    lemma_slash_unescaped();
    assert(slash_free_nonempty(segs)) by { assert forall|i: int| 0 <= i < segs.len() implies (#[trigger] segs[i]).len() > 0 && !has_char(segs[i], '/') by { assert(clean_sub_seg(segs[i])); } }
    lemma_enc_join(SetId::Fragment, segs);
    let es = enc_each(SetId::Fragment, segs);
    lemma_join_ends(es);
    lemma_trim_noop(join_segs(es), '/');
    lemma_split_of_join(es);
    lemma_sub_fold_of_enc(SetId::Fragment, segs);
}

// ---- unit theory.inverse3  <= (contracts):0 ----
// ---- part 3: the qualifier text survives print -> split -> decode ----
pub open spec fn join_with(items: Seq<Seq<char>>, c: char) -> Seq<char> decreases items.len() {
    if items.len() == 0 { Seq::<char>::empty() }
    else if items.len() == 1 { items[0] }
    else { join_with(items.drop_last(), c) + seq![c] + items.last() }
}
pub proof fn lemma_split_of_join_with(items: Seq<Seq<char>>, c: char)
    requires items.len() > 0, forall|i: int| 0 <= i < items.len() ==> !has_char(#[trigger] items[i], c)
    ensures split_spec(join_with(items, c), c) == items
    decreases items.len()
{
    if items.len() == 1 {
        lemma_split_no_sep(items[0], c);
        assert(items =~= seq![items[0]]);
    } else {
        let init = items.drop_last();
        assert forall|i: int| 0 <= i < init.len() implies !has_char(#[trigger] init[i], c) by { assert(init[i] == items[i]); }
        lemma_split_of_join_with(init, c);
        assert(!has_char(items[items.len() - 1], c));
        lemma_split_append(join_with(init, c), items.last(), c);
        assert(init.push(items.last()) =~= items);
    }
}
pub proof fn lemma_join_with_excludes(items: Seq<Seq<char>>, c: char, x: char)
    requires x != c, forall|i: int| 0 <= i < items.len() ==> !has_char(#[trigger] items[i], x)
    ensures !has_char(join_with(items, c), x)
    decreases items.len()
{
    if items.len() == 1 { assert(!has_char(items[0], x)); }
    else if items.len() > 1 {
        let init = items.drop_last();
        assert forall|i: int| 0 <= i < init.len() implies !has_char(#[trigger] init[i], x) by { assert(init[i] == items[i]); }
        lemma_join_with_excludes(init, c, x);
        assert(!has_char(items[items.len() - 1], x));
        lemma_has_char_concat(join_with(init, c), seq![c], x);
        lemma_has_char_concat(join_with(init, c) + seq![c], items.last(), x);
        assert(!has_char(seq![c], x)) by { if has_char(seq![c], x) { let i = choose|i: int| 0 <= i < seq![c].len() && seq![c][i] == x; } }
    }
}

pub open spec fn q_item(kv: (QualifierKey, SmallString)) -> Seq<char> { enc(SetId::Query, kv.0.0@) + seq!['='] + enc(SetId::Query, kv.1@) }
pub open spec fn q_items(v: Seq<(QualifierKey, SmallString)>) -> Seq<Seq<char>> { v.map_values(|kv: (QualifierKey, SmallString)| q_item(kv)) }

pub proof fn lemma_quals_text_shape(v: Seq<(QualifierKey, SmallString)>)
    requires v.len() > 0
    ensures quals_text(v) == seq!['?'] + join_with(q_items(v), '&')
    decreases v.len()
{
    let items = q_items(v);
    if v.len() == 1 {
        assert(v.drop_last() =~= Seq::<(QualifierKey, SmallString)>::empty());
        assert(quals_text(v.drop_last()) =~= Seq::<char>::empty());
        assert(items[0] == q_item(v[0]));
        assert(quals_text(v) =~= seq!['?'] + join_with(items, '&'));
    } else {
        lemma_quals_text_shape(v.drop_last());
        assert(items.drop_last() =~= q_items(v.drop_last()));
        assert(items.last() == q_item(v.last()));
        assert(quals_text(v) =~= seq!['?'] + join_with(items, '&'));
    }
}

pub proof fn lemma_key_chars(k: Seq<char>)
    requires canon_key(k)
    ensures enc(SetId::Query, k) == k, !has_char(k, '='), !has_char(k, '&'), !has_char(k, '?'), !has_char(k, '#'), lower_ascii_seq(k) == k
{
    assert forall|i: int| 0 <= i < k.len() implies !escaped_c(SetId::Query, #[trigger] k[i]) by { assert(key_char(k[i])); assert(!ascii_upper_c(k[i])); }
    lemma_enc_identity(SetId::Query, k);
    assert forall|i: int| 0 <= i < k.len() implies k[i] != '=' && k[i] != '&' && k[i] != '?' && k[i] != '#' by { assert(key_char(k[i])); }
    lemma_lower_ascii_fixed(k);
}

pub proof fn lemma_q_item_chars(kv: (QualifierKey, SmallString))
    requires canon_key(kv.0.0@)
    ensures !has_char(q_item(kv), '&'), !has_char(q_item(kv), '?'), !has_char(q_item(kv), '#'),
        first_index_of(q_item(kv), '=') == kv.0.0@.len(),
        q_item(kv).subrange(0, kv.0.0@.len() as int) == kv.0.0@,
        q_item(kv).subrange(kv.0.0@.len() as int + 1, q_item(kv).len() as int) == enc(SetId::Query, kv.1@),
{
    let k = kv.0.0@;
    let ev = enc(SetId::Query, kv.1@);
    lemma_key_chars(k);
    lemma_enc_excludes(SetId::Query, kv.1@, '&');
    lemma_enc_excludes(SetId::Query, kv.1@, '?');
    lemma_enc_excludes(SetId::Query, kv.1@, '#');
    let it = q_item(kv);
    assert(it == k + seq!['='] + ev);
    lemma_has_char_concat(k, seq!['='], '&'); lemma_has_char_concat(k + seq!['='], ev, '&');
    lemma_has_char_concat(k, seq!['='], '?'); lemma_has_char_concat(k + seq!['='], ev, '?');
    lemma_has_char_concat(k, seq!['='], '#'); lemma_has_char_concat(k + seq!['='], ev, '#');
    assert(!has_char(seq!['='], '&') && !has_char(seq!['='], '?') && !has_char(seq!['='], '#')) by {
        assert forall|i: int| 0 <= i < seq!['='].len() implies seq!['='][i] == '=' by { }
    }
    lemma_split_join(k, ev, '=');
    assert(it.subrange(0, k.len() as int) =~= k);
    assert(it.subrange(k.len() as int + 1, it.len() as int) =~= ev);
}

pub proof fn lemma_kv_pos_end(acc: KV, k: Seq<char>)
    requires forall|i: int| 0 <= i < acc.len() ==> str_lt((#[trigger] acc[i]).0, k)
    ensures kv_pos_of(acc, k) == acc.len(), !kv_has_key(acc, k)
    decreases acc.len()
{
    if acc.len() > 0 {
        assert forall|i: int| 0 <= i < acc.drop_last().len() implies str_lt((#[trigger] acc.drop_last()[i]).0, k) by { assert(acc.drop_last()[i] == acc[i]); }
        lemma_kv_pos_end(acc.drop_last(), k);
        assert(str_lt(acc[acc.len() - 1].0, k));
    }
    lemma_lt_irrefl(k);
    if kv_has_key(acc, k) { let i = choose|i: int| 0 <= i < acc.len() && (#[trigger] acc[i]).0 == k; assert(str_lt(acc[i].0, k)); }
}

/// folding the printed items gives the pairs back
pub proof fn lemma_dq_fold_items(v: Seq<(QualifierKey, SmallString)>)
    requires wf_seq(v), forall|i: int| 0 <= i < v.len() ==> (#[trigger] v[i]).1@.len() > 0
    ensures dq_fold(q_items(v), Seq::<(Seq<char>, Seq<char>)>::empty()) == Ok::<KV, DqErr>(kvs(v))
    decreases v.len()
{
    let items = q_items(v);
    let e = Seq::<(Seq<char>, Seq<char>)>::empty();
    if v.len() == 0 {
        assert(kvs(v) =~= e);
    } else {
        let init = v.drop_last();
        assert(wf_seq(init)) by {
            assert forall|a: int, b: int| 0 <= a < b < init.len() implies str_lt(#[trigger] init[a].0.0@, #[trigger] init[b].0.0@) by { assert(init[a] == v[a]); assert(init[b] == v[b]); }
            assert forall|a: int| 0 <= a < init.len() implies canon_key(#[trigger] init[a].0.0@) by { assert(init[a] == v[a]); }
        }
        assert forall|i: int| 0 <= i < init.len() implies (#[trigger] init[i]).1@.len() > 0 by { assert(init[i] == v[i]); }
        lemma_dq_fold_items(init);
        assert(items.drop_last() =~= q_items(init));
        let kv = v.last();
        assert(items.last() == q_item(kv));
        assert(canon_key(v[v.len() - 1].0.0@));
        lemma_q_item_chars(kv);
        let k = kv.0.0@;
        lemma_key_chars(k);
        axiom_dec_enc(SetId::Query, kv.1@);
        let acc = kvs(init);
        assert forall|i: int| 0 <= i < acc.len() implies str_lt((#[trigger] acc[i]).0, k) by {
            assert(acc[i].0 == init[i].0.0@); assert(init[i] == v[i]);
            assert(str_lt(v[i].0.0@, v[v.len() - 1].0.0@));
        }
        lemma_kv_pos_end(acc, k);
        assert(v[v.len() - 1].1@.len() > 0);
        assert(acc.insert(acc.len() as int, (k, kv.1@)) =~= kvs(v));
    }
}

// ---- unit theory.inverse4  <= (contracts):0 ----
// ---- part 4: phase_a / phase_b applied to canon_spec ----
pub open spec fn rest_of(p: PurlParts) -> Seq<char> {
    opt_part(p.namespace@.len() > 0, enc(SetId::Path, p.namespace@) + "/"@)
    + enc(SetId::Segment, p.name@)
    + opt_part(p.version@.len() > 0, "@"@ + enc(SetId::Path, p.version@))
}

/// the parts of a PURL handed out by the library (C04 / C07): what build() and the decoders guarantee
pub open spec fn norm_parts(p: PurlParts, ns_segs: Seq<Seq<char>>, sub_segs: Seq<Seq<char>>) -> bool {
    p.name@.len() > 0
    && (if p.namespace@.len() == 0 { ns_segs.len() == 0 } else { ns_segs.len() > 0 && slash_free_nonempty(ns_segs) && p.namespace@ == join_segs(ns_segs) })
    && (if p.subpath@.len() == 0 { sub_segs.len() == 0 } else { sub_segs.len() > 0 && clean_sub_segs(sub_segs) && p.subpath@ == join_segs(sub_segs) })
    && wf_seq(p.qualifiers.qualifiers@)
    && (forall|i: int| 0 <= i < p.qualifiers.qualifiers@.len() ==> (#[trigger] p.qualifiers.qualifiers@[i]).1@.len() > 0)
}

pub proof fn lemma_lits()
    ensures "/"@ == seq!['/'], "@"@ == seq!['@'], "#"@ == seq!['#'], "pkg:"@.len() == 4
{
    reveal_strlit("/"); reveal_strlit("@"); reveal_strlit("#"); reveal_strlit("pkg:");
    assert("/"@ =~= seq!['/']); assert("@"@ =~= seq!['@']); assert("#"@ =~= seq!['#']);
}

pub proof fn lemma_type_excludes(ty: Seq<char>, x: char)
    requires valid_type(ty), x == '#' || x == '?' || x == '@' || x == '/'
    ensures !has_char(ty, x), ty.len() > 0, ty[0] != '/'
{
    if has_char(ty, x) { let i = choose|i: int| 0 <= i < ty.len() && ty[i] == x; assert(type_char(ty[i])); }
    assert(type_char(ty[0]));
}

/// the path part after the type contains neither '#' nor '?'
pub proof fn lemma_rest_excludes(p: PurlParts, x: char)
    requires x == '#' || x == '?'
    ensures !has_char(rest_of(p), x)
{
    lemma_lits();
    let a = opt_part(p.namespace@.len() > 0, enc(SetId::Path, p.namespace@) + "/"@);
    let b = enc(SetId::Segment, p.name@);
    let c = opt_part(p.version@.len() > 0, "@"@ + enc(SetId::Path, p.version@));
    lemma_enc_excludes(SetId::Path, p.namespace@, x);
    lemma_enc_excludes(SetId::Segment, p.name@, x);
    lemma_enc_excludes(SetId::Path, p.version@, x);
    lemma_single_excludes('/', x);
    lemma_single_excludes('@', x);
    lemma_has_char_concat(enc(SetId::Path, p.namespace@), seq!['/'], x);
    lemma_has_char_concat(seq!['@'], enc(SetId::Path, p.version@), x);
    lemma_has_char_concat(a, b, x);
    lemma_has_char_concat(a + b, c, x);
    assert(!has_char(Seq::<char>::empty(), x));
}

pub proof fn lemma_quals_text_excludes_hash(v: Seq<(QualifierKey, SmallString)>)
    requires keys_canon(v)
    ensures !has_char(quals_text(v), '#')
    decreases v.len()
{
    if v.len() > 0 {
        assert(keys_canon(v.drop_last())) by { assert forall|i: int| 0 <= i < v.drop_last().len() implies canon_key(#[trigger] v.drop_last()[i].0.0@) by { assert(v.drop_last()[i] == v[i]); } }
        lemma_quals_text_excludes_hash(v.drop_last());
        let kv = v.last();
        assert(canon_key(v[v.len() - 1].0.0@));
        lemma_key_chars(kv.0.0@);
        lemma_enc_excludes(SetId::Query, kv.1@, '#');
        let sep = seq![if v.len() == 1 { '?' } else { '&' }];
        lemma_single_excludes(if v.len() == 1 { '?' } else { '&' }, '#');
        lemma_single_excludes('=', '#');
        let t0 = quals_text(v.drop_last());
        lemma_has_char_concat(t0, sep, '#');
        lemma_has_char_concat(t0 + sep, enc(SetId::Query, kv.0.0@), '#');
        lemma_has_char_concat(t0 + sep + enc(SetId::Query, kv.0.0@), seq!['='], '#');
        lemma_has_char_concat(t0 + sep + enc(SetId::Query, kv.0.0@) + seq!['='], enc(SetId::Query, kv.1@), '#');
    }
}

/// phase B on the path part
pub proof fn lemma_phase_b_canon(p: PurlParts, ns_segs: Seq<Seq<char>>, sub_segs: Seq<Seq<char>>)
    requires norm_parts(p, ns_segs, sub_segs)
    ensures phase_b(rest_of(p)) == Ok::<PhaseB, ParseError>(PhaseB { ns: p.namespace@, name: p.name@, version: p.version@ })
{
    // the general statement (part 6) specialised: for clean segments nothing is dropped
    lemma_phase_b_canon_gen(p);
    if p.namespace@.len() > 0 { lemma_sig_ns_normal(ns_segs); assert(p.namespace@ == join_segs(ns_segs)); }
    else { lemma_sig_empty(); assert(p.namespace@ =~= Seq::<char>::empty()); }
}

pub open spec fn c_l2(ty: Seq<char>, p: PurlParts) -> Seq<char> { ty + seq!['/'] + rest_of(p) }
pub open spec fn c_l(ty: Seq<char>, p: PurlParts) -> Seq<char> { c_l2(ty, p) + quals_text(p.qualifiers.qualifiers@) }
pub open spec fn c_b(ty: Seq<char>, p: PurlParts) -> Seq<char> { c_l(ty, p) + opt_part(p.subpath@.len() > 0, seq!['#'] + enc(SetId::Fragment, p.subpath@)) }

/// stage 1: scheme and leading slashes
pub proof fn lemma_pa_scheme(ty: Seq<char>, p: PurlParts)
    requires valid_type(ty)
    ensures
        has_prefix(canon_spec(ty, p), "pkg:"@),
        trim_start_spec(canon_spec(ty, p).subrange("pkg:"@.len() as int, canon_spec(ty, p).len() as int), '/') == c_b(ty, p),
{
    lemma_lits();
    let s = canon_spec(ty, p);
    let b = c_b(ty, p);
    assert(s =~= "pkg:"@ + b);
    assert(s.subrange(0, "pkg:"@.len() as int) =~= "pkg:"@);
    assert(s.subrange("pkg:"@.len() as int, s.len() as int) =~= b);
    lemma_type_excludes(ty, '/');
    assert(b[0] == ty[0]);
    assert(trim_start_spec(b, '/') == b);
}

/// stage 2: the subpath is what follows the last '#'
pub proof fn lemma_pa_subpath(ty: Seq<char>, p: PurlParts, ns_segs: Seq<Seq<char>>, sub_segs: Seq<Seq<char>>)
    requires valid_type(ty), norm_parts(p, ns_segs, sub_segs)
    ensures
        rsplit_at(c_b(ty, p), '#').0 == c_l(ty, p),
        (match rsplit_at(c_b(ty, p), '#').1 { None => Some(Seq::<char>::empty()), Some(x) => sub_fold(split_spec(trim_spec(x, '/'), '/')) }) == Some(p.subpath@),
{
    lemma_lits();
    let q = p.qualifiers.qualifiers@;
    let r = rest_of(p);
    let l2 = c_l2(ty, p);
    let l = c_l(ty, p);
    let b = c_b(ty, p);
    let es = enc(SetId::Fragment, p.subpath@);
    lemma_type_excludes(ty, '#');
    lemma_rest_excludes(p, '#');
    lemma_quals_text_excludes_hash(q);
    lemma_single_excludes('/', '#');
    lemma_has_char_concat(ty, seq!['/'], '#');
    lemma_has_char_concat(ty + seq!['/'], r, '#');
    lemma_has_char_concat(l2, quals_text(q), '#');
    assert(!has_char(l, '#'));
    lemma_enc_excludes(SetId::Fragment, p.subpath@, '#');
    if p.subpath@.len() > 0 {
        assert(b =~= l + seq!['#'] + es);
        lemma_rsplit_join(l, es, '#');
        assert(b.subrange(0, l.len() as int) =~= l);
        assert(b.subrange(l.len() as int + 1, b.len() as int) =~= es);
        lemma_sub_roundtrip(sub_segs);
    } else {
        assert(b =~= l);
        lemma_last_index(l, '#');
        assert(p.subpath@ =~= Seq::<char>::empty());
    }
}

/// stage 3: the qualifiers are what follows the last '?'
pub proof fn lemma_pa_quals(ty: Seq<char>, p: PurlParts, ns_segs: Seq<Seq<char>>, sub_segs: Seq<Seq<char>>)
    requires valid_type(ty), norm_parts(p, ns_segs, sub_segs)
    ensures
        rsplit_at(c_l(ty, p), '?').0 == c_l2(ty, p),
        (match rsplit_at(c_l(ty, p), '?').1 {
            None => Ok::<KV, DqErr>(Seq::<(Seq<char>, Seq<char>)>::empty()),
            Some(x) => dq_fold(split_spec(x, '&'), Seq::<(Seq<char>, Seq<char>)>::empty()),
        }) == Ok::<KV, DqErr>(kvs(p.qualifiers.qualifiers@)),
{
    lemma_lits();
    let q = p.qualifiers.qualifiers@;
    let r = rest_of(p);
    let l2 = c_l2(ty, p);
    let l = c_l(ty, p);
    lemma_type_excludes(ty, '?');
    lemma_rest_excludes(p, '?');
    lemma_single_excludes('/', '?');
    lemma_has_char_concat(ty, seq!['/'], '?');
    lemma_has_char_concat(ty + seq!['/'], r, '?');
    assert(!has_char(l2, '?'));
    if q.len() > 0 {
        let items = q_items(q);
        let j = join_with(items, '&');
        lemma_quals_text_shape(q);
        assert forall|i: int| 0 <= i < items.len() implies !has_char(#[trigger] items[i], '?') && !has_char(items[i], '&') by {
            assert(canon_key(q[i].0.0@));
            lemma_q_item_chars(q[i]);
            assert(items[i] == q_item(q[i]));
        }
        lemma_join_with_excludes(items, '&', '?');
        assert(l =~= l2 + seq!['?'] + j);
        lemma_rsplit_join(l2, j, '?');
        assert(l.subrange(0, l2.len() as int) =~= l2);
        assert(l.subrange(l2.len() as int + 1, l.len() as int) =~= j);
        lemma_split_of_join_with(items, '&');
        lemma_dq_fold_items(q);
    } else {
        assert(quals_text(q) =~= Seq::<char>::empty());
        assert(l =~= l2);
        lemma_last_index(l2, '?');
        assert(kvs(q) =~= Seq::<(Seq<char>, Seq<char>)>::empty());
    }
}

/// stage 4: the type is what precedes the first '/'
pub proof fn lemma_pa_type(ty: Seq<char>, p: PurlParts)
    requires valid_type(ty)
    ensures
        c_l2(ty, p).len() > 0, first_index_of(c_l2(ty, p), '/') == ty.len(),
        c_l2(ty, p).subrange(0, ty.len() as int) == ty,
        c_l2(ty, p).subrange(ty.len() as int + 1, c_l2(ty, p).len() as int) == rest_of(p),
{
    let r = rest_of(p);
    let l2 = c_l2(ty, p);
    lemma_type_excludes(ty, '/');
    lemma_split_join(ty, r, '/');
    assert(l2.subrange(0, ty.len() as int) =~= ty);
    assert(l2.subrange(ty.len() as int + 1, l2.len() as int) =~= r);
}

/// C01 / C09: phase A on the canonical string
pub proof fn lemma_phase_a_canon(ty: Seq<char>, p: PurlParts, ns_segs: Seq<Seq<char>>, sub_segs: Seq<Seq<char>>)
    requires valid_type(ty), norm_parts(p, ns_segs, sub_segs)
    ensures phase_a(canon_spec(ty, p)) == Ok::<PhaseA, ParseError>(PhaseA { ty, rest: rest_of(p), sub: p.subpath@, kv: kvs(p.qualifiers.qualifiers@) })
{
    lemma_pa_scheme(ty, p);
    lemma_pa_subpath(ty, p, ns_segs, sub_segs);
    lemma_pa_quals(ty, p, ns_segs, sub_segs);
    lemma_pa_type(ty, p);
}

/// C01 / C09 / C19, the inverse direction: parsing the canonical string of normalised parts yields exactly those parts
pub proof fn lemma_parse_canon(ty: Seq<char>, p: PurlParts, ns_segs: Seq<Seq<char>>, sub_segs: Seq<Seq<char>>)
    requires valid_type(ty), norm_parts(p, ns_segs, sub_segs)
    ensures
        phase_a(canon_spec(ty, p)) == Ok::<PhaseA, ParseError>(PhaseA { ty, rest: rest_of(p), sub: p.subpath@, kv: kvs(p.qualifiers.qualifiers@) }),
        phase_b(rest_of(p)) == Ok::<PhaseB, ParseError>(PhaseB { ns: p.namespace@, name: p.name@, version: p.version@ }),
{
    lemma_phase_a_canon(ty, p, ns_segs, sub_segs);
    lemma_phase_b_canon(p, ns_segs, sub_segs);
}

/// C19 (one direction): two normalised values with the same canonical string have the same fields
pub proof fn lemma_canon_injective(ty1: Seq<char>, p1: PurlParts, n1: Seq<Seq<char>>, s1: Seq<Seq<char>>,
                                   ty2: Seq<char>, p2: PurlParts, n2: Seq<Seq<char>>, s2: Seq<Seq<char>>)
    requires valid_type(ty1), norm_parts(p1, n1, s1), valid_type(ty2), norm_parts(p2, n2, s2), canon_spec(ty1, p1) == canon_spec(ty2, p2)
    ensures ty1 == ty2, p1.namespace@ == p2.namespace@, p1.name@ == p2.name@, p1.version@ == p2.version@, p1.subpath@ == p2.subpath@,
        kvs(p1.qualifiers.qualifiers@) == kvs(p2.qualifiers.qualifiers@)
{
    lemma_parse_canon(ty1, p1, n1, s1);
    lemma_parse_canon(ty2, p2, n2, s2);
}

// ---- unit theory.inverse5  <= (contracts):0 ----
// ---- part 5 (C09): the inverse direction for ARBITRARY namespace / subpath texts ----
// A builder may put any text into namespace and subpath. Printing and parsing then gives back the text "after dropping
// insignificant segments": the non-empty '/'-pieces of the namespace, the pieces of the subpath that are not "", "." or "..".
pub open spec fn keep_ns(ps: Seq<Seq<char>>) -> Seq<Seq<char>> decreases ps.len() {
    if ps.len() == 0 { Seq::<Seq<char>>::empty() } else if ns_skipped(ps.last()) { keep_ns(ps.drop_last()) } else { keep_ns(ps.drop_last()).push(ps.last()) }
}
pub open spec fn keep_sub(ps: Seq<Seq<char>>) -> Seq<Seq<char>> decreases ps.len() {
    if ps.len() == 0 { Seq::<Seq<char>>::empty() } else if sub_skipped(ps.last()) { keep_sub(ps.drop_last()) } else { keep_sub(ps.drop_last()).push(ps.last()) }
}
/// C09: "namespace and subpath compared after dropping insignificant segments (empty ones, and '.'/'..' in the subpath)"
pub open spec fn sig_ns(n: Seq<char>) -> Seq<char> { join_segs(keep_ns(split_spec(n, '/'))) }
pub open spec fn sig_sub(s: Seq<char>) -> Seq<char> { join_segs(keep_sub(split_spec(s, '/'))) }

pub open spec fn slash_free(ps: Seq<Seq<char>>) -> bool { forall|i: int| 0 <= i < ps.len() ==> !has_char(#[trigger] ps[i], '/') }

/// folding the encoded pieces with the namespace rule: the '/'-join of the non-empty pieces
pub proof fn lemma_ns_fold_of_enc_gen(set: SetId, ps: Seq<Seq<char>>)
    requires slash_free(ps)
    ensures ns_fold(enc_each(set, ps)) == Some(join_segs(keep_ns(ps)))
    decreases ps.len()
{
    let es = enc_each(set, ps);
    if ps.len() > 0 {
        let init = ps.drop_last();
        assert(slash_free(init)) by { assert forall|i: int| 0 <= i < init.len() implies !has_char(#[trigger] init[i], '/') by { assert(init[i] == ps[i]); } }
        lemma_ns_fold_of_enc_gen(set, init);
        assert(es.drop_last() =~= enc_each(set, init));
        assert(es.last() == enc(set, ps.last()));
        lemma_enc_len(set, ps.last());
        axiom_dec_enc(set, ps.last());
        assert(!has_char(ps[ps.len() - 1], '/'));
        assert(keep_ns(init).push(ps.last()).drop_last() =~= keep_ns(init));
    }
}

pub proof fn lemma_dotdot_is_all_dots(s: Seq<char>)
    ensures is_dot(s) ==> (s.len() == 1 && s[0] == '.'), is_dotdot(s) ==> (s.len() == 2 && s[0] == '.' && s[1] == '.'),
        (s.len() == 1 && s[0] == '.') ==> is_dot(s), (s.len() == 2 && s[0] == '.' && s[1] == '.') ==> is_dotdot(s)
{
    if s.len() == 1 && s[0] == '.' { assert(s =~= seq!['.']); }
    if s.len() == 2 && s[0] == '.' && s[1] == '.' { assert(s =~= seq!['.', '.']); }
}

/// an encoding is "", "." or ".." exactly when the text is (no escape set touches '.', escapes contain '%')
pub proof fn lemma_enc_skipped(set: SetId, s: Seq<char>)
    requires !escaped_c(set, '.')
    ensures sub_skipped(enc(set, s)) == sub_skipped(s)
{
    lemma_enc_len(set, s);
    lemma_enc_dot(set, s);
    if is_dot(s) || is_dotdot(s) {
        assert forall|i: int| 0 <= i < s.len() implies !escaped_c(set, #[trigger] s[i]) by { }
        lemma_enc_identity(set, s);
    }
}

/// folding the encoded pieces with the subpath rule: the '/'-join of the pieces that are not "", "." or ".."
pub proof fn lemma_sub_fold_of_enc_gen(set: SetId, ps: Seq<Seq<char>>)
    requires slash_free(ps), !escaped_c(set, '.')
    ensures sub_fold(enc_each(set, ps)) == Some(join_segs(keep_sub(ps)))
    decreases ps.len()
{
    let es = enc_each(set, ps);
    if ps.len() > 0 {
        let init = ps.drop_last();
        assert(slash_free(init)) by { assert forall|i: int| 0 <= i < init.len() implies !has_char(#[trigger] init[i], '/') by { assert(init[i] == ps[i]); } }
        lemma_sub_fold_of_enc_gen(set, init);
        assert(es.drop_last() =~= enc_each(set, init));
        assert(es.last() == enc(set, ps.last()));
        lemma_enc_skipped(set, ps.last());
        axiom_dec_enc(set, ps.last());
        assert(!has_char(ps[ps.len() - 1], '/'));
        assert(keep_sub(init).push(ps.last()).drop_last() =~= keep_sub(init));
    }
}

/// encoding with a set that leaves '/' alone commutes with splitting at '/'
pub proof fn lemma_split_of_enc(set: SetId, s: Seq<char>)
    requires !escaped_c(set, '/')
    ensures split_spec(enc(set, s), '/') == enc_each(set, split_spec(s, '/'))
    decreases s.len()
{
    lemma_slash_unescaped();
    lemma_first_index(s, '/');
    lemma_enc_preserves(set, s, '/');
    let f = first_index_of(s, '/');
    if f < 0 || f >= s.len() {
        lemma_split_no_sep(s, '/');
        lemma_split_no_sep(enc(set, s), '/');
        assert(enc_each(set, seq![s]) =~= seq![enc(set, s)]);
    } else {
        let a = s.subrange(0, f);
        let rest = s.subrange(f + 1, s.len() as int);
        assert(s =~= a + seq!['/'] + rest);
        if has_char(a, '/') { let i = choose|i: int| 0 <= i < a.len() && a[i] == '/'; assert(s[i] == '/'); }
        lemma_enc_concat(set, a + seq!['/'], rest);
        lemma_enc_concat(set, a, seq!['/']);
        lemma_enc_single(set, '/');
        let ea = enc(set, a);
        let er = enc(set, rest);
        assert(enc(set, s) =~= ea + seq!['/'] + er);
        lemma_enc_preserves(set, a, '/');
        lemma_split_join(ea, er, '/');
        let e = enc(set, s);
        assert(e.subrange(0, ea.len() as int) =~= ea);
        assert(e.subrange(ea.len() as int + 1, e.len() as int) =~= er);
        lemma_split_of_enc(set, rest);
        assert(split_spec(s, '/') =~= seq![a] + split_spec(rest, '/'));
        assert(split_spec(e, '/') =~= seq![ea] + split_spec(er, '/'));
        assert(enc_each(set, seq![a] + split_spec(rest, '/')) =~= seq![ea] + enc_each(set, split_spec(rest, '/')));
    }
}

/// a skipped first piece does not change the fold
pub proof fn lemma_ns_fold_prepend(e: Seq<char>, ps: Seq<Seq<char>>)
    requires ns_skipped(e)
    ensures ns_fold(seq![e] + ps) == ns_fold(ps)
    decreases ps.len()
{
    let all = seq![e] + ps;
    if ps.len() == 0 {
        assert(all =~= seq![e]);
        assert(all.drop_last() =~= Seq::<Seq<char>>::empty());
        assert(all.last() == e);
        assert(ns_fold(Seq::<Seq<char>>::empty()) == Some(Seq::<char>::empty()));
        assert(ps =~= Seq::<Seq<char>>::empty());
    } else {
        assert(all.drop_last() =~= seq![e] + ps.drop_last());
        assert(all.last() == ps.last());
        lemma_ns_fold_prepend(e, ps.drop_last());
    }
}
pub proof fn lemma_sub_fold_prepend(e: Seq<char>, ps: Seq<Seq<char>>)
    requires sub_skipped(e)
    ensures sub_fold(seq![e] + ps) == sub_fold(ps)
    decreases ps.len()
{
    let all = seq![e] + ps;
    if ps.len() == 0 {
        assert(all =~= seq![e]);
        assert(all.drop_last() =~= Seq::<Seq<char>>::empty());
        assert(all.last() == e);
        assert(sub_fold(Seq::<Seq<char>>::empty()) == Some(Seq::<char>::empty()));
        assert(ps =~= Seq::<Seq<char>>::empty());
    } else {
        assert(all.drop_last() =~= seq![e] + ps.drop_last());
        assert(all.last() == ps.last());
        lemma_sub_fold_prepend(e, ps.drop_last());
    }
}

/// trimming '/' at both ends only removes empty pieces, which both folds skip
pub proof fn lemma_fold_trim_start(x: Seq<char>)
    ensures ns_fold(split_spec(trim_start_spec(x, '/'), '/')) == ns_fold(split_spec(x, '/')),
        sub_fold(split_spec(trim_start_spec(x, '/'), '/')) == sub_fold(split_spec(x, '/')),
    decreases x.len()
{
    if x.len() > 0 && x[0] == '/' {
        let y = x.subrange(1, x.len() as int);
        lemma_fold_trim_start(y);
        lemma_first_index(x, '/');
        assert(first_index_of(x, '/') == 0);
        assert(x.subrange(0, 0) =~= Seq::<char>::empty());
        assert(split_spec(x, '/') =~= seq![Seq::<char>::empty()] + split_spec(y, '/'));
        lemma_ns_fold_prepend(Seq::<char>::empty(), split_spec(y, '/'));
        lemma_sub_fold_prepend(Seq::<char>::empty(), split_spec(y, '/'));
    }
}
pub proof fn lemma_fold_trim_end(x: Seq<char>)
    ensures ns_fold(split_spec(trim_end_spec(x, '/'), '/')) == ns_fold(split_spec(x, '/')),
        sub_fold(split_spec(trim_end_spec(x, '/'), '/')) == sub_fold(split_spec(x, '/')),
    decreases x.len()
{
    if x.len() > 0 && x.last() == '/' {
        let y = x.drop_last();
        lemma_fold_trim_end(y);
        let e = Seq::<char>::empty();
        assert(!has_char(e, '/'));
        lemma_split_append(y, e, '/');
        assert(y + seq!['/'] + e =~= x);
        let ps = split_spec(y, '/');
        assert(ps.push(e).drop_last() =~= ps);
    }
}

/// C09 (namespace): print -> split -> decode gives the text after dropping empty segments
pub proof fn lemma_ns_roundtrip_gen(n: Seq<char>)
    ensures ns_fold(split_spec(trim_spec(enc(SetId::Path, n), '/'), '/')) == Some(sig_ns(n))
{
    lemma_slash_unescaped();
    let e = enc(SetId::Path, n);
    lemma_fold_trim_end(trim_start_spec(e, '/'));
    lemma_fold_trim_start(e);
    lemma_split_of_enc(SetId::Path, n);
    lemma_split_pieces_no_sep(n, '/');
    lemma_ns_fold_of_enc_gen(SetId::Path, split_spec(n, '/'));
}
/// C09 (subpath): ... after dropping "", "." and ".." segments
pub proof fn lemma_sub_roundtrip_gen(s: Seq<char>)
    ensures sub_fold(split_spec(trim_spec(enc(SetId::Fragment, s), '/'), '/')) == Some(sig_sub(s))
{
    lemma_slash_unescaped();
    let e = enc(SetId::Fragment, s);
    lemma_fold_trim_end(trim_start_spec(e, '/'));
    lemma_fold_trim_start(e);
    lemma_split_of_enc(SetId::Fragment, s);
    lemma_split_pieces_no_sep(s, '/');
    lemma_sub_fold_of_enc_gen(SetId::Fragment, split_spec(s, '/'));
}

// ---- a namespace with a significant segment keeps one (C08: the maven rule is stable under print -> parse) ----
pub proof fn lemma_split_has_nonempty(n: Seq<char>)
    requires !all_char(n, '/')
    ensures exists|j: int| 0 <= j < split_spec(n, '/').len() && (#[trigger] split_spec(n, '/')[j]).len() > 0
    decreases n.len()
{
    lemma_first_index(n, '/');
    let f = first_index_of(n, '/');
    let k = choose|k: int| 0 <= k < n.len() && n[k] != '/';
    if f < 0 || f >= n.len() {
        assert(split_spec(n, '/') =~= seq![n]);
        assert(split_spec(n, '/')[0].len() > 0);
    } else {
        let head = n.subrange(0, f);
        let rest = n.subrange(f + 1, n.len() as int);
        let ps = split_spec(n, '/');
        assert(ps =~= seq![head] + split_spec(rest, '/'));
        if head.len() > 0 { assert(ps[0] == head); }
        else {
            assert(f == 0);
            assert(rest[k - 1] == n[k]);
            assert(!all_char(rest, '/'));
            lemma_split_has_nonempty(rest);
            let j = choose|j: int| 0 <= j < split_spec(rest, '/').len() && (#[trigger] split_spec(rest, '/')[j]).len() > 0;
            assert(ps[j + 1] == split_spec(rest, '/')[j]);
        }
    }
}

pub proof fn lemma_keep_ns_props(ps: Seq<Seq<char>>)
    requires slash_free(ps)
    ensures slash_free_nonempty(keep_ns(ps)),
        (exists|j: int| 0 <= j < ps.len() && (#[trigger] ps[j]).len() > 0) ==> keep_ns(ps).len() > 0
    decreases ps.len()
{
    if ps.len() > 0 {
        let init = ps.drop_last();
        assert(slash_free(init)) by { assert forall|i: int| 0 <= i < init.len() implies !has_char(#[trigger] init[i], '/') by { assert(init[i] == ps[i]); } }
        lemma_keep_ns_props(init);
        let k = keep_ns(ps);
        assert(!has_char(ps[ps.len() - 1], '/'));
        assert forall|i: int| 0 <= i < k.len() implies (#[trigger] k[i]).len() > 0 && !has_char(k[i], '/') by {
            if ns_skipped(ps.last()) { assert(k[i] == keep_ns(init)[i]); }
            else if i < keep_ns(init).len() { assert(k[i] == keep_ns(init)[i]); } else { assert(k[i] == ps.last()); }
        }
        if exists|j: int| 0 <= j < ps.len() && (#[trigger] ps[j]).len() > 0 {
            let j = choose|j: int| 0 <= j < ps.len() && (#[trigger] ps[j]).len() > 0;
            if j < init.len() { assert(init[j] == ps[j]); }
        }
    }
}

pub proof fn lemma_sig_ns_all_slash(n: Seq<char>)
    requires !all_char(n, '/')
    ensures sig_ns(n).len() > 0, !all_char(sig_ns(n), '/')
{
    lemma_split_has_nonempty(n);
    lemma_split_pieces_no_sep(n, '/');
    let ps = split_spec(n, '/');
    assert(slash_free(ps));
    lemma_keep_ns_props(ps);
    lemma_join_ends(keep_ns(ps));
    assert(sig_ns(n)[0] != '/');
}

// ---- for clean segments nothing is dropped ----
pub proof fn lemma_keep_ns_all(segs: Seq<Seq<char>>)
    requires slash_free_nonempty(segs)
    ensures keep_ns(segs) == segs
    decreases segs.len()
{
    if segs.len() > 0 {
        let init = segs.drop_last();
        assert forall|i: int| 0 <= i < init.len() implies (#[trigger] init[i]).len() > 0 && !has_char(init[i], '/') by { assert(init[i] == segs[i]); }
        lemma_keep_ns_all(init);
        assert(segs[segs.len() - 1].len() > 0);
        assert(init.push(segs.last()) =~= segs);
    } else {
        assert(keep_ns(segs) =~= segs);
    }
}
pub proof fn lemma_sig_ns_normal(segs: Seq<Seq<char>>)
    requires segs.len() > 0, slash_free_nonempty(segs)
    ensures sig_ns(join_segs(segs)) == join_segs(segs)
{
    lemma_split_of_join(segs);
    lemma_keep_ns_all(segs);
}

// ---- unit theory.inverse6  <= (contracts):0 ----
// ---- part 6 (C09): phase_a / phase_b applied to canon_spec of ARBITRARY handed-out parts ----
// (derived from part 4 by replacing the two round-trip steps with their general versions; the raw splits are exposed as well,
// for the injectivity theorem of C19)
/// what build() guarantees of the parts whatever the builder was given: a name, the qualifier invariant, no empty value
pub open spec fn gen_parts(p: PurlParts) -> bool {
    p.name@.len() > 0 && wf_seq(p.qualifiers.qualifiers@)
    && (forall|i: int| 0 <= i < p.qualifiers.qualifiers@.len() ==> (#[trigger] p.qualifiers.qualifiers@[i]).1@.len() > 0)
}

pub proof fn lemma_sig_empty()
    ensures sig_ns(Seq::<char>::empty()) == Seq::<char>::empty(), sig_sub(Seq::<char>::empty()) == Seq::<char>::empty()
{
    let e = Seq::<char>::empty();
    lemma_first_index(e, '/');
    assert(split_spec(e, '/') =~= seq![e]);
    let one = seq![e];
    assert(one.drop_last() =~= Seq::<Seq<char>>::empty());
    assert(one.last() == e);
    assert(ns_skipped(e) && sub_skipped(e));
    assert(keep_ns(Seq::<Seq<char>>::empty()) =~= Seq::<Seq<char>>::empty());
    assert(keep_sub(Seq::<Seq<char>>::empty()) =~= Seq::<Seq<char>>::empty());
    assert(keep_ns(one) == keep_ns(one.drop_last()));
    assert(keep_sub(one) == keep_sub(one.drop_last()));
    assert(join_segs(Seq::<Seq<char>>::empty()) =~= Seq::<char>::empty());
}

pub open spec fn r1_of(p: PurlParts) -> Seq<char> {
    opt_part(p.namespace@.len() > 0, enc(SetId::Path, p.namespace@) + seq!['/']) + enc(SetId::Segment, p.name@)
}

/// the version is what follows the last '@' of the path part
pub proof fn lemma_pb_version_gen(p: PurlParts)
    ensures
        rsplit_at(rest_of(p), '@').0 == r1_of(p),
        (match rsplit_at(rest_of(p), '@').1 { None => Some(Seq::<char>::empty()), Some(x) => dec(x) }) == Some(p.version@),
        rsplit_at(rest_of(p), '@').1 == (if p.version@.len() > 0 { Some(enc(SetId::Path, p.version@)) } else { None::<Seq<char>> }),
{
    lemma_lits();
    let ens = enc(SetId::Path, p.namespace@);
    let en = enc(SetId::Segment, p.name@);
    let ev = enc(SetId::Path, p.version@);
    let nsp = opt_part(p.namespace@.len() > 0, ens + seq!['/']);
    let r1 = r1_of(p);
    let r = rest_of(p);
    lemma_enc_excludes(SetId::Path, p.namespace@, '@');
    lemma_enc_excludes(SetId::Segment, p.name@, '@');
    lemma_enc_excludes(SetId::Path, p.version@, '@');
    lemma_single_excludes('/', '@');
    lemma_has_char_concat(ens, seq!['/'], '@');
    lemma_has_char_concat(nsp, en, '@');
    assert(!has_char(Seq::<char>::empty(), '@'));
    assert(!has_char(r1, '@'));
    if p.version@.len() > 0 {
        assert(r =~= r1 + seq!['@'] + ev);
        lemma_rsplit_join(r1, ev, '@');
        assert(r.subrange(0, r1.len() as int) =~= r1);
        assert(r.subrange(r1.len() as int + 1, r.len() as int) =~= ev);
        axiom_dec_enc(SetId::Path, p.version@);
    } else {
        assert(r =~= r1);
        lemma_last_index(r1, '@');
        assert(p.version@ =~= Seq::<char>::empty());
    }
}

/// the name is what follows the last '/' of what precedes the version; the namespace is what precedes it
pub proof fn lemma_pb_ns_name_gen(p: PurlParts)
    ensures ({
        let r1 = r1_of(p);
        let ns_raw = if last_index_of(r1, '/') < 0 { None::<Seq<char>> } else { Some(r1.subrange(0, last_index_of(r1, '/'))) };
        let name_raw = if last_index_of(r1, '/') < 0 { r1 } else { r1.subrange(last_index_of(r1, '/') + 1, r1.len() as int) };
        (match ns_raw { None => Some(Seq::<char>::empty()), Some(x) => ns_fold(split_spec(trim_spec(x, '/'), '/')) }) == Some(sig_ns(p.namespace@))
        && dec(name_raw) == Some(p.name@)
        && ns_raw == (if p.namespace@.len() > 0 { Some(enc(SetId::Path, p.namespace@)) } else { None::<Seq<char>> })
        && name_raw == enc(SetId::Segment, p.name@)
    })
{
    lemma_lits();
    let ens = enc(SetId::Path, p.namespace@);
    let en = enc(SetId::Segment, p.name@);
    let r1 = r1_of(p);
    lemma_enc_excludes(SetId::Segment, p.name@, '/');
    axiom_dec_enc(SetId::Segment, p.name@);
    if p.namespace@.len() > 0 {
        assert(r1 =~= ens + seq!['/'] + en);
        lemma_rsplit_join(ens, en, '/');
        assert(r1.subrange(0, ens.len() as int) =~= ens);
        assert(r1.subrange(ens.len() as int + 1, r1.len() as int) =~= en);
        lemma_ns_roundtrip_gen(p.namespace@);
    } else {
        assert(r1 =~= en);
        lemma_last_index(en, '/');
        assert(p.namespace@ =~= Seq::<char>::empty());
        lemma_sig_empty();
    }
}

/// C09: phase B on the path part of the canonical string of arbitrary parts
pub proof fn lemma_phase_b_canon_gen(p: PurlParts)
    requires gen_parts(p)
    ensures phase_b(rest_of(p)) == Ok::<PhaseB, ParseError>(PhaseB { ns: sig_ns(p.namespace@), name: p.name@, version: p.version@ })
{
    lemma_pb_version_gen(p);
    lemma_pb_ns_name_gen(p);
}

/// stage 2: the subpath is what follows the last '#'
pub proof fn lemma_pa_subpath_gen(ty: Seq<char>, p: PurlParts)
    requires valid_type(ty), gen_parts(p)
    ensures
        rsplit_at(c_b(ty, p), '#').0 == c_l(ty, p),
        (match rsplit_at(c_b(ty, p), '#').1 { None => Some(Seq::<char>::empty()), Some(x) => sub_fold(split_spec(trim_spec(x, '/'), '/')) }) == Some(sig_sub(p.subpath@)),
        rsplit_at(c_b(ty, p), '#').1 == (if p.subpath@.len() > 0 { Some(enc(SetId::Fragment, p.subpath@)) } else { None::<Seq<char>> }),
{
    lemma_lits();
    let q = p.qualifiers.qualifiers@;
    let r = rest_of(p);
    let l2 = c_l2(ty, p);
    let l = c_l(ty, p);
    let b = c_b(ty, p);
    let es = enc(SetId::Fragment, p.subpath@);
    lemma_type_excludes(ty, '#');
    lemma_rest_excludes(p, '#');
    lemma_quals_text_excludes_hash(q);
    lemma_single_excludes('/', '#');
    lemma_has_char_concat(ty, seq!['/'], '#');
    lemma_has_char_concat(ty + seq!['/'], r, '#');
    lemma_has_char_concat(l2, quals_text(q), '#');
    assert(!has_char(l, '#'));
    lemma_enc_excludes(SetId::Fragment, p.subpath@, '#');
    if p.subpath@.len() > 0 {
        assert(b =~= l + seq!['#'] + es);
        lemma_rsplit_join(l, es, '#');
        assert(b.subrange(0, l.len() as int) =~= l);
        assert(b.subrange(l.len() as int + 1, b.len() as int) =~= es);
        lemma_sub_roundtrip_gen(p.subpath@);
    } else {
        assert(b =~= l);
        lemma_last_index(l, '#');
        assert(p.subpath@ =~= Seq::<char>::empty()); lemma_sig_empty();
    }
}

/// stage 3: the qualifiers are what follows the last '?'
pub proof fn lemma_pa_quals_gen(ty: Seq<char>, p: PurlParts)
    requires valid_type(ty), gen_parts(p)
    ensures
        rsplit_at(c_l(ty, p), '?').0 == c_l2(ty, p),
        (match rsplit_at(c_l(ty, p), '?').1 {
            None => Ok::<KV, DqErr>(Seq::<(Seq<char>, Seq<char>)>::empty()),
            Some(x) => dq_fold(split_spec(x, '&'), Seq::<(Seq<char>, Seq<char>)>::empty()),
        }) == Ok::<KV, DqErr>(kvs(p.qualifiers.qualifiers@)),
{
    lemma_lits();
    let q = p.qualifiers.qualifiers@;
    let r = rest_of(p);
    let l2 = c_l2(ty, p);
    let l = c_l(ty, p);
    lemma_type_excludes(ty, '?');
    lemma_rest_excludes(p, '?');
    lemma_single_excludes('/', '?');
    lemma_has_char_concat(ty, seq!['/'], '?');
    lemma_has_char_concat(ty + seq!['/'], r, '?');
    assert(!has_char(l2, '?'));
    if q.len() > 0 {
        let items = q_items(q);
        let j = join_with(items, '&');
        lemma_quals_text_shape(q);
        assert forall|i: int| 0 <= i < items.len() implies !has_char(#[trigger] items[i], '?') && !has_char(items[i], '&') by {
            assert(canon_key(q[i].0.0@));
            lemma_q_item_chars(q[i]);
            assert(items[i] == q_item(q[i]));
        }
        lemma_join_with_excludes(items, '&', '?');
        assert(l =~= l2 + seq!['?'] + j);
        lemma_rsplit_join(l2, j, '?');
        assert(l.subrange(0, l2.len() as int) =~= l2);
        assert(l.subrange(l2.len() as int + 1, l.len() as int) =~= j);
        lemma_split_of_join_with(items, '&');
        lemma_dq_fold_items(q);
    } else {
        assert(quals_text(q) =~= Seq::<char>::empty());
        assert(l =~= l2);
        lemma_last_index(l2, '?');
        assert(kvs(q) =~= Seq::<(Seq<char>, Seq<char>)>::empty());
    }
}

/// C01 / C09: phase A on the canonical string
pub proof fn lemma_phase_a_canon_gen(ty: Seq<char>, p: PurlParts)
    requires valid_type(ty), gen_parts(p)
    ensures phase_a(canon_spec(ty, p)) == Ok::<PhaseA, ParseError>(PhaseA { ty, rest: rest_of(p), sub: sig_sub(p.subpath@), kv: kvs(p.qualifiers.qualifiers@) })
{
    lemma_pa_scheme(ty, p);
    lemma_pa_subpath_gen(ty, p);
    lemma_pa_quals_gen(ty, p);
    lemma_pa_type(ty, p);
}

/// C01 / C09 / C19, the inverse direction: parsing the canonical string of normalised parts yields exactly those parts
pub proof fn lemma_parse_canon_gen(ty: Seq<char>, p: PurlParts)
    requires valid_type(ty), gen_parts(p)
    ensures
        phase_a(canon_spec(ty, p)) == Ok::<PhaseA, ParseError>(PhaseA { ty, rest: rest_of(p), sub: sig_sub(p.subpath@), kv: kvs(p.qualifiers.qualifiers@) }),
        phase_b(rest_of(p)) == Ok::<PhaseB, ParseError>(PhaseB { ns: sig_ns(p.namespace@), name: p.name@, version: p.version@ }),
{
    lemma_phase_a_canon_gen(ty, p);
    lemma_phase_b_canon_gen(p);
}

/// equal encodings come from equal texts (decoding inverts encoding)
pub proof fn lemma_enc_injective(set: SetId, a: Seq<char>, b: Seq<char>)
    requires enc(set, a) == enc(set, b)
    ensures a == b
{
    axiom_dec_enc(set, a);
    axiom_dec_enc(set, b);
}

/// C19 ("equal exactly when their canonical strings are equal", the hard direction): two handed-out values -- ANY namespace,
/// version and subpath texts, a name, the qualifier invariant -- with the same canonical string have the same type text and
/// the same field texts
pub proof fn theorem_c19_injective(ty1: Seq<char>, p1: PurlParts, ty2: Seq<char>, p2: PurlParts)
    requires valid_type(ty1), gen_parts(p1), valid_type(ty2), gen_parts(p2), canon_spec(ty1, p1) == canon_spec(ty2, p2)
    ensures ty1 == ty2, p1.namespace@ == p2.namespace@, p1.name@ == p2.name@, p1.version@ == p2.version@, p1.subpath@ == p2.subpath@,
        kvs(p1.qualifiers.qualifiers@) == kvs(p2.qualifiers.qualifiers@)
{
    // type, name, version, qualifier pairs: through the parser's phases (functions of the string)
    lemma_parse_canon_gen(ty1, p1);
    lemma_parse_canon_gen(ty2, p2);
    assert(rest_of(p1) == rest_of(p2));
    // subpath: the text after the last '#'
    lemma_pa_scheme(ty1, p1);
    lemma_pa_scheme(ty2, p2);
    assert(c_b(ty1, p1) == c_b(ty2, p2));
    lemma_pa_subpath_gen(ty1, p1);
    lemma_pa_subpath_gen(ty2, p2);
    if p1.subpath@.len() > 0 { lemma_enc_injective(SetId::Fragment, p1.subpath@, p2.subpath@); }
    else { assert(p1.subpath@ =~= p2.subpath@); }
    // namespace: the text before the last '/' of what precedes the version
    lemma_pb_version_gen(p1);
    lemma_pb_version_gen(p2);
    assert(r1_of(p1) == r1_of(p2));
    lemma_pb_ns_name_gen(p1);
    lemma_pb_ns_name_gen(p2);
    if p1.namespace@.len() > 0 { lemma_enc_injective(SetId::Path, p1.namespace@, p2.namespace@); }
    else { assert(p1.namespace@ =~= p2.namespace@); }
}

// ---- unit theory.c03  <= (contracts):0 ----
// ---- C03, last sentence: "The output is therefore printable ASCII in which each separator character can only be read as a separator" ----
pub open spec fn printable_c(c: char) -> bool { 0x21 <= (c as u32) && (c as u32) <= 0x7e }
pub open spec fn printable(s: Seq<char>) -> bool { forall|i: int| 0 <= i < s.len() ==> printable_c(#[trigger] s[i]) }

pub proof fn lemma_printable_concat(a: Seq<char>, b: Seq<char>)
    requires printable(a), printable(b)
    ensures printable(a + b)
{
    assert forall|i: int| 0 <= i < (a + b).len() implies printable_c(#[trigger] (a + b)[i]) by {
        if i < a.len() { assert((a + b)[i] == a[i]); } else { assert((a + b)[i] == b[i - a.len()]); }
    }
}

/// every encoded component is printable ASCII: an unescaped character is one, an escape is '%' and upper-case hex digits
pub proof fn lemma_enc_printable(set: SetId, s: Seq<char>)
    ensures printable(enc(set, s))
    decreases s.len()
{
    if s.len() > 0 {
        lemma_enc_printable(set, s.drop_last());
        let c = s.last();
        axiom_pct(c);
        let e = enc_char(set, c);
        assert(printable(e)) by {
            assert forall|i: int| 0 <= i < e.len() implies printable_c(#[trigger] e[i]) by {
                if escaped_c(set, c) { assert(pct_alphabet(pct(c)[i])); }
            }
        }
        lemma_printable_concat(enc(set, s.drop_last()), e);
    }
}

pub proof fn lemma_quals_text_printable(v: Seq<(QualifierKey, SmallString)>)
    ensures printable(quals_text(v))
    decreases v.len()
{
    if v.len() > 0 {
        lemma_quals_text_printable(v.drop_last());
        let kv = v.last();
        let sep = seq![if v.len() == 1 { '?' } else { '&' }];
        lemma_enc_printable(SetId::Query, kv.0.0@);
        lemma_enc_printable(SetId::Query, kv.1@);
        assert(printable(sep)); assert(printable(seq!['=']));
        let t0 = quals_text(v.drop_last());
        lemma_printable_concat(t0, sep);
        lemma_printable_concat(t0 + sep, enc(SetId::Query, kv.0.0@));
        lemma_printable_concat(t0 + sep + enc(SetId::Query, kv.0.0@), seq!['=']);
        lemma_printable_concat(t0 + sep + enc(SetId::Query, kv.0.0@) + seq!['='], enc(SetId::Query, kv.1@));
    }
}

/// C03: the canonical string is printable ASCII (for every type text made of type characters and any parts)
pub proof fn theorem_c03_printable(ty: Seq<char>, p: PurlParts)
    requires valid_type(ty)
    ensures printable(canon_spec(ty, p))
{
    lemma_lits();
    lemma_canon_stages(ty, p);
    assert(printable(ty)) by { assert forall|i: int| 0 <= i < ty.len() implies printable_c(#[trigger] ty[i]) by { assert(type_char(ty[i])); } }
    reveal_strlit("pkg:");
    assert(printable("pkg:"@)) by { assert("pkg:"@ =~= seq!['p', 'k', 'g', ':']); }
    assert(printable(seq!['/'])); assert(printable(seq!['@'])); assert(printable(seq!['#'])); assert(printable(Seq::<char>::empty()));
    lemma_enc_printable(SetId::Path, p.namespace@);
    lemma_enc_printable(SetId::Segment, p.name@);
    lemma_enc_printable(SetId::Path, p.version@);
    lemma_enc_printable(SetId::Fragment, p.subpath@);
    lemma_quals_text_printable(p.qualifiers.qualifiers@);
    lemma_printable_concat("pkg:"@, ty);
    lemma_printable_concat("pkg:"@ + ty, "/"@);
    lemma_printable_concat(enc(SetId::Path, p.namespace@), "/"@);
    lemma_printable_concat(cs1(ty), opt_part(p.namespace@.len() > 0, enc(SetId::Path, p.namespace@) + "/"@));
    lemma_printable_concat(cs2(ty, p), enc(SetId::Segment, p.name@));
    lemma_printable_concat("@"@, enc(SetId::Path, p.version@));
    lemma_printable_concat(cs3(ty, p), opt_part(p.version@.len() > 0, "@"@ + enc(SetId::Path, p.version@)));
    lemma_printable_concat(cs4(ty, p), quals_text(p.qualifiers.qualifiers@));
    lemma_printable_concat("#"@, enc(SetId::Fragment, p.subpath@));
    lemma_printable_concat(cs5(ty, p), opt_part(p.subpath@.len() > 0, "#"@ + enc(SetId::Fragment, p.subpath@)));
}

/// C03: "each separator character can only be read as a separator" -- inside the components the separator characters
/// '@', '?', '#' never occur raw, '/' never occurs raw in the name, '&' and '=' ... '&' never in a qualifier value, and the
/// right-to-left splitting of the parser therefore finds exactly the written separators (lemma_parse_canon_gen, group inverse)
pub proof fn theorem_c03_separators(p: PurlParts, i: int)
    requires 0 <= i < p.qualifiers.qualifiers@.len()
    ensures
        !has_char(enc(SetId::Path, p.namespace@), '@'), !has_char(enc(SetId::Path, p.namespace@), '?'), !has_char(enc(SetId::Path, p.namespace@), '#'),
        !has_char(enc(SetId::Segment, p.name@), '/'), !has_char(enc(SetId::Segment, p.name@), '@'), !has_char(enc(SetId::Segment, p.name@), '?'), !has_char(enc(SetId::Segment, p.name@), '#'),
        !has_char(enc(SetId::Path, p.version@), '@'), !has_char(enc(SetId::Path, p.version@), '?'), !has_char(enc(SetId::Path, p.version@), '#'),
        !has_char(enc(SetId::Query, p.qualifiers.qualifiers@[i].1@), '&'), !has_char(enc(SetId::Query, p.qualifiers.qualifiers@[i].1@), '#'),
        !has_char(enc(SetId::Query, p.qualifiers.qualifiers@[i].1@), '?'), !has_char(enc(SetId::Query, p.qualifiers.qualifiers@[i].1@), '+'),
        !has_char(enc(SetId::Fragment, p.subpath@), '#'), !has_char(enc(SetId::Fragment, p.subpath@), '?'),
{
    lemma_enc_excludes(SetId::Path, p.namespace@, '@'); lemma_enc_excludes(SetId::Path, p.namespace@, '?'); lemma_enc_excludes(SetId::Path, p.namespace@, '#');
    lemma_enc_excludes(SetId::Segment, p.name@, '/'); lemma_enc_excludes(SetId::Segment, p.name@, '@'); lemma_enc_excludes(SetId::Segment, p.name@, '?'); lemma_enc_excludes(SetId::Segment, p.name@, '#');
    lemma_enc_excludes(SetId::Path, p.version@, '@'); lemma_enc_excludes(SetId::Path, p.version@, '?'); lemma_enc_excludes(SetId::Path, p.version@, '#');
    let v = p.qualifiers.qualifiers@[i].1@;
    lemma_enc_excludes(SetId::Query, v, '&'); lemma_enc_excludes(SetId::Query, v, '#'); lemma_enc_excludes(SetId::Query, v, '?'); lemma_enc_excludes(SetId::Query, v, '+');
    lemma_enc_excludes(SetId::Fragment, p.subpath@, '#'); lemma_enc_excludes(SetId::Fragment, p.subpath@, '?');
}


// ---- consistency canary: must be REJECTED; if it verifies the assumptions are contradictory ----
pub proof fn verif_canary_must_fail()
{
    axiom_string_from(); broadcast use axiom_ascii_to_lower; axiom_pct('a'); axiom_dec_enc(SetId::Path, seq!['a']);
    assert(false);
}
} // verus!
fn main() {}
