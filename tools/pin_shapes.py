#!/usr/bin/env python3
"""tools/pin_shapes.py: record, for every unit of every group, how many times each class of rewrite applies on the CURRENT /repo
(run on the tree the contract files are written for; the result, contracts/pinned_shapes.json, is committed)."""
import json, os, sys, tempfile
VERIF = os.path.dirname(os.path.dirname(os.path.abspath(__file__)))
sys.path.insert(0, VERIF)
from vlib import extract, props
out = {}
with tempfile.TemporaryDirectory() as d:
    for g in props.ALL_GROUPS:
        path, metas, log, grp = extract.build_group(g, d)
        out[g] = extract.unit_shapes(log)
with open(os.path.join(VERIF, 'contracts', 'pinned_shapes.json'), 'w') as f:
    json.dump(dict(note='rewrite applications per unit and rule class on the pinned tree (see vlib/verus_run.py: re-shaped units)', groups=out), f, indent=1, sort_keys=True)
print('pinned', sum(len(v) for v in out.values()), 'units in', len(out), 'groups')
