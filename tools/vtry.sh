#!/bin/sh
# tools/vtry.sh <patch.diff> <group> [group...] : run Verus groups against a scratch copy of /repo with the patch applied
set -e
P="$1"; shift
rm -rf /tmp/vtry && mkdir -p /tmp/vtry && cp -r /repo/purl /repo/Cargo.toml /repo/Cargo.lock /tmp/vtry/ && rm -rf /tmp/vtry/purl/target
(cd /tmp/vtry && git init -q . 2>/dev/null && git apply "$P")
cd /verif
for g in "$@"; do PURL_REPO=/tmp/vtry python3 -c "
from vlib import verus_run
r=verus_run.run_group('$g','/tmp/vp/out2')
print('$g', r['status'], r['reason'][:300], '| STUBBED:', r.get('stubbed'), (r.get('partial') or '')[:600])
for f in r['failures']: print('   ', f['unit'], f['repo_file'], f['repo_line'], f['message'], '|', f['clause'][:120])
"; done
rm -rf /tmp/vtry
