#!/usr/bin/env python3
"""tools/seed3.py <outdir> <first-number> [jobs]: evaluate <outdir>/w*/<PID>-{a,b}/{patch.diff,demo.rs,notes.md} (third and later seeding
rounds) in parallel scratch worktrees and store the confirmed ones under /verif/seeded/<PID>-<n>, n = first-number, first-number+1."""
import json, os, shutil, subprocess, sys, glob
VERIF = os.path.dirname(os.path.dirname(os.path.abspath(__file__)))
STORE = os.environ.get('SEED_STORE', os.path.join(VERIF, 'seeded'))
from concurrent.futures import ThreadPoolExecutor
base, first = sys.argv[1], int(sys.argv[2])
jobs = int(sys.argv[3]) if len(sys.argv) > 3 else 4
items = []
for d in sorted(glob.glob(base + '/w*/C??-[ab]')):
    pid, ab = os.path.basename(d).split('-')
    items.append((d, pid, first + (0 if ab == 'a' else 1)))


def one(it):
    d, pid, n = it
    patch, demo = d + '/patch.diff', d + '/demo.rs'
    if not os.path.exists(patch):
        return '%s %d no patch' % (pid, n)
    feat = dict(os.environ)
    if pid == 'C16' or 'serde' in open(demo).read():
        feat['SEED_FEATURES'] = 'serde'
    out = subprocess.run(['python3', os.path.join(VERIF, 'tools', 'seedrun.py'), patch, demo, pid], capture_output=True, text=True, env=feat).stdout
    try:
        res = json.loads(out[out.index('{'):])
    except ValueError:
        return '%s %d seedrun failed %s' % (pid, n, out[-500:])
    confirmed = res.get('applies') and res.get('suite_passes_patched') and res.get('demo_fails_patched') and res.get('demo_passes_unchanged')
    det = {k: v['exit'] for k, v in res['checks'].items()}
    lines = ['%s-%d %s check exits %s' % (pid, n, 'confirmed' if confirmed else 'NOT-CONFIRMED %s' % {k: res.get(k) for k in ('applies', 'suite_passes_patched', 'demo_fails_patched', 'demo_passes_unchanged')}, det)]
    for k, v in res['checks'].items():
        for l in v['lines']:
            if l.startswith(('VIOLATION', 'UNDECIDED', 'NOT-VERIFIED')) or (l.startswith('V ') and ' proved ' not in l):
                lines.append('     ' + l[:230])
    if confirmed:
        t = os.path.join(STORE, '%s-%d' % (pid, n))
        os.makedirs(t, exist_ok=True)
        shutil.copy(patch, t + '/patch.diff'); shutil.copy(demo, t + '/demo.rs')
        notes = open(d + '/notes.md').read() if os.path.exists(d + '/notes.md') else ''
        meta = dict(property=pid, source='independent sub-agent given only the property text and a scratch worktree', change=n,
                    confirmed=dict(applies=True, existing_suite_passes=True, demo_fails_with_patch=True, demo_passes_without_patch=True),
                    ran='tools/seedrun.py (scratch worktree /tmp/seedcheck-*, removed afterwards)', checks=res['checks'], notes_file='notes.md')
        json.dump(meta, open(t + '/meta.json', 'w'), indent=1, ensure_ascii=False)
        open(t + '/notes.md', 'w').write(notes)
    return '\n'.join(lines)


with ThreadPoolExecutor(jobs) as ex:
    for r in ex.map(one, items):
        print(r, flush=True)
