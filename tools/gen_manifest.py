#!/usr/bin/env python3
"""Writes MANIFEST.json from vlib/props.py (one source of truth for levels, techniques, commands)."""
import json, os, sys
VERIF = os.path.dirname(os.path.dirname(os.path.abspath(__file__)))
sys.path.insert(0, VERIF)
from vlib import props

TECH = {
    'V': 'Verus (z3) on the real function bodies, extracted mechanically from /repo on every run, against contracts written from the property',
    'K': 'Kani/CBMC plain harnesses complete over full finite domains (every byte / char / variant)',
    'B': 'bounded contract check on the real compiled code (stand-in, labelled bounded, never counted as proved)',
}

checks = []
for pid in sorted(props.PROPS):
    P = props.PROPS[pid]
    parts = []
    if P.get('groups'):
        parts.append('contract-based deductive verification: ' + TECH['V'] + ' [groups: ' + ', '.join(P['groups']) + ']')
    if P.get('kani'):
        parts.append(TECH['K'] + ' [' + ', '.join(P['kani']) + ']')
    if P.get('bounded'):
        parts.append(TECH['B'] + ' [' + ', '.join(P['bounded']) + ']')
    checks.append(dict(
        property_id=pid,
        quick_cmd='./check %s --tier quick' % pid,
        thorough_cmd='./check %s --tier thorough' % pid,
        evidence_file='/verif/evidence/%s.json' % pid,
        replay_cmd_template='./check %s --replay {path}' % pid,
        engine='contracts',
        level_claimed=dict(category=P['level'], text=P['explanation'], design_ref='DESIGN.md section 3, %s' % pid),
        level_note='; '.join(P.get('trusted', [])) + ' Every assumed item (assume_specification, external_body wrapper, uninterpreted function, axiom) is listed '
                   'mechanically in evidence coverage.trusted_base on each run.',
        technique='; '.join(parts),
    ))

manifest = dict(
    version=1,
    setup_cmd='./setup.sh',
    hooks=dict(
        guard='cargo feature "verif" of the purl crate (off by default)',
        enable='the harness crates /verif/bounded and /verif/kani depend on /repo/purl with features = ["verif"]; Verus reads the sources directly',
        baseline_off_cmd='cd /repo && cargo test --workspace --no-fail-fast --offline',
        source_commits=['b87b41a'],
        add_only=True,
    ),
    engines=[dict(name='contracts', path='/verif/check', serves_properties=sorted(props.PROPS),
                  kind_free_text='contract-based deductive verification of the real code: Verus on mechanically extracted bodies (vlib/extract.py, contracts/), '
                                 'Kani on finite domains (kani/), bounded contract checks as labelled stand-in (bounded/)')],
    checks=checks,
    notes='Exit codes: 0 held, 1 + VIOLATION line, 2 undecided (lost anchor / unsupported construct / rlimit / tool failure; never an alarm). '
          'known_findings.json lists repaired defects (kind fixed: suppress nothing).',
    not_applicable=[dict(property_id='C17', reason='relates three separate compilations (feature sets) of the crate; a function contract speaks about one compilation, so no contract '
                                                   'within reach of Verus/Kani can express it. The verified units are stated over the string view and are configuration-independent; '
                                                   'what remains is "SmartString behaves as String", a dependency assumption. Comparing transcripts across builds would be a different technique.')],
)
with open(os.path.join(VERIF, 'MANIFEST.json'), 'w') as f:
    json.dump(manifest, f, indent=1)
print('wrote MANIFEST.json with %d checks' % len(checks))
