#!/usr/bin/env python3
"""tools/reseed.py: re-run every stored seed (seeded/*/patch.diff) against the current machinery and refresh meta.json['checks'].
Prints one line per seed; a seed whose property check does not exit 1 is flagged MISSED."""
import json, os, subprocess, sys, glob
VERIF = os.path.dirname(os.path.dirname(os.path.abspath(__file__)))
missed = []
for d in sorted(glob.glob(os.path.join(VERIF, 'seeded', '*'))):
    mp = os.path.join(d, 'meta.json')
    if not os.path.exists(mp):
        continue
    meta = json.load(open(mp))
    props = meta['property'] if isinstance(meta['property'], list) else [meta['property']]
    demo = os.path.join(d, 'demo.rs')
    env = dict(os.environ)
    if props[0] == 'C16':
        env['SEED_FEATURES'] = 'serde'
    out = subprocess.run([sys.executable, os.path.join(VERIF, 'tools', 'seedrun.py'), os.path.join(d, 'patch.diff'), demo if os.path.exists(demo) else '-'] + props,
                         capture_output=True, text=True, env=env).stdout
    try:
        res = json.loads(out[out.index('{'):])
    except ValueError:
        print(os.path.basename(d), 'ERROR', out[-300:]); continue
    meta['checks'] = res['checks']
    json.dump(meta, open(mp, 'w'), indent=1, ensure_ascii=False)
    exits = {k: v['exit'] for k, v in res['checks'].items()}
    vfail = sorted(set(l.split()[1] for v in res['checks'].values() for l in v['lines'] if l.startswith('V ') and ' failed ' in l))
    flag = '' if all(e == 1 for e in exits.values()) else '  <== MISSED'
    if flag: missed.append(os.path.basename(d))
    print(os.path.basename(d), exits, 'V-rejected:', ','.join(vfail) or '-', flag, flush=True)
print('missed:', missed)
