#!/usr/bin/env python3
"""tools/reseed.py [-j N] [name...]: re-run every stored seed (seeded/*/patch.diff) against the current machinery, in parallel scratch
worktrees, and refresh meta.json['checks']. One line per seed; a seed whose property check does not exit 1 is flagged MISSED."""
import json, os, subprocess, sys, glob
from concurrent.futures import ThreadPoolExecutor
VERIF = os.path.dirname(os.path.dirname(os.path.abspath(__file__)))
args = sys.argv[1:]
jobs = 4
if args and args[0] == '-j':
    jobs = int(args[1]); args = args[2:]
dirs = [d for d in sorted(glob.glob(os.path.join(VERIF, 'seeded', '*'))) if os.path.exists(os.path.join(d, 'meta.json')) and (not args or os.path.basename(d) in args)]


def one(d):
    mp = os.path.join(d, 'meta.json')
    meta = json.load(open(mp))
    props = meta['property'] if isinstance(meta['property'], list) else [meta['property']]
    demo = os.path.join(d, 'demo.rs')
    env = dict(os.environ)
    if props[0] in ('C16',) or 'serde' in open(demo).read() if os.path.exists(demo) else False:
        env['SEED_FEATURES'] = 'serde'
    out = subprocess.run([sys.executable, os.path.join(VERIF, 'tools', 'seedrun.py'), os.path.join(d, 'patch.diff'), demo if os.path.exists(demo) else '-'] + props,
                         capture_output=True, text=True, env=env).stdout
    try:
        res = json.loads(out[out.index('{'):])
    except ValueError:
        return os.path.basename(d), None, 'ERROR ' + out[-300:]
    meta['checks'] = res['checks']
    json.dump(meta, open(mp, 'w'), indent=1, ensure_ascii=False)
    exits = {k: v['exit'] for k, v in res['checks'].items()}
    vfail = sorted(set(l.split()[1] for v in res['checks'].values() for l in v['lines'] if l.startswith('V ') and ' failed ' in l))
    ok = all(e == 1 for e in exits.values())
    conf = all(res.get(k) for k in ('applies', 'suite_passes_patched')) and (res.get('demo_fails_patched', True)) and (res.get('demo_passes_unchanged', True))
    return os.path.basename(d), ok, '%s V-rejected: %s%s%s' % (exits, ','.join(vfail) or '-', '' if ok else '  <== MISSED', '' if conf else '  (demo/suite not confirmed: %s)' % {k: res.get(k) for k in ('applies', 'suite_passes_patched', 'demo_fails_patched', 'demo_passes_unchanged')})


missed = []
with ThreadPoolExecutor(jobs) as ex:
    for name, ok, line in ex.map(one, dirs):
        print(name, line, flush=True)
        if not ok:
            missed.append(name)
print('missed:', missed)
