#!/usr/bin/env python3
"""tools/refrun.py <patch.diff>... : behaviour-preserving refactorings must never raise an alarm.
For each patch: scratch worktree, existing suite must pass, then EVERY check is run; exit 1 anywhere is a FALSE ALARM."""
import json, os, shutil, subprocess, sys, time
VERIF = os.path.dirname(os.path.dirname(os.path.abspath(__file__)))
sys.path.insert(0, VERIF)
from vlib import props
env = dict(os.environ, CARGO_NET_OFFLINE='true')


def sh(cmd, cwd=None, e=None):
    p = subprocess.run(cmd, shell=True, cwd=cwd, capture_output=True, text=True, env=e or env)
    return p.returncode, p.stdout + p.stderr


for patch in [os.path.abspath(a) for a in sys.argv[1:]]:
    W = '/tmp/refcheck-%d' % os.getpid()
    sh('git -C /repo worktree add -q --detach %s HEAD' % W)
    try:
        rc, out = sh('git apply %s' % patch, cwd=W)
        if rc != 0:
            print(patch, 'DOES NOT APPLY', out[-200:]); continue
        rc, out = sh('cargo test --workspace --no-fail-fast --offline 2>&1 | grep -E "^test result|FAILED|error(\\[|:)"', cwd=W)
        ok = 'FAILED' not in out and 'error' not in out and 'test result: ok' in out
        res = {}
        alarms = []
        notv = set()
        for pid in sorted(props.PROPS):
            rc, out = sh('./check %s' % pid, cwd=VERIF, e=dict(env, PURL_REPO=W, VERIF_ISOLATE='1'))
            res[pid] = rc
            for l in out.split('\n'):
                if l.startswith('NOT-VERIFIED'):
                    notv.add(l.split(': V ')[1].split(':')[0] if ': V ' in l else l[:80])
            if rc == 1:
                alarms.append((pid, [l[:300] for l in out.split('\n') if l.startswith('VIOLATION')][:3]))
        print(patch, 'suite_ok=%s' % ok, 'exits', {k: v for k, v in res.items() if v != 0} or 'all 0', 'verifier-not-asked:', sorted(notv) or '-', flush=True)
        for a in alarms:
            print('   FALSE ALARM?', a, flush=True)
    finally:
        sh('git -C /repo worktree remove --force %s' % W)
        shutil.rmtree(W, ignore_errors=True)
