#!/usr/bin/env python3
"""tools/refrun.py [-j N] <patch.diff>... : behaviour-preserving refactorings must never raise an alarm.
For each patch: scratch worktree (outside /repo and /verif, removed afterwards), the existing suite must pass, then EVERY check
is run against it; exit 1 anywhere is a FALSE ALARM. Also reports for which groups the verifier could not be asked."""
import json, os, shutil, subprocess, sys, time
from concurrent.futures import ThreadPoolExecutor
VERIF = os.path.dirname(os.path.dirname(os.path.abspath(__file__)))
sys.path.insert(0, VERIF)
from vlib import props
env = dict(os.environ, CARGO_NET_OFFLINE='true')
args = sys.argv[1:]
jobs = 3
if args and args[0] == '-j':
    jobs = int(args[1]); args = args[2:]


def sh(cmd, cwd=None, e=None):
    p = subprocess.run(cmd, shell=True, cwd=cwd, capture_output=True, text=True, env=e or env)
    return p.returncode, p.stdout + p.stderr


def one(patch):
    W = '/tmp/refcheck-%d-%s' % (os.getpid(), os.path.basename(patch).replace('.', '_'))
    sh('git -C /repo worktree add -q --detach %s HEAD' % W)
    lines = []
    try:
        rc, out = sh('git apply %s' % patch, cwd=W)
        if rc != 0:
            return '%s DOES NOT APPLY %s' % (patch, out[-200:])
        rc, out = sh('cargo test --workspace --no-fail-fast --offline 2>&1 | grep -E "^test result|FAILED|error(\\[|:)"', cwd=W)
        ok = 'FAILED' not in out and 'error' not in out and 'test result: ok' in out
        res, alarms, notv = {}, [], set()
        for pid in sorted(props.PROPS):
            rc, out = sh('./check %s' % pid, cwd=VERIF, e=dict(env, PURL_REPO=W, VERIF_ISOLATE='1'))
            res[pid] = rc
            for l in out.split('\n'):
                if l.startswith('NOT-VERIFIED'):
                    notv.add(l.split(': V ')[1].split(':')[0] if ': V ' in l else l[:80])
            if rc == 1:
                alarms.append((pid, [l[:300] for l in out.split('\n') if l.startswith('VIOLATION')][:3]))
        lines.append('%s suite_ok=%s exits %s verifier-not-asked: %s' % (os.path.basename(patch), ok, {k: v for k, v in res.items() if v != 0} or 'all 0', sorted(notv) or '-'))
        for a in alarms:
            lines.append('   FALSE ALARM? %s' % (a,))
    finally:
        sh('git -C /repo worktree remove --force %s' % W)
        shutil.rmtree(W, ignore_errors=True)
    return '\n'.join(lines)


with ThreadPoolExecutor(jobs) as ex:
    for r in ex.map(one, [os.path.abspath(a) for a in args]):
        print(r, flush=True)
