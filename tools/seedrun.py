#!/usr/bin/env python3
"""tools/seedrun.py <patch.diff> <demo.rs> <PID> [more PIDs...]

Confirms a seeded change in a scratch worktree (outside /repo and /verif) and runs the checks against it:
 1. unchanged tree + demo  -> demo passes
 2. patched tree           -> existing suite passes, demo fails
 3. ./check <PID> with PURL_REPO=<scratch>  -> expect exit 1 + VIOLATION
Prints a JSON summary. The scratch worktree is removed afterwards."""
import json, os, shutil, subprocess, sys, time
VERIF = os.path.dirname(os.path.dirname(os.path.abspath(__file__)))

patch, demo, pids = sys.argv[1], sys.argv[2], sys.argv[3:]
W = '/tmp/seedcheck-%d' % os.getpid()
FEAT = ('--features ' + os.environ['SEED_FEATURES']) if os.environ.get('SEED_FEATURES') else ''
env = dict(os.environ, CARGO_NET_OFFLINE='true')


def sh(cmd, cwd=None, timeout=3600, e=None):
    p = subprocess.run(cmd, shell=True, cwd=cwd, capture_output=True, text=True, timeout=timeout, env=e or env)
    return p.returncode, p.stdout + p.stderr


res = dict(patch=patch, checks={})
try:
    sh('git -C /repo worktree add -q --detach %s HEAD' % W)
    have_demo = demo not in ('-', '') and os.path.exists(demo) and not os.environ.get('SEED_FAST')
    if have_demo:
        os.makedirs(W + '/purl/tests', exist_ok=True)
        shutil.copy(demo, W + '/purl/tests/demo.rs')
        rc, out = sh('cargo test -p purl --test demo --offline %s 2>&1 | tail -5' % FEAT + '', cwd=W)
        res['demo_passes_unchanged'] = 'test result: ok' in out
        os.remove(W + '/purl/tests/demo.rs')
    rc, out = sh('git apply %s' % patch, cwd=W)
    res['applies'] = rc == 0
    if rc != 0:
        res['apply_error'] = out[-300:]
    else:
        if os.environ.get('SEED_FAST'):      # re-evaluation of a seed that was confirmed at intake: only the checks are re-run
            out = 'test result: ok (not re-run)'
        else:
            rc, out = sh('cargo test --workspace --no-fail-fast --offline 2>&1 | grep -E "^test result|FAILED|error(\\[|:)"', cwd=W)
        res['suite_passes_patched'] = ('FAILED' not in out and 'error' not in out and 'test result: ok' in out)
        if not res['suite_passes_patched']:
            res['suite_output'] = out[-600:]
        if have_demo:
            shutil.copy(demo, W + '/purl/tests/demo.rs')
            rc, out = sh('cargo test -p purl --test demo --offline %s 2>&1 | tail -8' % FEAT + '', cwd=W)
            res['demo_fails_patched'] = 'test result: FAILED' in out or 'panicked' in out
            os.remove(W + '/purl/tests/demo.rs')
        for pid in pids:
            t0 = time.time()
            rc, out = sh('./check %s' % pid, cwd=VERIF, e=dict(env, PURL_REPO=W, VERIF_ISOLATE='1'))
            lines = [l for l in out.split('\n') if l.startswith(('VIOLATION', 'UNDECIDED', 'KNOWN', 'OK', 'V ', 'K ', 'B ', 'NOTE', 'NOT-VERIFIED'))]
            res['checks'][pid] = dict(exit=rc, wall=round(time.time() - t0, 1), lines=[l[:260] for l in lines])
finally:
    sh('git -C /repo worktree remove --force %s' % W)
    shutil.rmtree(W, ignore_errors=True)
print(json.dumps(res, indent=1, ensure_ascii=False))
