#!/usr/bin/env python3
"""tools/seedall.py <PID> [extra PIDs to run]: evaluate /tmp/seed/out/<PID>/patch{1,2}.diff and store kept seeds under /verif/seeded/."""
import json, os, shutil, subprocess, sys
pid = sys.argv[1]
extra = [a for a in sys.argv[2:] if not a.startswith('--')]
base = os.environ.get('SEED_DIR', '/tmp/seed/out')
off = int(os.environ.get('SEED_OFFSET', '0'))
src = '%s/%s' % (base, pid)
for n in (1, 2):
    patch, demo = '%s/patch%d.diff' % (src, n), '%s/demo%d.rs' % (src, n)
    if not os.path.exists(patch):
        print(pid, n, 'no patch'); continue
    out = subprocess.run(['python3', '/verif/tools/seedrun.py', patch, demo, pid] + extra, capture_output=True, text=True).stdout
    try:
        res = json.loads(out[out.index('{'):])
    except ValueError:
        print(pid, n, 'seedrun failed', out[-500:]); continue
    confirmed = res.get('applies') and res.get('suite_passes_patched') and res.get('demo_fails_patched') and res.get('demo_passes_unchanged')
    det = {k: v['exit'] for k, v in res['checks'].items()}
    print(pid, n, 'confirmed' if confirmed else 'NOT-CONFIRMED %s' % {k: res.get(k) for k in ('applies', 'suite_passes_patched', 'demo_fails_patched', 'demo_passes_unchanged')}, 'check exits', det)
    for k, v in res['checks'].items():
        for l in v['lines']:
            if l.startswith(('VIOLATION', 'UNDECIDED', 'V ')):
                print('    ', l[:230])
    if confirmed:
        d = '/verif/seeded/%s-%d' % (pid, n + off)
        os.makedirs(d, exist_ok=True)
        shutil.copy(patch, d + '/patch.diff'); shutil.copy(demo, d + '/demo.rs')
        notes = open(src + '/notes.md').read() if os.path.exists(src + '/notes.md') else ''
        meta = dict(property=pid, source='independent sub-agent given only the property text and a scratch worktree', change=n + off,
                    confirmed=dict(applies=True, existing_suite_passes=True, demo_fails_with_patch=True, demo_passes_without_patch=True),
                    ran='tools/seedrun.py (scratch worktree /tmp/seedcheck-*, removed afterwards)', checks=res['checks'], notes_file='notes.md')
        json.dump(meta, open(d + '/meta.json', 'w'), indent=1, ensure_ascii=False)
        open(d + '/notes.md', 'w').write(notes)
