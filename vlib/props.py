"""Property table: which units (Verus groups), Kani harnesses and bounded suites decide each property,
and how the evidence file is assembled from what this run actually did."""
import os

from . import extract

VERIF = os.path.dirname(os.path.dirname(os.path.abspath(__file__)))

# group -> rlimit override (None = Verus default 10)
RLIMITS = {}


def rlimit(group):
    try:
        return extract.load_group(group).get('rlimit')
    except Exception:
        return None


# unit id prefix -> bounded suites that evaluate the same contract on the real compiled code (witness search
# when a Verus obligation of that unit is rejected; Verus prints no counterexample)
_UNIT_SUITES = [
    ('U-lower.', ['lower']), ('U-pypi.', ['lower']),
    ('U-vtype.', ['preds']), ('U-shape.', ['preds', 'shapes']), ('U-qkey.', ['preds']),
    ('U-ptfin.', ['pkgrules']), ('U-ptname.', ['names']),
    ('U-build.', ['builder', 'protocol']), ('U-proto.', ['protocol']), ('U-set.', ['builder']),
    ('U-qmap.', ['qualmap']), ('U-qcmp.', ['qualmap']), ('U-wk.', ['qualmap']),
    ('U-comb.', ['comb']), ('U-acc.', ['format:C03']),
    ('U-sub.', ['segments']), ('U-ns.', ['segments']),
    ('U-fmt.', ['format:C03']), ('escape_set_', ['format:C03']), ('type_char', ['preds']), ('key_char', ['preds']), ('package_type_names', ['names']), ('U-ck', ['checksum']), ('U-dq.', ['tokens:C02 C05']), ('U-parse.', ['tokens:C02 C05', 'spell:C02']),
]


class _US(dict):
    def get(self, unit, default=None):
        for pre, suites in _UNIT_SUITES:
            if unit and unit.startswith(pre):
                return suites
        return default if default is not None else []


UNIT_SUITES = _US()

ESC = ['escape_set_path', 'escape_set_segment', 'escape_set_query', 'escape_set_fragment']
A = ['assumptions']

_STD = ('std / dependency contracts assumed by the Verus proofs (listed per group in trusted_base; each replayed against the '
        'real std by the `assumptions` suite: exhaustive per char, bounded per string)')

PROPS = {
    'C01': dict(level='proof', groups=['parse', 'fmt', 'inverse', 'c01', 'ckfix', 'builder', 'purl', 'cksum', 'lib_shape', 'pkgtype'], kani=ESC, bounded=['tokens:C01', 'scale:C01', 'spell:C01', 'format:C01'] + A,
        explanation='THEOREM (group c01, theorem_c01_plain): for every type parameter that behaves like the built-in string shapes (conversion total and faithful -- std; hook = shape_rel -- proved in lib_shape), every string s and every value g that parse_post allows for s: parse_post applied to canon_spec(g) allows only Ok values, with the same type text and the same field texts, whose canon_spec is the same string. Together with from_str == parse_post (group parse) and Display::fmt == canon_spec (group fmt) this is C01 for the type-agnostic PURL, for all strings (a checksum qualifier is handled through theorem_checksum_rebuild, group ckfix). theorem_c01_typed: the same for the PackageType instance (conversion = the name-table contract proved in pkgtype, hook = pkg_finish_rel proved in pkgtype; name rules idempotent, names injective). What is left to assumptions: std / dependency contracts (section 9 of DESIGN.md), `==` on GenericPurl being equality of the type and of the texts (derive semantics + the verified QualifierKey::eq), String::from_str being the identity. The bounded suites remain as a cross-check on the compiled code. Pieces: Proved for all strings (Verus): from_str == parse_post (the parser as a specification function written from the statement), Display::fmt == canon_spec, build() canonicalises; complete on a finite domain (Kani): every byte of every escape set through the real encoder. ALSO proved (group inverse, 100 lemmas): the inverse direction at the specification level -- for a valid type and normalised parts (what build() and the decoders guarantee), phase_a(canon_spec(ty, p)) and phase_b return exactly ty and the parts (lemma_parse_canon), from a per-character definition of percent-encoding and the assumed dec(enc(s)) = s. The end-to-end statement is also cross-checked BOUNDED on the compiled code: every accepted string of the token language T_N and of the spelling domain S is printed, re-parsed, compared and printed again, for String, SmallString and PackageType.'),
    'C02': dict(level='proof', groups=['parse', 'parse_seg', 'lib_shape', 'qual', 'cksum', 'c02', 'pkgtype', 'builder', 'ckfix'], kani=['type_char', 'key_char'], bounded=['spell:C02', 'tokens:C02', 'scale:C02'] + A,
        explanation="THEOREMS (group c02): a *spelling* is a record of the freedoms the statement lists -- extra '/' after pkg:, the type in any letter case, the namespace as '/'-separated pieces (an empty piece is an extra '/', any other piece ANY text whose percent-decoding is a segment), name and version any text that decodes, qualifier items in ANY order with keys in any letter case and empty-valued items interleaved, subpath pieces with '', '.' and '..' skipped, raw '@' / '?' / '#' anywhere to the left of the separator that right-to-left splitting designates (raw_ok). theorem_raw_phase_a / _b: on the string assembled from ANY raw texts obeying that discipline the two parser phases hand each text unchanged to its decoder (this pins which occurrence is the separator). lemma_ns_spelled / lemma_sub_spelled / lemma_dq_spelled: the decoders return the '/'-join of the decoded segments, resp. the strictly ascending list of exactly the written non-empty pairs with lower-cased keys whatever the order of the items. theorem_c02_plain (every type parameter that behaves like the built-in string shapes) and theorem_c02_typed (PackageType: type t accepted in any letter case, name after the type's own rule, Maven with a namespace): whatever parse_post allows for a permitted spelling is Ok with exactly the denoted components, a written checksum in its canonical text. theorem_c02_same_plain / _typed: two spellings of the same components (checksum entries up to order and letter case: theorem_checksum_spellings, group ckfix) give the same type, the same field texts and the identical canonical string. Non-vacuity: lemma_c02_witness PROVES spelling_ok for the concrete spelling pkg://N//o/n@1?B=x&a=#./s; four vacuity guards. With from_str == parse_post (group parse) this is C02 for all tuples and all spellings. Restriction stated in items_ok: the keys of ALL written items, empty-valued ones included, are pairwise different ignoring case (the parser refuses an empty-valued item that repeats an earlier key). Percent-decoding itself (raw or escaped, either hex case, raw UTF-8) is the dependency function dec. Pieces: Proved for all strings (Verus): from_str == parse_post -- designated separators taken right to left (last '#', last '?', first '/', last '@', last '/'), each component routed to its decoder; decode_subpath / decode_namespace / decode_qualifiers equal their fold specifications; type and key legality and lower-casing; checksum text. BOUNDED: that every permitted spelling of a tuple is mapped to the tuple by these specification functions -- exhaustive tuples x spelling freedoms (S) and every T_N string against an independent reference parser, on the real code."),
    'C03': dict(level='proof', groups=['fmt', 'qual', 'purl', 'pkgtype', 'inverse', 'c01'], kani=ESC, bounded=['format:C03', 'tokens:C03', 'scale:C03', 'spell:C03', 'qualmap', 'preds', 'shapes'] + A,
        explanation='Proved (Verus): on Ok, the output of Display::fmt is exactly canon_spec(type, parts) = pkg: type / [namespace /] name [@ version] [? k=v & ...] [# subpath] with absent parts omitted, pairs in storage order; storage order is strictly ascending after every verified mutator; accessors map empty to None; the documented panic is the precondition. Complete (Kani): every byte of every escape set, upper-case hex. THEOREMS (group inverse, c03.rs): theorem_c03_printable -- canon_spec of a valid type text and ANY parts is printable ASCII (0x21..0x7E); theorem_c03_separators -- no encoded component contains a raw separator of its position (@ ? # in namespace / name / version, / in the name, & + # ? in a qualifier value, # ? in the subpath), and the right-to-left splitting finds exactly the written separators (lemma_parse_canon_gen). The type text of handed-out values is lower-case (handed_out lemmas, group c01). Assumed: utf8_percent_encode applies the per-byte table (proved by Kani on the real constants) character by character (A), Vec::retain keeps the order. CROSS-CHECK (bounded, compiled code): an independent renderer on every Unicode scalar value in every component position, all ASCII pairs, T_N, S, SCALE, and the map exploration.'),
    'C04': dict(level='proof', groups=['builder', 'parse', 'lib_shape', 'qual', 'pkgtype', 'cksum', 'purl', 'ckfix', 'c01'], kani=['type_char', 'key_char'], bounded=['tokens:C04', 'scale:C04', 'builder', 'protocol', 'preds', 'checksum', 'qualmap'] + A,
        explanation='Proved (Verus) for every PurlShape implementation: build() returns a value with non-empty name, the qualifier invariant (valid lower-case keys, strictly ascending, each retrievable: search/get contracts), non-empty values including the checksum text, after exactly one hook call (build_post); from_str ends in build() (parse_post); built-in shapes validate and ASCII-lower-case the type; the checksum text is the strictly sorted listing with lower-case hex (canon_text); theorem_c04_checksum (group c01, on theorem_checksum_text_shape of group ckfix): the checksum text of every value build() hands out is the comma-joined listing algorithm:hex of a non-empty sequence of entries in strictly ascending algorithm order with an even number of hex digits each, and contains no ASCII upper-case letter (a text that Unicode lower-casing leaves alone has none: lemma_lower_fixed_no_upper). Every clause of the statement is thus a postcondition of build() / from_str / the accessors / get, or a lemma over them. Assumed: Vec::retain keeps exactly the elements with non-empty values, in order (the one std call inside Qualifiers::retain, FnMut is outside Verus); a user-written hook keeps the qualifier invariant (it can reach the list only through the public API, whose mutators are verified to keep it). The map / checksum / protocol / builder suites remain as a cross-check on the compiled code.'),
    'C05': dict(level='proof', groups=['parse', 'parse_seg', 'lib_shape', 'qual', 'pkgtype', 'builder', 'cksum', 'c05', 'c02', 'ckfix'], kani=['type_char', 'key_char'], bounded=['faults', 'tokens:C05', 'scale:C05', 'lower', 'checksum'] + A,
        explanation="THEOREMS (group c05, on the raw-text theorems of group c02): theorem_c05_raw -- for ANY raw component texts obeying the separator discipline (the type substring may be anything without '/'), whatever parse_post allows is an error exactly when raw_error says so, and then THAT error passed through From: raw_error examines, in the parser's order, the subpath (InvalidEscape), the qualifiers (InvalidQualifier / InvalidEscape), the type syntax (InvalidPackageType), version, namespace, name (InvalidEscape), an empty decoded name (MissingRequiredField(Name)), a malformed checksum (InvalidQualifier) -- so each listed defect, when it is the only one, gets the listed error (theorem_c05_bad_type / _bad_subpath / _bad_qualifiers / _bad_version / _bad_namespace / _bad_name / _empty_name / _bad_checksum), and the theorem also says which error wins when there are several. theorem_c05_scheme (any string without the pkg: prefix, any type parameter), theorem_c05_no_type, theorem_c05_no_name_separator. What makes a component defective, at ANY position among ANY other pieces / items: lemma_c05_ns_piece / _sub_piece (a piece that does not decode or hides a '/'; an escaped '.' / '..'), lemma_c05_item + lemma_c05_item_kinds (no '=', invalid / empty / percent-encoded key, key repeated in any letter case, undecodable value), lemma_c05_checksum_kinds (entry without ':', algorithm repeated in any case, odd or non-hex digits), lemma_encoded_type_invalid. Typed PURL: theorem_c05_raw_typed (the same errors wrapped in PackageError::Parse; Maven without a significant namespace: MissingRequiredField(Namespace), before the name check), theorem_c05_unknown_type (UnsupportedType). Five vacuity guards. With from_str == parse_post (group parse) this is C05 for all strings of the stated shapes. Which byte sequences are invalid UTF-8 escapes is the dependency function dec (dec(x) is None). Pieces: Proved (Verus): the error clauses of parse_post (scheme, missing type, missing name, invalid type before the conversion), dq_fold (item without '=', invalid key, key already present => InvalidQualifier; undecodable value => InvalidEscape), sub_fold / ns_fold (hidden '/', encoded dot segments, bad UTF-8 => InvalidEscape), ck_parse / canon text (malformed checksum => InvalidQualifier), build_post (empty name), pkg_finish_rel (maven without namespace), with the conversion of ParseError through From. BOUNDED: that a string with exactly one listed defect reaches exactly that clause -- every fault kind x position x spelling over S, never-accepted over T_N; PackageType::from_str (phf)."),
    'C06': dict(level='other', census=True, groups=['lib_lower', 'lib_shape', 'pkgtype', 'qual', 'builder', 'purl', 'parse_seg', 'cksum', 'fmt', 'parse', 'serde', 'misc'], kani=ESC + ['type_char', 'key_char', 'empty_is_invalid', 'package_type_names'],
        bounded=['nopanic', 'tokens:C06', 'scale:C06', 'checksum', 'qualmap', 'protocol', 'preds', 'builder', 'names', 'lower', 'pkgrules', 'comb', 'eq'],
        explanation='Deductive: every verified unit carries Verus obligations for arithmetic overflow (the checksum capacity computation included), unwrap, indexing, the three documented panics as preconditions, and termination of its loops; Kani adds its automatic checks on the harnessed code. Functions outside Verus (retain, try_from_iter, Index, IterMut, Entry combinators, Checksum accessors, serde, PackageType::from_str) are covered only BOUNDED: catch_unwind around every call of every domain, overflow checks on, random strings to 1 MiB.'),
    'C07': dict(level='proof', groups=['parse_seg', 'parse'], kani=[], bounded=['segments', 'tokens:C07', 'scale:C07', 'faults'],
        explanation="Proved (Verus, all strings, every T): from_str == parse_post routes the text after the last '#' to decode_subpath and the text before the last '/' of the path to decode_namespace; these equal sub_fold / ns_fold of the pieces between raw '/'; lemma_c07_of_phases: for every string the two phases accept, the reported namespace / subpath is the '/'-join of the decoded non-skipped pieces and splitting it at '/' gives exactly those segments back -- none empty, none containing '/', subpath segments not '.' or '..' -- or it is absent; the hooks of the built-in type parameters and the generic tail of build() leave namespace and subpath untouched (frames). Bounded cross-checks on the compiled code accompany the proof.",
        trusted=['decode(): a single call into the percent-encoding crate; its contract dec (percent-decode + strict UTF-8) and "a non-empty piece decodes to a non-empty string" are assumed (A: bounded replay)', 'std trim_matches / split / rsplit_once / split_once contracts (A: bounded replay)', 'a user-written PurlShape may overwrite namespace / subpath in its hook: the statement is read for the built-in type parameters']),
    'C08': dict(level='proof', groups=['lib_lower', 'pkgtype', 'builder', 'parse', 'c01'], kani=['package_type_names'], bounded=['pkgrules', 'lower', 'comb', 'tokens:C08', 'scale:C08'] + A,
        explanation='THEOREMS (group c01): theorem_c08_agree -- for every string s and every value the typed parser hands out for s, a type-agnostic parse of the SAME string is accepted too and has the same namespace, version, qualifier pairs and subpath, the type text is the name of the package type, and the typed name is lower_seq (nuget) / pypi_norm (pypi) of / equal to (the other five) the type-agnostic name; a maven value has a significant namespace segment; theorem_c08_unknown -- a syntactically valid type whose lower-casing is none of the seven names is refused by the typed parser with UnsupportedType. Pieces: Proved for all strings and all seven variants (Verus): nuget name = Unicode lower-casing (lower_seq), pypi name = pypi_norm written from the statement, maven refused iff the namespace has no significant segment, every other field untouched (frame), parser and builder both end in build() which applies the hook once. Unicode tables validated exhaustively (A). Assumed: the phf / unicase lookup contract (a probe hits exactly the entry equal to it up to ASCII case), char::to_lowercase is the Unicode mapping named u_to_lower. The bounded suites remain as a cross-check on the compiled code (every scalar value, SCALE).'),
    'C09': dict(level='proof', groups=['builder', 'qual', 'pkgtype', 'purl', 'fmt', 'inverse', 'c01', 'ckfix'], kani=ESC, bounded=['builder', 'format:C09', 'preds', 'shapes', 'pkgrules', 'lower'] + A,
        explanation='THEOREM (group c01, theorem_c09_plain / theorem_c09_typed, on lemma_parse_canon_gen of group inverse): for ANY builder state (arbitrary field texts; qualifier list satisfying the invariant every verified mutator keeps) whose build() -- hook relation + build_post -- succeeded with value g, parse_post applied to canon_spec(g) allows only Ok values with the same type, name, version and qualifier pairs, the namespace after dropping empty segments (sig_ns) and the subpath after dropping the segments that are empty, . or .. (sig_sub); for maven the namespace keeps a significant segment. The other clauses of the statement are the contracts of the functions themselves. Pieces: Proved (Verus): every setter sets its field and leaves every other field unchanged (frames => override and commutation), with_qualifier accepts exactly valid keys with the whole-content postcondition of insert, build() succeeds / fails as stated (build_post), Display == canon_spec. ALSO proved (group inverse): parsing canon_spec of normalised parts returns those parts (lemma_parse_canon), of arbitrary parts the significant segments (lemma_parse_canon_gen). CROSS-CHECK (bounded, compiled code): the same for parts that are not normalised (insignificant namespace / subpath segments set through the builder) and end to end on the compiled code -- all call sequences of length <= 2 / 3 over a value universe, and every scalar value in every field.'),
    'C10': dict(level='proof', groups=['builder', 'purl', 'lib_lower', 'pkgtype', 'cksum', 'c01', 'ckfix', 'lib_shape'], kani=[], bounded=['tokens:C10', 'scale:C10', 'spell:C10', 'builder', 'pkgrules'] + A,
        explanation='THEOREM (group c01, theorem_c10_plain + lemma_parsed_is_handed_out): for the built-in string shapes and every value that satisfies what C04 says of handed-out values (shown for parsed values from parse_post alone and for built values from the hook relation and build_post alone; the checksum text is a fixpoint by theorem_checksum_rebuild), build() applied to the value\'s own type and parts succeeds and returns the same type text, the very same parts and the same canonical string; theorem_c10_typed + lemma_built_is_handed_out_typed: the same for PackageType (the name already obeys the rule, so the hook changes nothing). Pieces: Proved (Verus): into_builder moves type and parts unchanged, build() = hook + generic clean-up (build_post), name rules are the specification functions lower_seq / pypi_norm, checksum text = canon_text. BOUNDED: idempotence of the whole pipeline on produced values -- every accepted T_N / S string and every built value is re-built and compared.'),
    'C11': dict(level='proof', groups=['qual'], kani=['key_char'], bounded=['qualmap', 'preds'] + A,
        explanation='Every operation the statement lists is under contract with a whole-content postcondition over the stored sequence, whose invariant (valid lower-case keys, strictly ascending) makes it the sorted listing of a key -> value map: construction from pairs (try_from_iter, for every finite lawful iterator: accepted iff all keys valid and pairwise different up to ASCII case), insert, the entry API (entry, or_insert, or_insert_with, and_modify, Occupied / Vacant operations), get, get_mut, Index / IndexMut (documented panic = precondition), remove, clear, both ends of the iterator and its length, the typed accessors; lemma_wf_content_unique: two sequences satisfying the invariant with the same key -> value content are the same sequence of texts (so the derived ==, hash and order see the content only). ASSUMED (one std call each, FnMut closures / slice::IterMut are outside Verus): retain, retain_mut (Vec::retain removes exactly what the predicate rejects and keeps the order), iter_mut (keys are handed out as shared references, so only values can change); derived Eq / Hash / Ord are field-wise. The qualmap suite (every reachable content over a key universe x every operation, to a fixpoint, plus SCALE contents) remains as a cross-check on the compiled code. Pieces: Proved (Verus) for all strings and all contents: key validity and lower-casing, comparator total (never None), search, get, contains_key, insert, remove, clear, '
                    'entry, VacantEntry::insert, OccupiedEntry::{get,get_mut,into_mut,insert,remove,remove_entry}, get_mut, insert_typed, remove_typed each preserve the invariant '
                    'and have whole-content postconditions (named position pos_of, no existential). retain / iterators / try_from_iter / Eq-Hash-Ord are BOUNDED: every reachable '
                    'content over a universe x every operation against a BTreeMap, to a fixpoint.'),
    'C12': dict(level='proof', groups=['cksum', 'ckfix', 'lib_lower', 'builder', 'qual'], kani=[], bounded=['checksum', 'builder'] + A,
        explanation="THEOREMS (group ckfix): theorem_checksum_spellings -- two checksum texts whose entries are the same up to ORDER, letter case of the algorithm names and letter case of the hex digits: if the first is accepted so is the second, and build() stores the SAME canonical text for both (ck_fold characterised independently of the order of the pieces: lemma_ck_fold_char; the canonical text depends on the algorithms and on the hex values up to ASCII case only: lemma_canon_text_hex_case); theorem_checksum_text_fixpoint -- for entries in ascending key order with lower-case comma-free keys and hex values the text parses back (ck_parse) to the same keys with lower-cased hex, and that map's canonical text is the same text; theorem_checksum_rebuild -- whatever text x a checksum qualifier carries, if build() accepts it the text t it stores satisfies ck_text(ck_parse(t)) == t (every map ck_parse returns has a sorted listing: lemma_ck_fold_sorted_listing). Pieces: Proved (Verus): the text of a Checksum is canon_text(entries) -- the strictly sorted listing, lower-case hex -- for EVERY order in which the hash map yields its entries (iteration order modelled as arbitrary; uniqueness lemma), refused iff some value is not an even number of hex digits, no arithmetic overflow for any map including the empty one; parsing equals ck_parse (split ',', last ':', lower-cased algorithm, duplicates refused); build() stores that text. BOUNDED: insert / insert_raw / remove / get and text -> entries -> text: all insertion sequences (length <= 3 / 4) over 10 algorithms x 5 byte strings with case variants, typed round trip, equivalent spellings."),
    'C13': dict(level='proof', groups=['lib_shape'], kani=['type_char'], bounded=['preds', 'shapes', 'tokens:C13', 'scale:C13'] + A,
        explanation='Proved (Verus, all strings): the finish bodies of String, Cow<str> (both arms) and SmartString satisfy the SAME functional postcondition shape_rel '
                    '(Ok iff valid type; on Ok the type is ASCII-lower-cased; parts untouched), package_type() is the identity view; everything else is one generic body. '
                    'Bounded cross-checks on the compiled code accompany the proof.',
        trusted=['SmartString<M> implements the String operations used (deref to str, make_ascii_lowercase) with String semantics: its impl is verified over SmallString = String']),
    'C14': dict(level='proof', groups=['builder', 'parse', 'c14', 'purl', 'fmt'], kani=[], bounded=['protocol'],
        trusted=['R11: the ghost call-log parameter added to from_str, build(), T::from_str and finish in group c14 is erased at compile time (ghost code cannot influence executable results: Verus mode checking); the user-code stubs append one entry per call'],
        explanation='HISTORY AS GHOST STATE (group c14): from_str and build() are re-extracted with a ghost call log threaded through every call of T::from_str, finish and build() found in their bodies; the stubs of the two user traits append one entry per call. Proved for every T: FromStr + PurlShape and every string: build() appends exactly one Hook entry whatever its outcome; one parse appends nothing while the string is defective before the type (phase_a), else exactly one Conv entry carrying the type substring as written (valid_type: lemma_conv_arg_valid), followed by exactly one Hook entry only if the conversion returned Ok and the rest is well-formed (proto_ok). A second call, a call on another text, a call before validation or a hook call before the conversion fails this postcondition. The value side: Proved (Verus) for every T: FromStr + PurlShape: parse_post -- the conversion relation is consulted once, with exactly the syntactically valid type substring as written, never after an earlier defect; a conversion error is returned through From unchanged; then build_post: the generic checks applied to exactly ONE application of the hook relation; a hook error is returned unchanged; emptied name refused, empty qualifiers removed, checksum canonicalised or refused. Assumed inside build(): retain / try_get_typed wrappers. BOUNDED: 2 x 9 counting shapes x T_N on the compiled code.'),
    'C15': dict(level='other', groups=['pkgtype', 'misc'], kani=['package_type_names'], bounded=['names'] + A,
        explanation='Complete on finite domains: the 7-variant name table (Kani + Verus: name() == type_name), all 192 case variants (enumerated). The converse over all strings rests on phf / UniCase '
                    '(dependency). The equality half of that dependency is checked EXHAUSTIVELY per character on the real unicase code (suite assumptions, A.unicase_fold / A.unicase_eq: every Unicode scalar value -- an ASCII char folds to its lower-case form, a non-ASCII char never folds into letters of the names only, a one-char probe equals a one-letter key exactly when it is that letter in either ASCII case); that equality of strings is char-wise equality of the folded sequences, and that a phf hit ends in that equality test, are read off the dependency sources (not verified). BOUNDED: strings <= 4 / 5 over the names\' letters plus look-alikes, one-edit neighbours, the spec\'s other type names.'),
    'C16': dict(level='proof', groups=['serde', 'fmt', 'parse', 'c01'], kani=[], bounded=['serde'],
        trusted=['serde trait contracts (stubs in contracts/theory/serde.rs): collect_str hands over exactly the Display text as one string value; deserialize_str calls visit_str for a string value and a defaulted visit_* (refusing) otherwise; de::Error::custom',
                 'Display::fmt of GenericPurl is the hoisted purl_fmt proved in group fmt (R2)',
                 'a serde data format hands a string value it wrote back as the same string value (serde_json: B, bounded)'],
        explanation='THEOREMS (group c01, theorem_c16_plain / _typed / _built_plain / _built_typed / _refused): a value the parser returned, serialised (contract of serialize: exactly canon_spec as one string value) and handed back to deserialize (contract de_post), is accepted with the same type, the same field texts and the same canonical string; a built value likewise up to the insignificant segments the builder does not remove itself (C09); a refused string is refused with the parser\'s error passed through Error::custom. They compose the contracts of the three impl blocks with theorem_c01 / theorem_c09; vacuity guard. The statement is proved in terms of the serde data model (one string value in, one string value out); that a data format such as JSON writes a string value and reads the same string value back is the format\'s contract (dependency, exercised by B with serde_json). Pieces: Proved (Verus, group serde): the three impl blocks, every member, bodies verbatim, against stubs of the serde traits: serialize hands the serializer exactly canon_spec(type, parts) (= what Display::fmt writes, group fmt) as one string value; '
                    'visit_str returns the parser\'s value for exactly the strings parse_post accepts (group parse) and the parser\'s error through Error::custom otherwise; deserialize asks for a string and refuses anything else (the visitor overrides no other visit_*). '
                    'What the serde data formats do with these calls is the dependency\'s business and is exercised by B. BOUNDED: JSON round trip and deserialise <=> parse over T_N (N <= 3 / 4) and non-string JSON values, GenericPurl<String> and Purl, built with --features serde.'),
    'C18': dict(level='proof', groups=['purl'], kani=[], bounded=['comb'] + A,
        explanation='Proved (Verus, all strings, all seven types): builder_with_combined_name splits at last_index_of / first_index_of, combined_name joins; lemma_c18_roundtrip derives the '
                    'round trip from proved split/join lemmas. A bounded cross-check on the compiled code accompanies the proof.',
        trusted=['std rsplit_once / split_once contracts (A: bounded replay)']),
    'C19': dict(level='proof', groups=['qual', 'inverse', 'fmt', 'c01'], kani=[], bounded=['eq', 'tokens:C19', 'scale:C19', 'preds'] + A,
        explanation='THEOREM (group inverse, theorem_c19_injective): two handed-out values -- ANY namespace, version and subpath texts, a non-empty name, the qualifier invariant, a valid type text -- with the same canon_spec have the same type text and the same field texts (type, name, version and qualifier pairs through the parser phases, namespace and subpath through the raw right-to-left splits and dec(enc(x)) == x); conversely equal texts give equal strings (lemma_canon_congr, group c01). With Display::fmt == canon_spec this is "equal exactly when the canonical strings are equal" for the derived ==, which compares the type and the field texts. Assumed (compiler / std): derive(PartialEq, Eq, Hash, PartialOrd, Ord) are the field-wise, lexicographic implementations; String / SmartString compare and hash by their text. Pieces: Proved (Verus): QualifierKey comparisons are total and coincide with structural equality on stored keys; lemma_canon_injective: two normalised values with the same canonical string have the same type text and the same field texts (from the inverse theorem, group inverse). Derived Eq/Hash/Ord are assumed consistent (compiler). '
                    'BOUNDED: values that are not normalised (builder-made namespaces with empty segments etc.) and the end-to-end statement on the compiled code: all pairs of a near-collision corpus, parsed and built, String and PackageType.'),
}

ALL_GROUPS = ['lib_lower', 'lib_shape', 'pkgtype', 'qual', 'builder', 'purl', 'parse_seg', 'cksum', 'fmt', 'parse', 'inverse', 'serde', 'c01', 'ckfix', 'c14', 'c02', 'c05', 'misc', 'wk']


def _auto_groups():
    """a property runs every group that verifies (with its body) at least one unit tagged with it"""
    for g in ALL_GROUPS:
        try:
            grp = extract.load_group(g)
        except Exception:
            continue
        for u in grp['units']:
            if u.get('mode') in ('contract_only', 'assumed') or u.get('kind', 'fn') not in ('fn', 'block'):
                continue
            for pid in u.get('properties', []):
                if pid in PROPS and g not in PROPS[pid]['groups']:
                    PROPS[pid]['groups'].append(g)


_auto_groups()

# what the proof-level claims rest on beyond the per-run census (DESIGN.md section 9)
_DERIVE = 'derive(PartialEq, Eq, Hash, PartialOrd, Ord, Default) are the field-wise / lexicographic implementations (compiler); String / SmartString compare and hash by their text'
_ENC = 'utf8_percent_encode applies its per-byte table (proved by Kani on the real constants) character by character, and percent_decode inverts it: enc / dec, dec(enc(s)) == s (A: bounded replay)'
_LOWER = 'char::to_lowercase is the Unicode mapping named u_to_lower: idempotent, never empty, never yields - _ . , from another character, ASCII = to_ascii_lowercase (A: exhaustive over all scalar values)'
_RETAIN = 'Vec::retain / retain_mut remove exactly the elements the predicate rejects and keep the order of the others (the one std call inside Qualifiers::retain*; FnMut closures are outside Verus)'
_HOOK = 'a user-written PurlShape hook keeps the qualifier invariant: it can reach the list only through the public API, whose mutators are verified (retain* / iter_mut assumed) to keep it'
_CONV = 'String::from_str / From<&str> for the built-in string shapes accept every text and keep it (std)'
_PHF = 'the phf / unicase lookup of PACKAGE_TYPES hits exactly the entry equal to the probe up to ASCII case'
_EXTRA_TRUSTED = {
    'C01': [_ENC, _CONV, _PHF, _LOWER, _DERIVE, _RETAIN, 'hex characters: is_ascii_hexdigit / to_ascii_lowercase (A)'],
    'C02': [_ENC, _CONV, _PHF, _LOWER, _RETAIN, 'percent-decoding (dec) is the dependency function: which texts decode to which characters is not restated'],
    'C05': [_CONV, _PHF, _LOWER, _RETAIN, 'percent-decoding (dec) is the dependency function: which escapes are invalid UTF-8 is not restated', 'thiserror: From<ParseError> for PackageError is PackageError::Parse (derive semantics)'],
    'C03': [_ENC, _RETAIN, 'Display::fmt of GenericPurl is the hoisted purl_fmt (R2); write! with {}-only literals writes its pieces in source order'],
    'C04': [_RETAIN, _HOOK, _LOWER, 'HashMap wrappers of Checksum (with_capacity / insert / get / into_iter().collect() in ARBITRARY order)'],
    'C08': [_PHF, _LOWER, _RETAIN],
    'C09': [_ENC, _CONV, _PHF, _LOWER, _RETAIN],
    'C10': [_LOWER, _RETAIN, _CONV],
    'C11': [_RETAIN, 'iter_mut hands out keys as shared references, so only values can change (typing); slice::IterMut is not specified in vstd', _DERIVE,
            'the iterator given to try_from_iter is finite and obeys vstd\'s prophetic iterator laws'],
    'C12': ['hex::FromHex / ToHex: decode(encode(b)) == b, encode yields lower-case hex (dependency; exercised by the checksum suite)',
            'HashMap wrappers of Checksum (with_capacity / insert / get / get_mut / remove / into_iter().collect() in ARBITRARY order)', _LOWER],
    'C14': [_RETAIN, _HOOK, 'try_get_typed::<Checksum>() / the checksum conversions as used by build() (verified in groups qual / cksum, imported by contract)'],
    'C16': [_ENC, _CONV, _PHF, _LOWER, _DERIVE, _RETAIN],
    'C19': [_ENC, _DERIVE],
}
for _k, _p in PROPS.items():
    _p.setdefault('trusted', [])
    _p['trusted'] = _p['trusted'] + _EXTRA_TRUSTED.get(_k, []) + [_STD]

_GROUP_CACHE = {}


def unit_carries(unit_id, pid, group):
    g = _GROUP_CACHE.get(group)
    if g is None:
        try:
            g = extract.load_group(group)
        except Exception:
            return True
        _GROUP_CACHE[group] = g
    for u in g['units']:
        if u['id'] == unit_id:
            ps = u.get('properties')
            return (not ps) or pid in ps
    return True


# ---- which bounded-oracle violations are violations of WHICH property ----
# A suite may evaluate oracles written for other properties (the qualifier-map suite speaks C11, the package-rule suite C08, ...).
# A check reports a bounded violation only when it is a violation of ITS property: the oracle is the property's own
# (`<pid>.…`), or a unit contract / assumption the property depends on (by the unit tags), or listed here because the
# oracle's failure implies the property's statement fails (reason in the comment). Anything else is printed as a NOTE.
IMPLIES = {
    # ascending key order of the string form / of every value handed out rests on the collection's invariant
    # (the order a caller SEES is the order the iterators hand out, from either end: C11.iter)
    'C03': {('qualmap', 'C11.sorted'), ('qualmap', 'C11.dup'), ('qualmap', 'C11.iter')},
    'C04': {('qualmap', 'C11.sorted'), ('qualmap', 'C11.dup'), ('qualmap', 'C11.get'), ('qualmap', 'C11.iter')},      # + "each retrievable by its key"
    # "the type's name rule applied", "its own rule is satisfied", build succeeds, other fields as set -- through the builder
    'C09': {('pkgrules', 'C08.name'), ('pkgrules', 'C08.builder'), ('pkgrules', 'C08.maven'), ('pkgrules', 'C08.frame')},
    # "whatever the hook writes is what the PURL reports and prints ... empty-valued qualifiers are removed, a checksum is canonicalised"
    'C14': {('protocol', 'C04.valid'), ('protocol', 'C03.format')},
    # a PURL built with a checksum "carries that one canonical text": its validity is part of the statement
    'C12': {('checksum', 'C04.valid')},
    # equal values with different strings / hashes found while re-building
    'C10': {('builder', 'C19.eq')},
}


def b_relevant(pid, suite, unit):
    unit = unit or ''
    base = (suite or '').split(':')[0]
    if unit.startswith(pid + '.'):
        return True
    if unit.startswith('C06.'):
        return True          # a panic / overflow in an operation the property speaks about: the operation did not yield what the property says
    if unit.startswith('A.'):
        return True          # an assumed dependency contract the proofs of this property use does not hold
    if unit.startswith('U-'):
        return any(unit_carries_strict(unit, pid, g) for g in ALL_GROUPS)
    head = '.'.join(unit.split('.')[:2])
    return (base, head) in IMPLIES.get(pid, set())


def unit_carries_strict(unit_id, pid, group):
    """the unit (or a unit whose id starts with it) is verified or assumed in `group` and tagged with `pid`"""
    g = _GROUP_CACHE.get(group)
    if g is None:
        try:
            g = extract.load_group(group)
        except Exception:
            return False
        _GROUP_CACHE[group] = g
    for u in g['units']:
        parts = unit_id.split('.')
        if u['id'] == unit_id or (len(parts) >= 2 and u['id'].startswith(parts[0] + '.') and u['id'].endswith('.' + parts[-1])):
            if u.get('mode') == 'contract_only':
                continue
            if pid in (u.get('properties') or []):
                return True
    return False


def evidence(pid, P, tier, seed, vres, kres, bres, violations, undecided, wall):
    functions = []
    obligations = discharged = 0
    trusted = set()
    solver_ms = 0.0
    rewrites = 0
    per_fn = []
    for r in vres:
        for m in r.get('units', []):
            functions.append(dict(unit=m['id'], source='%s:%s-%s' % (m['file'], m.get('line'), m.get('end_line')),
                                  sha256=m.get('sha256'), mode=m.get('mode', m.get('kind')), group=r['group'],
                                  carries=m.get('properties', [])))
        for f in r.get('functions', []):
            if 'must_fail' in f['function']:
                continue
            obligations += 1
            discharged += 1 if f['success'] else 0
            solver_ms += f['ms']
            per_fn.append(dict(group=r['group'], function=f['function'], mode=f['mode'], ms=round(f['ms'], 2),
                               rlimit=f['rlimit'], discharged=bool(f['success'])))
        for c in r.get('census', []):
            trusted.add('Verus[%s] %s' % (r['group'], c))
        rewrites += r.get('rewrites', 0)
    k_list = []
    for h in kres.get('harnesses', []):
        obligations += 1
        discharged += 1 if h['status'] == 'ok' else 0
        k_list.append(dict(harness=h['name'], status=h['status'], wall_s=h.get('wall_s')))
    b_list = []
    evaluations = 0
    distinct = 0
    samples = []
    for s in bres.get('suites', []):
        b_list.append({k: s.get(k) for k in ('suite', 'status', 'domain', 'bound', 'evaluations', 'distinct_nontrivial', 'exhaustive', 'wall_s')})
        evaluations += s.get('evaluations', 0) or 0
        distinct += s.get('distinct_nontrivial', 0) or 0
        samples += (s.get('samples') or [])[:4]
    level = P['level']
    if level == 'proof' and (undecided or obligations == 0 or discharged != obligations):
        level = 'other'
    cov = dict(
        explanation=P.get('explanation', ''),
        functions_under_contract=functions,
        obligations=obligations,
        discharged=discharged,
        checker_cmd='verus <group>.rs --output-json --time --error-format=json (per group, files under evidence/extracted/, '
                    're-extracted from /repo on this run); cargo kani --harness <h> (crate /verif/kani); '
                    '/verif/.build/bounded/release/bounded --suite <s> (bounded stand-in)',
        trusted_base=sorted(trusted) + P.get('trusted', []),
        verus=dict(groups=[dict(group=r['group'], status=r['status'], reason=r['reason'], wall_s=round(r['wall_s'], 2),
                                solver=r.get('solver'), rewrites_applied=r.get('rewrites'), cmd=r.get('cmd'),
                                stubbed=r.get('stubbed', [])) for r in vres],
                   per_function=per_fn, solver_ms=round(solver_ms, 1),
                   rewrite_log='evidence/extracted/<group>.extract.json'),
        kani=dict(backend=kres.get('backend'), harnesses=k_list),
        bounded=dict(note='bounded stand-in on the real compiled code; never counted as proved', suites=b_list),
        evaluations=evaluations,
        distinct_nontrivial=distinct,
        rule='bounded suites enumerate the stated domains exhaustively; distinct_nontrivial counts distinct inputs the real '
             'code accepted / distinct reachable contents, as reported by each suite',
        samples=samples or [dict(obligation=p) for p in per_fn[:3]],
        exhaustive=False,
        undecided=undecided,
        violations=[{k: v.get(k) for k in ('kind', 'unit', 'obligation', 'clause', 'repo', 'input')} for v in violations],
    )
    return dict(property_id=pid, tier=tier, seed=seed, level=level, coverage=cov,
                assumptions=sorted(trusted) + P.get('trusted', []), wall_s=round(wall, 2), violations=len(violations))
