"""Property table: which units (Verus groups), Kani harnesses and bounded suites decide each property,
and how the evidence file is assembled from what this run actually did."""
import os

from . import extract

VERIF = os.path.dirname(os.path.dirname(os.path.abspath(__file__)))

# group -> rlimit override (None = Verus default 10)
RLIMITS = {}


def rlimit(group):
    try:
        return extract.load_group(group).get('rlimit')
    except Exception:
        return None


# unit id -> bounded suites that exercise the same contract on the real compiled code (witness search)
UNIT_SUITES = {
    'U-lower.lowercase_in_place': ['lower'],
    'U-lower.copy_as_lowercase': ['lower'],
}

PROPS = {
    'C08': dict(
        level='other',
        groups=['lib_lower'],
        kani=[],
        bounded=[],
        proved='U-lower',
        explanation='',
    ),
}

_GROUP_CACHE = {}


def unit_carries(unit_id, pid, group):
    g = _GROUP_CACHE.get(group)
    if g is None:
        try:
            g = extract.load_group(group)
        except Exception:
            return True
        _GROUP_CACHE[group] = g
    for u in g['units']:
        if u['id'] == unit_id:
            ps = u.get('properties')
            return (not ps) or pid in ps
    return True


def evidence(pid, P, tier, seed, vres, kres, bres, violations, undecided, wall):
    functions = []
    obligations = discharged = 0
    trusted = set()
    solver_ms = 0.0
    rewrites = 0
    per_fn = []
    for r in vres:
        for m in r.get('units', []):
            functions.append(dict(unit=m['id'], source='%s:%s-%s' % (m['file'], m.get('line'), m.get('end_line')),
                                  sha256=m.get('sha256'), mode=m.get('mode', m.get('kind')), group=r['group'],
                                  carries=m.get('properties', [])))
        for f in r.get('functions', []):
            if 'verif_canary_must_fail' in f['function']:
                continue
            obligations += 1
            discharged += 1 if f['success'] else 0
            solver_ms += f['ms']
            per_fn.append(dict(group=r['group'], function=f['function'], mode=f['mode'], ms=round(f['ms'], 2),
                               rlimit=f['rlimit'], discharged=bool(f['success'])))
        for c in r.get('census', []):
            trusted.add('Verus[%s] %s' % (r['group'], c))
        rewrites += r.get('rewrites', 0)
    k_list = []
    for h in kres.get('harnesses', []):
        obligations += 1
        discharged += 1 if h['status'] == 'ok' else 0
        k_list.append(dict(harness=h['name'], status=h['status'], wall_s=h.get('wall_s')))
    b_list = []
    evaluations = 0
    distinct = 0
    samples = []
    for s in bres.get('suites', []):
        b_list.append({k: s.get(k) for k in ('suite', 'status', 'domain', 'bound', 'evaluations', 'distinct_nontrivial', 'exhaustive', 'wall_s')})
        evaluations += s.get('evaluations', 0) or 0
        distinct += s.get('distinct_nontrivial', 0) or 0
        samples += (s.get('samples') or [])[:4]
    level = P['level']
    if level == 'proof' and (undecided or obligations == 0 or discharged != obligations):
        level = 'other'
    cov = dict(
        explanation=P.get('explanation', ''),
        functions_under_contract=functions,
        obligations=obligations,
        discharged=discharged,
        checker_cmd='verus <group>.rs --output-json --time --error-format=json (per group, files under evidence/extracted/, '
                    're-extracted from /repo on this run); cargo kani --harness <h> (crate /verif/kani); '
                    '/verif/.build/bounded/release/bounded --suite <s> (bounded stand-in)',
        trusted_base=sorted(trusted) + P.get('trusted', []),
        verus=dict(groups=[dict(group=r['group'], status=r['status'], reason=r['reason'], wall_s=round(r['wall_s'], 2),
                                solver=r.get('solver'), rewrites_applied=r.get('rewrites'), cmd=r.get('cmd')) for r in vres],
                   per_function=per_fn, solver_ms=round(solver_ms, 1),
                   rewrite_log='evidence/extracted/<group>.extract.json'),
        kani=dict(backend=kres.get('backend'), harnesses=k_list),
        bounded=dict(note='bounded stand-in on the real compiled code; never counted as proved', suites=b_list),
        evaluations=evaluations,
        distinct_nontrivial=distinct,
        rule='bounded suites enumerate the stated domains exhaustively; distinct_nontrivial counts distinct inputs the real '
             'code accepted / distinct reachable contents, as reported by each suite',
        samples=samples or [dict(obligation=p) for p in per_fn[:3]],
        exhaustive=False,
        undecided=undecided,
        violations=[{k: v.get(k) for k in ('kind', 'unit', 'obligation', 'clause', 'repo', 'input')} for v in violations],
    )
    return dict(property_id=pid, tier=tier, seed=seed, level=level, coverage=cov,
                assumptions=sorted(trusted) + P.get('trusted', []), wall_s=round(wall, 2), violations=len(violations))
