"""Run Verus on one generated group file and classify the outcome.

status:
  'proved'     every function of the file verified, guards passed
  'failed'     at least one *verification* error (an obligation was rejected by the solver)
  'undecided'  anything else: extraction anchor lost, unsupported construct, type error in spliced ghost
               code, rlimit, tool crash, guard failure  (=> exit 2, never an alarm)
"""
import json
import os
import re
import subprocess
import time

from . import extract

HERE = os.path.dirname(os.path.dirname(os.path.abspath(__file__)))
from .rsparse import ExtractError

VERIF = os.path.dirname(os.path.dirname(os.path.abspath(__file__)))

# messages Verus emits when the SMT solver rejects an obligation
VERIFICATION_MSG = re.compile(
    r'^(postcondition not satisfied|precondition not satisfied|assertion failed|invariant not satisfied'
    r'|loop invariant not (satisfied|preserved)|possible arithmetic underflow/overflow|possible division by zero'
    r'|decreases not satisfied|unable to prove|constructed value may fail to meet its declared type invariant'
    r'|possible bit shift underflow/overflow|recommendation not met|cannot show invariant holds'
    r'|could not prove termination|failed to satisfy .*invariant|possible out-of-bounds|index out of bounds'
    r'|unreachable|cannot prove)', re.I)
RLIMIT_MSG = re.compile(r'resource limit|rlimit|timed? ?out', re.I)

CANARY = '''
// ---- consistency canary: must be REJECTED; if it verifies the assumptions are contradictory ----
pub proof fn verif_canary_must_fail()
{
%s
    assert(false);
}
'''


def census(text, metas=()):
    """Mechanical scan for every trusted item in the generated file."""
    items = []
    imported = {}
    for m in metas:
        if m.get('mode') == 'contract_only':
            imported[m.get('fn')] = 'contract of %s imported (proved in another group)' % m['id']
        elif m.get('mode') == 'assumed':
            imported[m.get('fn')] = 'ASSUMED contract on purl function %s (body is a single dependency call)' % m['id']
    lines = text.split('\n')
    for i, l in enumerate(lines):
        s = l.strip()
        if s.startswith('//'):
            continue
        for kw in ('admit(', 'assume('):
            if kw in s and 'assume_specification' not in s:
                items.append('%s: %s' % (kw[:-1], s[:140]))
        if 'assume_specification' in s:
            m = re.search(r'assume_specification(?:<[^>]*>)?\s*\[\s*([^\]]+?)\s*\]', s)
            items.append('assume_specification: %s' % (m.group(1) if m else s[:100]))
        if re.search(r'\buninterp\s+spec\s+fn\b', s):
            m = re.search(r'fn\s+(\w+)', s)
            items.append('uninterp: %s' % m.group(1))
        if 'verifier::external_body' in s:
            # name of the next fn
            for j in range(i, min(i + 6, len(lines))):
                m = re.search(r'\bfn\s+(\w+)', lines[j])
                if m:
                    pg = re.search(r'/\* proved in group (\w+) \*/', s)
                    if pg:
                        items.append('lemma %s imported without its proof (proved in group %s)' % (m.group(1), pg.group(1)))
                    elif m.group(1) in imported:
                        items.append(imported[m.group(1)])
                    else:
                        items.append('external_body: %s' % m.group(1))
                    break
        if 'verifier::external' in s and 'external_body' not in s:
            items.append('external: %s' % s[:100])
    return sorted(set(items))


def run_group(name, outdir, rlimit=None, canary_calls=None, timeout=600):
    """Runs in a private working directory (two checks may run the same group at the same time), then publishes the
    generated file, the extraction log and the verifier log into `outdir` atomically."""
    import shutil, tempfile
    os.makedirs(os.path.join(VERIF, '.build', 'vwork'), exist_ok=True)
    work = tempfile.mkdtemp(prefix=name + '-', dir=os.path.join(VERIF, '.build', 'vwork'))
    try:
        res = _run_group_in(name, work, rlimit, canary_calls, timeout)
        os.makedirs(outdir, exist_ok=True)
        for fn in os.listdir(work):
            if fn.startswith(name + '.'):
                tmp = os.path.join(outdir, '.%s.%d.tmp' % (fn, os.getpid()))
                shutil.copyfile(os.path.join(work, fn), tmp)
                os.replace(tmp, os.path.join(outdir, fn))
        if res.get('generated'):
            res['generated'] = os.path.join(outdir, os.path.basename(res['generated']))
        return res
    finally:
        shutil.rmtree(work, ignore_errors=True)


def _run_group_in(name, outdir, rlimit=None, canary_calls=None, timeout=600):
    """One or more attempts: a fn unit that cannot be extracted, or whose spliced text the verifier refuses to type-check, is
    replaced by its contract (stubbed) and the rest of the group is verified again. Nothing is stubbed on the unchanged tree."""
    stub = []
    reasons = []
    for attempt in range(6):
        res = _run_group_once(name, outdir, rlimit, canary_calls, timeout, tuple(stub))
        res['stubbed'] = list(stub)
        culprits = [u for u in res.pop('culprits', []) if u not in stub]
        if res['status'] == 'undecided' and res.get('soft') and culprits:
            # units extracted from the same source function (the instances of a macro-generated function, R12) share its fate
            try:
                us = extract.load_group(name)['units']
                src = lambda u: (u.get('file'), u.get('fn'), u.get('ctx'), u.get('nth', 0))
                keys = set(src(u) for u in us if u['id'] in culprits and u.get('fn'))
                culprits += [u['id'] for u in us if u.get('fn') and src(u) in keys and u['id'] not in culprits and u['id'] not in stub
                             and u.get('mode') not in ('contract_only', 'assumed')]
            except Exception:
                pass
            stub.extend(culprits)
            reasons.append('%s: %s' % (', '.join(culprits), res.get('reason', '')[:240]))
            continue
        if stub and res['status'] in ('proved', 'failed'):
            res['partial'] = 'units not verified on this tree (code shape changed): ' + ' || '.join(reasons)
        return res
    return res


_PINNED = None


def _pinned():
    """contracts/pinned_shapes.json: the shape of every unit on the tree the contracts were written for (tools/pin_shapes.py)"""
    global _PINNED
    if _PINNED is None:
        try:
            with open(os.path.join(HERE, 'contracts', 'pinned_shapes.json')) as f:
                _PINNED = json.load(f)['groups']
        except (OSError, ValueError, KeyError):
            _PINNED = {}
    return _PINNED


def _run_group_once(name, outdir, rlimit=None, canary_calls=None, timeout=600, stub=()):
    t0 = time.time()
    # soft = the verifier could not be asked because the code changed shape (lost anchor, construct outside the supported subset);
    # hard = the verifier was asked and gave no verdict (rlimit, crash) or a guard failed
    res = dict(group=name, status='undecided', soft=False, reason='', functions=[], failures=[], units=[], rewrites=0,
               census=[], wall_s=0.0, solver='z3 (bundled with Verus 0.2026.09.13)')
    try:
        path, metas, log, g = extract.build_group(name, outdir, stub)
    except ExtractError as e:
        res['reason'] = 'extraction: %s' % e
        res['soft'] = True
        if getattr(e, 'stubbable', False):
            res['culprits'] = [e.unit_id]
        res['wall_s'] = time.time() - t0
        return res
    except (OSError, KeyError, ValueError) as e:
        res['reason'] = 'extraction error: %r' % e
        res['wall_s'] = time.time() - t0
        return res
    text = open(path).read()
    # append the canary (inside the verus! block)
    calls = g.get('canary', '')
    text = text.replace('} // verus!', CANARY % calls + g.get('vacuity', '') + '} // verus!')
    with open(path, 'w') as f:
        f.write(text)
    res['units'] = metas
    res['rewrites'] = len(log)
    res['generated'] = path
    res['census'] = census(text, metas)
    cmd = ['verus', os.path.basename(path), '--output-json', '--time', '--error-format=json', '--multiple-errors', '4']
    rl = rlimit or g.get('rlimit')
    if rl:
        cmd += ['--rlimit', str(rl)]
    res['cmd'] = ' '.join(cmd)
    try:
        p = subprocess.run(cmd, cwd=outdir, capture_output=True, text=True, timeout=timeout)
    except subprocess.TimeoutExpired:
        res['reason'] = 'verus timed out after %ds' % timeout
        res['wall_s'] = time.time() - t0
        return res
    summary = None
    try:
        summary = json.loads(p.stdout)
    except ValueError:
        pass
    diags = []
    for line in p.stderr.split('\n'):
        line = line.strip()
        if line.startswith('{'):
            try:
                diags.append(json.loads(line))
            except ValueError:
                pass
    errors = [d for d in diags if d.get('level') == 'error' and not d.get('message', '').startswith('aborting due to')]
    if 'internal compiler error' in p.stderr or 'panicked at' in p.stderr or 'stack backtrace' in p.stderr:
        # the verifier itself crashed on this input: a construct outside its reach (never seen on the unchanged tree) -- same
        # standing as an unsupported construct: the group is not verified, the other back ends decide
        res['reason'] = 'not a verification verdict: the verifier crashed on this input (internal compiler error)'
        res['soft'] = True
        res['wall_s'] = time.time() - t0
        with open(os.path.join(outdir, name + '.verus.log'), 'w') as f:
            f.write(p.stderr[-20000:])
        return res
    with open(os.path.join(outdir, name + '.verus.log'), 'w') as f:
        f.write(p.stdout[-20000:] if summary is None else json.dumps(summary.get('verification-results')))
        f.write('\n')
        for d in diags:
            f.write(d.get('rendered') or d.get('message', ''))
            f.write('\n')
    funcs = []
    if summary:
        for mod in summary.get('times-ms', {}).get('smt', {}).get('smt-run-module-times', []):
            for fb in mod.get('function-breakdown', []):
                funcs.append(dict(function=fb['function'].split('::', 1)[-1], mode=fb.get('mode:', ''),
                                  ms=fb.get('time-micros', 0) / 1000.0, rlimit=fb.get('rlimit'), success=fb.get('success')))
    res['functions'] = funcs
    canary_seen = False
    culprits = []
    hard = []      # non-verification errors => undecided
    for d in errors:
        msg = d.get('message', '')
        spans = d.get('spans', [])
        prim = [s for s in spans if s.get('is_primary')] or spans
        line = prim[0]['line_start'] if prim else 0
        all_lines = [s['line_start'] for s in spans]
        rendered = d.get('rendered', msg)
        # canary?
        if 'verif_canary_must_fail' in rendered or _in_canary(text, all_lines):
            canary_seen = True
            continue
        if VERIFICATION_MSG.search(msg):
            unit, rfile, rline = None, None, None
            cands = []
            for ln in [line] + all_lines:
                u, f_, l_ = extract.map_line(metas, ln, text)
                if u:
                    cands.append((u, f_, l_))
            # attribute to the function whose body is being checked, not to the trait / contract declaration
            body_units = set(m['id'] for m in metas if m.get('mode') == 'body')
            pref = [c for c in cands if c[0] in body_units] or cands
            if pref:
                unit, rfile, rline = pref[0]
            res['failures'].append(dict(message=msg, unit=unit, gen_line=line, repo_file=rfile, repo_line=rline,
                                        clause=_clause_text(text, prim), rendered=rendered))
        elif RLIMIT_MSG.search(msg):
            hard.append('rlimit: ' + msg)
        else:
            hard.append(msg[:300])
            # which unit's text does the verifier refuse? (a body unit: candidate for stubbing)
            for ln in [line] + all_lines:
                u, f_, l_ = extract.map_line(metas, ln, text)
                mm = [m for m in metas if m['id'] == u]
                if u and mm and mm[0].get('kind') == 'fn' and mm[0].get('mode') == 'body':
                    culprits.append(u)
                    break
    res['wall_s'] = time.time() - t0
    if summary is None and not errors:
        res['reason'] = 'verus produced no result (exit %s): %s' % (p.returncode, p.stderr[-400:])
        return res
    if hard:
        res['soft'] = not any(h.startswith('rlimit') for h in hard)
        res['culprits'] = sorted(set(culprits))
        res['reason'] = 'not a verification verdict: ' + ' | '.join(hard[:3])
        res['failures'] = []       # cannot trust partial verdicts from a file that does not type-check
        return res
    if not canary_seen:
        res['reason'] = 'consistency canary was NOT rejected: assumptions may be contradictory'
        return res
    # every `…_must_fail` function (the canary, and the vacuity guards that restate a theorem's hypotheses with `ensures false`) must be rejected
    accepted = [f['function'] for f in funcs if 'must_fail' in f['function'] and f.get('success')]
    if accepted:
        res['reason'] = 'guard NOT rejected (contradictory assumptions or hypotheses): %s' % accepted
        return res
    real = [f for f in funcs if 'must_fail' not in f['function']]
    if not real:
        res['reason'] = 'vacuity guard: Verus reported zero verified functions'
        return res
    # vacuity guard: every unit extracted with its body must have been checked by the solver
    names = [f['function'] for f in real]
    missing = []
    for m in metas:
        if m.get('kind') == 'fn' and m.get('mode') == 'body':
            if not any(n == m['fn'] or n.endswith('::' + m['fn']) for n in names):
                missing.append(m['id'])
        if m.get('kind') == 'block' and m.get('mode') == 'body':
            for fn in m.get('fns', []):
                if not any(n == fn or n.endswith('::' + fn) for n in names):
                    missing.append(m['id'] + '.' + fn)
    if missing and not res['failures']:
        res['reason'] = 'vacuity guard: no solver query was generated for unit(s) %s' % missing
        return res
    if res['failures']:
        # an obligation of a unit whose body was RE-SHAPED (the rewrites of 1.1 apply a different number of times than on the tree
        # the contract file was written for) is undischarged, not refuted: the proof hints and the modelled std calls no longer
        # line up with the code. Such a unit is given up (stubbed to its contract, its bounded suites stand in); an obligation of a
        # unit whose shape is unchanged -- an in-place edit, or a changed callee / constant -- is reported as rejected.
        pinned = _pinned().get(name)
        now = extract.unit_shapes(log)
        body_units = set(m['id'] for m in metas if m.get('mode') == 'body' and m.get('kind') == 'fn')
        reshaped = sorted(set(fl['unit'] for fl in res['failures']
                              if pinned is not None and fl.get('unit') in body_units and pinned.get(fl['unit'], {}) != now.get(fl['unit'], {})))
        if reshaped:
            res['soft'] = True
            res['culprits'] = reshaped
            res['reason'] = 'obligation(s) of re-shaped unit(s) no longer discharged (undecided, not refuted): ' + '; '.join(
                '%s: %s' % (fl['unit'], fl['message']) for fl in res['failures'] if fl.get('unit') in reshaped)[:400]
            res['failures'] = []
            return res
        res['status'] = 'failed'
        res['reason'] = '%d obligation(s) rejected' % len(res['failures'])
        return res
    bad = [f for f in real if not f['success']]
    if bad:
        res['reason'] = 'functions reported unsuccessful without a diagnostic: %s' % [b['function'] for b in bad]
        return res
    res['status'] = 'proved'
    res['reason'] = '%d functions verified' % len(real)
    return res


def _in_canary(text, lines):
    ls = text.split('\n')
    start = None
    for i, l in enumerate(ls):
        if 'fn verif_canary_must_fail' in l:
            start = i + 1
    if start is None:
        return False
    return any(ln >= start for ln in lines)


def _clause_text(text, spans):
    if not spans:
        return ''
    s = spans[0]
    ls = text.split('\n')
    a, b = s['line_start'], s['line_end']
    return ' '.join(x.strip() for x in ls[a - 1:b])[:400]
