"""Which functions of /repo/purl/src are under contract, and which are not (and why).

A property such as C06 ("no operation panics") speaks about EVERY function of the crate. The Verus groups cover the functions
their units name; this module compares, on every run, the functions found in the current source with the line ranges the units
extract, and with the committed list `contracts/not_under_contract.json` (each entry: why it is outside, what stands in).
A function that is in neither -- added since the contracts were written, or moved out of a verified block -- is reported as
NOT-VERIFIED (never as a violation): nothing is known about it."""
import glob, json, os, re
from . import rsparse, extract

HERE = os.path.dirname(os.path.dirname(os.path.abspath(__file__)))
LIST = os.path.join(HERE, 'contracts', 'not_under_contract.json')


def _spans(masked, pat, text=None):
    out = []
    for t in re.finditer(pat, text if text is not None else masked):      # `text`: the unmasked source (same offsets), for patterns holding a string literal
        o = masked.index('{', t.start())
        out.append((t.start(), rsparse.match_brace(masked, o)))
    return out


def source_functions(repo):
    """every fn WITH A BODY outside #[cfg(test)] modules: (file, line, name, in_macro, in_hook_module)"""
    res = []
    for p in sorted(glob.glob(os.path.join(repo, 'purl/src/**/*.rs'), recursive=True)):
        rel = os.path.relpath(p, repo)
        src = open(p).read()
        m = rsparse.mask(src)
        tests = _spans(m, r'#\[cfg\(test\)\]\s*(?:pub\s+)?mod\s+\w+\s*\{')
        hooks = _spans(m, r'#\[cfg\(feature = "verif"\)\]\s*(?:#\[[^\]]*\]\s*)*(?:pub\s+)?mod\s+\w+\s*\{', src)
        macros = _spans(m, r'macro_rules!\s*\w+\s*\{')
        seen = {}
        for f in re.finditer(r'\bfn\s+(\w+)', m):
            if any(a <= f.start() <= b for a, b in tests):
                continue
            j, depth, body = f.end(), 0, None
            while j < len(m):
                ch = m[j]
                if ch in '([':
                    depth += 1
                elif ch in ')]':
                    depth -= 1
                elif ch == ';' and depth == 0:
                    body = False
                    break
                elif ch == '{' and depth == 0:
                    body = True
                    break
                j += 1
            if not body:
                continue
            name = f.group(1)
            nth = seen.get(name, 0)
            seen[name] = nth + 1
            res.append(dict(file=rel, line=rsparse.line_of(src, f.start()), fn=name, nth=nth,
                            in_macro=any(a <= f.start() <= b for a, b in macros),
                            in_hook=any(a <= f.start() <= b for a, b in hooks)))
    return res


def unit_ranges(groups):
    """line ranges of the items the groups extract WITH their body (or as a single assumed call)"""
    ranges = {}
    for g in groups:
        try:
            grp = extract.load_group(g)
        except Exception:
            continue
        for u in grp['units']:
            if u.get('kind', 'fn') == 'raw' or not u.get('file'):
                continue
            if u.get('kind', 'fn') in ('struct', 'enum', 'trait'):
                continue
            if u.get('mode') == 'contract_only':
                continue
            try:
                _t, meta = extract.build_unit(u, [])
            except Exception:
                continue
            if meta.get('line'):
                ranges.setdefault(meta['file'], []).append((meta['line'], meta.get('end_line', meta['line']), u['id'], meta.get('mode', 'body'), g))
    return ranges


def census(repo, groups):
    ranges = unit_ranges(groups)
    listed = json.load(open(LIST))['functions'] if os.path.exists(LIST) else []
    key = lambda e: (e['file'], e['fn'], e.get('nth', 0))
    listed_by = {key(e): e for e in listed}
    under, outside, unknown = [], [], []
    for f in source_functions(repo):
        hit = [r for r in ranges.get(f['file'], []) if r[0] <= f['line'] <= r[1]]
        if hit:
            under.append(dict(f, unit=hit[0][2], mode=hit[0][3], group=hit[0][4]))
        elif f['in_hook']:
            outside.append(dict(f, reason='verification hook (cargo feature `verif`): forwards to a private function that is under contract; not compiled into the library'))
        elif key(f) in listed_by:
            outside.append(dict(f, reason=listed_by[key(f)]['reason'], stands_in=listed_by[key(f)].get('stands_in')))
        else:
            unknown.append(f)
    return dict(under=under, outside=outside, unknown=unknown)
