"""K: plain Kani harnesses (crate /verif/kani, path-depends on /repo/purl with feature `verif`), each over a
full finite domain. Runs `cargo kani --harness h` and parses the per-harness verdict."""
import os
import re
import shutil
import subprocess
import time

VERIF = os.path.dirname(os.path.dirname(os.path.abspath(__file__)))
REPO = os.environ.get('PURL_REPO', '/repo')
CRATE = os.path.join(VERIF, 'kani')
TARGET = os.path.join(VERIF, '.build', 'kani')
if REPO != '/repo' and os.environ.get('VERIF_ISOLATE'):
    # tools/seedrun.py, tools/refrun.py: several scratch trees checked at the same time -- the harness crate and its build
    # output live inside the scratch tree and disappear with it
    _src = CRATE
    CRATE = os.path.join(REPO, '.verif-build', 'kani')
    TARGET = os.path.join(REPO, '.verif-build', 'target-kani')
    if not os.path.isdir(CRATE):
        shutil.copytree(_src, CRATE, ignore=shutil.ignore_patterns('Cargo.toml', 'Cargo.lock', 'target'))


def run(harnesses, tier):
    t0 = time.time()
    out = dict(harnesses=[], status='ok', backend='Kani 0.68.0 / CBMC 6.11 (CaDiCaL)')
    if not harnesses:
        return out
    try:
        shutil.copy(os.path.join(REPO, 'Cargo.lock'), os.path.join(CRATE, 'Cargo.lock'))
    except OSError:
        pass
    with open(os.path.join(CRATE, 'Cargo.toml.in')) as f:
        toml = f.read().replace('@REPO@', REPO)
    try:
        old = open(os.path.join(CRATE, 'Cargo.toml')).read()
    except OSError:
        old = None
    if old != toml:
        tmp = os.path.join(CRATE, '.Cargo.toml.%d' % os.getpid())
        with open(tmp, 'w') as f:
            f.write(toml)
        os.replace(tmp, os.path.join(CRATE, 'Cargo.toml'))
    cmd = ['cargo', 'kani', '--target-dir', TARGET, '--output-format', 'terse']
    for h in harnesses:
        cmd += ['--harness', h]
    env = dict(os.environ, CARGO_NET_OFFLINE='true', PURL_REPO=REPO)
    try:
        p = subprocess.run(cmd, cwd=CRATE, capture_output=True, text=True, timeout=1800, env=env)
    except subprocess.TimeoutExpired:
        return dict(harnesses=[], status='error', reason='cargo kani timed out')
    txt = p.stdout + '\n' + p.stderr
    logp = os.path.join(os.path.dirname(TARGET) if os.environ.get('VERIF_ISOLATE') and REPO != '/repo' else os.path.join(VERIF, 'evidence', 'extracted'), 'kani.log')
    with open(logp + '.%d.tmp' % os.getpid(), 'w') as f:
        f.write(txt[-200000:])
    os.replace(logp + '.%d.tmp' % os.getpid(), logp)
    # split per harness
    blocks = re.split(r'(?=Checking harness )', txt)
    seen = {}
    for b in blocks:
        m = re.match(r'Checking harness (\S+?)\.\.\.', b)
        if not m:
            continue
        name = m.group(1).split('::')[-1]
        ok = 'VERIFICATION:- SUCCESSFUL' in b
        failed = 'VERIFICATION:- FAILED' in b
        tm = re.search(r'Verification Time: ([0-9.]+)s', b)
        fc = re.findall(r'Failed Checks: (.*)', b)
        seen[name] = dict(name=name, status='ok' if ok else ('failed' if failed else 'error'),
                          wall_s=float(tm.group(1)) if tm else 0.0, failed_checks='; '.join(fc)[:400],
                          tail=b[-1500:] if not ok else '')
        if failed and re.search(r'unwinding assertion|Failed Checks: .*unwind', b) and not re.search(r'Failed Checks: (?!.*unwind)', b):
            seen[name]['status'] = 'error'
            seen[name]['reason'] = 'unwinding bound too small'
    for h in harnesses:
        if h in seen:
            out['harnesses'].append(seen[h])
        else:
            out['harnesses'].append(dict(name=h, status='error', reason='no verdict in cargo kani output: ' + txt[-300:], wall_s=0.0))
    out['wall_s'] = time.time() - t0
    if p.returncode != 0 and not any(h['status'] == 'failed' for h in out['harnesses']) and any(h['status'] == 'error' for h in out['harnesses']):
        out['status'] = 'error'
        out['reason'] = 'cargo kani exit %d: %s' % (p.returncode, txt[-400:])
    return out
