"""B: bounded contract checks on the real compiled code (crate /verif/bounded). A stand-in, labelled bounded,
never counted as proved. Also used to search a concrete witness when a Verus obligation fails, and for replay."""
import json
import os
import shutil
import subprocess
import time

VERIF = os.path.dirname(os.path.dirname(os.path.abspath(__file__)))
REPO = os.environ.get('PURL_REPO', '/repo')
CRATE = os.path.join(VERIF, 'bounded')
TARGET = os.path.join(VERIF, '.build', 'bounded')
if REPO != '/repo' and os.environ.get('VERIF_ISOLATE'):
    # tools/seedrun.py, tools/refrun.py: several scratch trees checked at the same time -- the harness crate and its build
    # output live inside the scratch tree and disappear with it
    _src = CRATE
    CRATE = os.path.join(REPO, '.verif-build', 'bounded')
    TARGET = os.path.join(REPO, '.verif-build', 'target-bounded')
    if not os.path.isdir(CRATE):
        shutil.copytree(_src, CRATE, ignore=shutil.ignore_patterns('Cargo.toml', 'Cargo.lock', 'target'))


def build():
    try:
        shutil.copy(os.path.join(REPO, 'Cargo.lock'), os.path.join(CRATE, 'Cargo.lock'))
    except OSError:
        pass
    with open(os.path.join(CRATE, 'Cargo.toml.in')) as f:
        toml = f.read().replace('@REPO@', REPO)
    try:
        old = open(os.path.join(CRATE, 'Cargo.toml')).read()
    except OSError:
        old = None
    if old != toml:
        tmp = os.path.join(CRATE, '.Cargo.toml.%d' % os.getpid())
        with open(tmp, 'w') as f:
            f.write(toml)
        os.replace(tmp, os.path.join(CRATE, 'Cargo.toml'))
    env = dict(os.environ, CARGO_NET_OFFLINE='true', PURL_REPO=REPO)
    p = subprocess.run(['cargo', 'build', '--release', '--offline', '--target-dir', TARGET], cwd=CRATE,
                       capture_output=True, text=True, env=env, timeout=1800)
    if p.returncode != 0:
        return None, p.stderr[-1500:]
    return os.path.join(TARGET, 'release', 'bounded'), ''


def run(pid, suites, tier, seed):
    out = dict(suites=[], status='ok', violations=[])
    exe, err = build()
    if exe is None:
        return dict(suites=[], status='error', reason='bounded crate does not build against the current tree: ' + err, violations=[])
    for s in suites:
        t0 = time.time()
        try:
            p = subprocess.run([exe, '--suite', s, '--tier', tier, '--seed', str(seed)], capture_output=True, text=True, timeout=7200)
        except subprocess.TimeoutExpired:
            out['suites'].append(dict(suite=s, status='error', reason='timeout'))
            out['status'] = 'error'; out['reason'] = 'suite %s timed out' % s
            continue
        try:
            r = json.loads(p.stdout)
        except ValueError:
            if p.returncode < 0 or 'stack overflow' in (p.stderr or '') or 'fatal runtime error' in (p.stderr or ''):
                # the library took the whole process down (stack overflow, abort): worse than a panic, and catch_unwind cannot hold it
                v = dict(unit='C06.abort', clause='no operation of the library aborts the process or overflows the stack',
                         obligation='no operation of the library aborts the process or overflows the stack',
                         input=dict(suite=s, note='the suite process died; the input is whatever it was evaluating'),
                         observed='process ended with status %s: %s' % (p.returncode, (p.stderr or '')[-300:]), required='a value or an error', suite=s)
                out['suites'].append(dict(suite=s, status='violated', violations=[v], evaluations=0, wall_s=time.time() - t0))
                out['violations'].append(v)
                continue
            out['suites'].append(dict(suite=s, status='error', reason=(p.stderr or p.stdout)[-400:]))
            out['status'] = 'error'; out['reason'] = 'suite %s gave no JSON: %s' % (s, (p.stderr or p.stdout)[-300:])
            continue
        r['wall_s'] = time.time() - t0
        r['status'] = 'violated' if r.get('violations') else 'ok'
        out['suites'].append(r)
        for v in r.get('violations', []):
            v = dict(v)
            v['suite'] = s
            out['violations'].append(v)
    return out


def replay(pid, path):
    with open(path) as f:
        payload = json.load(f)
    w = payload.get('witness') or payload
    suite, inp = w.get('suite'), w.get('input')
    if not suite or inp is None:
        # no concrete input: the replay re-generates the failed obligation from the current tree and asks the verifier again
        from . import verus_run, kani_run
        print('replay of obligation %r of unit %r (no concrete input: no-failing-input-found)' % (payload.get('obligation'), payload.get('unit')))
        if payload.get('kind') == 'V' and payload.get('group'):
            outdir = os.path.join(VERIF, 'evidence', 'extracted')
            r = verus_run.run_group(payload['group'], outdir)
            same = [f for f in r['failures'] if f.get('unit') == payload.get('unit')]
            print('verus %s: %s' % (r['status'], r['reason']))
            for f in same:
                print(f.get('rendered', '')[:1500])
            if same:
                print('VIOLATION property=%s replay=%s no-failing-input-found' % (pid, path))
                return 1
            return 0 if r['status'] == 'proved' else 2
        if payload.get('kind') == 'K':
            r = kani_run.run([payload.get('unit')], 'quick')
            h = r['harnesses'][0] if r.get('harnesses') else {}
            print('kani %s: %s' % (payload.get('unit'), h.get('status')))
            if h.get('status') == 'failed':
                print('VIOLATION property=%s replay=%s no-failing-input-found' % (pid, path))
                return 1
            return 0 if h.get('status') == 'ok' else 2
        print(payload.get('verus_output', ''))
        return 2
    exe, err = build()
    if exe is None:
        print('cannot build: ' + err)
        return 2
    p = subprocess.run([exe, '--suite', suite, '--replay', json.dumps(inp)], capture_output=True, text=True)
    print(p.stdout)
    try:
        r = json.loads(p.stdout)
    except ValueError:
        return 2
    if r.get('violations'):
        print('VIOLATION property=%s replay=%s' % (pid, path))
        return 1
    return 0
