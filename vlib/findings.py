"""known_findings.json: genuine defects recorded (kind 'finding', suppresses exactly that input) or repaired
(kind 'fixed', suppresses nothing). Never written at run time."""
import json
import os

VERIF = os.path.dirname(os.path.dirname(os.path.abspath(__file__)))


def load():
    p = os.path.join(VERIF, 'known_findings.json')
    if not os.path.exists(p):
        return []
    with open(p) as f:
        return json.load(f).get('entries', [])


def match(entries, pid, v):
    """A violation is a known finding only if property, unit and the specific input all match."""
    for e in entries:
        if e.get('kind') != 'finding':
            continue
        if pid not in e.get('properties', []):
            continue
        if e.get('unit') and e['unit'] != v.get('unit'):
            continue
        inp = v.get('input')
        if inp is None and v.get('witness'):
            inp = v['witness'].get('input')
        if e.get('input') is not None and e['input'] != inp:
            continue
        return e
    return None
