"""Minimal Rust lexer utilities for mechanical extraction: comment/string aware scanning,
brace matching, locating fn / struct / enum items. No parsing beyond that."""
import re


class ExtractError(Exception):
    """The anchor was lost or the construct is outside the supported subset (=> undecided, never alarm)."""


def mask(src):
    """Return a same-length string where comments, string literals and char literals are replaced
    by spaces (newlines kept), so structural scanning can ignore them."""
    out = list(src)
    i, n = 0, len(src)

    def blank(a, b):
        for k in range(a, b):
            if out[k] != '\n':
                out[k] = ' '

    while i < n:
        c = src[i]
        if src.startswith('//', i):
            j = src.find('\n', i)
            j = n if j < 0 else j
            blank(i, j)
            i = j
        elif src.startswith('/*', i):
            depth, j = 1, i + 2
            while j < n and depth:
                if src.startswith('/*', j):
                    depth += 1; j += 2
                elif src.startswith('*/', j):
                    depth -= 1; j += 2
                else:
                    j += 1
            blank(i, j)
            i = j
        elif c == '"' or (c == 'r' and re.match(r'r#*"', src[i:]) and (i == 0 or not (src[i-1].isalnum() or src[i-1] == '_'))) \
                or (c == 'b' and i + 1 < n and src[i+1] == '"' and (i == 0 or not (src[i-1].isalnum() or src[i-1] == '_'))):
            if c == 'b':
                i += 1
                c = '"'
            if c == 'r':
                m = re.match(r'r(#*)"', src[i:])
                hashes = m.group(1)
                end = src.find('"' + hashes, i + len(m.group(0)))
                j = n if end < 0 else end + 1 + len(hashes)
            else:
                j = i + 1
                while j < n and src[j] != '"':
                    j += 2 if src[j] == '\\' else 1
                j += 1
            blank(i + 1, j - 1)   # keep the quotes so tokens stay separated
            i = j
        elif c == "'":
            # char literal or lifetime
            m = re.match(r"'(\\u\{[0-9a-fA-F_]+\}|\\x[0-9a-fA-F]{2}|\\.|[^\\'\n])'", src[i:])
            if m:
                j = i + len(m.group(0))
                blank(i + 1, j - 1)
                i = j
            else:
                i += 1
        else:
            i += 1
    return ''.join(out)


def match_brace(masked, open_idx, open_ch='{', close_ch='}'):
    assert masked[open_idx] == open_ch
    depth = 0
    for k in range(open_idx, len(masked)):
        ch = masked[k]
        if ch == open_ch:
            depth += 1
        elif ch == close_ch:
            depth -= 1
            if depth == 0:
                return k
    raise ExtractError('unbalanced braces')


def line_of(src, idx):
    return src.count('\n', 0, idx) + 1


def find_block(src, header_re, start=0, end=None):
    """Find an item whose header matches header_re (on masked text) followed by a { } block.
    Returns (hdr_start, open_idx, close_idx)."""
    m_src = mask(src)
    end = len(src) if end is None else end
    m = re.compile(header_re, re.S).search(m_src, start, end)
    if not m:
        raise ExtractError('anchor not found: %s' % header_re)
    o = m_src.find('{', m.end() - 1 if m_src[m.end() - 1] == '{' else m.end())
    if o < 0 or o >= end:
        raise ExtractError('no body for: %s' % header_re)
    c = match_brace(m_src, o)
    return m.start(), o, c


def find_fn(src, name, ctx=None, nth=0):
    """Locate `fn name` (nth occurrence inside the block whose header matches ctx, or at any depth if
    ctx is None). Returns dict(sig, body, sig_start, open, close, line)."""
    m_src = mask(src)
    lo, hi = 0, len(src)
    if ctx is not None:
        _, o, c = find_block(src, ctx)
        lo, hi = o + 1, c
    pat = re.compile(r'(?:\bpub(?:\([a-z]+\))?\s+)?(?:\bconst\s+)?\bfn\s+%s\b' % re.escape(name))
    hits = [m for m in pat.finditer(m_src, lo, hi)]
    if ctx is not None:
        # keep only those directly inside the ctx block (depth 1 relative to it)
        def depth_at(idx):
            d = 0
            for ch in m_src[lo:idx]:
                if ch == '{': d += 1
                elif ch == '}': d -= 1
            return d
        hits = [m for m in hits if depth_at(m.start()) == 0]
    if len(hits) <= nth:
        raise ExtractError('fn %s not found (ctx=%s)' % (name, ctx))
    m = hits[nth]
    # the body's opening brace: first '{' at paren/bracket/angle-agnostic depth 0 after the fn keyword
    k, pd = m.end(), 0
    while k < hi:
        ch = m_src[k]
        if ch in '([':
            pd += 1
        elif ch in ')]':
            pd -= 1
        elif ch == '{' and pd == 0:
            break
        elif ch == ';' and pd == 0:
            raise ExtractError('fn %s has no body' % name)
        k += 1
    o = k
    c = match_brace(m_src, o)
    return dict(sig=src[m.start():o].rstrip(), body=src[o:c + 1], sig_start=m.start(), open=o, close=c,
                line=line_of(src, m.start()), end_line=line_of(src, c))


def find_item(src, kind, name):
    """struct / enum / trait definition with a { } body (tuple structs: up to ';')."""
    m_src = mask(src)
    pat = re.compile(r'(?:\bpub(?:\([a-z]+\))?\s+)?\b%s\s+%s\b' % (kind, re.escape(name)))
    m = pat.search(m_src)
    if not m:
        raise ExtractError('%s %s not found' % (kind, name))
    k = m.end()
    while k < len(m_src) and m_src[k] not in '{;(':
        k += 1
    if m_src[k] == '{':
        c = match_brace(m_src, k)
        return dict(text=src[m.start():c + 1], line=line_of(src, m.start()), end_line=line_of(src, c))
    if m_src[k] == '(':
        c = match_brace(m_src, k, '(', ')')
        semi = m_src.find(';', c)
        return dict(text=src[m.start():semi + 1], line=line_of(src, m.start()), end_line=line_of(src, semi))
    return dict(text=src[m.start():k + 1], line=line_of(src, m.start()), end_line=line_of(src, k))


def strip_comments_attrs(text):
    """R0: remove comments (incl. doc comments) and outer attributes `#[...]`; keep line structure."""
    m = mask(text)
    out = []
    i, n = 0, len(text)
    while i < n:
        if text.startswith('//', i) and m[i] == ' ':
            j = text.find('\n', i)
            j = n if j < 0 else j
            i = j
        elif text.startswith('/*', i) and m[i] == ' ':
            # masked => it is a comment; skip to where mask stops being blank run ending in */
            depth, j = 1, i + 2
            while j < n and depth:
                if text.startswith('/*', j): depth += 1; j += 2
                elif text.startswith('*/', j): depth -= 1; j += 2
                else: j += 1
            out.append('\n' * text.count('\n', i, j))
            i = j
        elif m[i] == '#' and re.match(r'#!?\[', m[i:]):
            o = m.find('[', i)
            c = match_brace(m, o, '[', ']')
            i = c + 1
        else:
            out.append(text[i])
            i += 1
    res = ''.join(out)
    # drop lines that became empty
    return '\n'.join(l.rstrip() for l in res.split('\n') if l.strip() != '')


def loops(masked_body):
    """Positions (keyword index, body-open-brace index) of for/while/loop statements in textual order."""
    res = []
    for m in re.finditer(r'\b(for|while|loop)\b', masked_body):
        # `for` in `impl Trait for` / HRTB does not occur inside fn bodies we support
        k, pd = m.end(), 0
        while k < len(masked_body):
            ch = masked_body[k]
            if ch in '([': pd += 1
            elif ch in ')]': pd -= 1
            elif ch == '{' and pd == 0: break
            k += 1
        if k >= len(masked_body):
            raise ExtractError('loop without body')
        res.append((m.start(), k))
    return res
