"""Mechanical extraction of real purl functions into single-file Verus inputs.

A *group* (contracts/groups/<name>.py, variable GROUP) lists theory fragments and units. A unit names one
item of /repo (fn / struct / enum), the rewrites that bring it into Verus's subset (rule ids R0..R10 of
DESIGN.md), and the contract / loop clauses / proof hints spliced around the real body.

Every rewrite is a (rule, regex, replacement, count) tuple applied to the text taken from /repo on this run;
a rewrite that does not match exactly `count` times means the anchor was lost => ExtractError => undecided.
Nothing else is changed.  The generated text and a log of every change are written next to the evidence.
"""
import hashlib
import importlib.util
import json
import os
import re
import difflib

from . import rsparse
from .rsparse import ExtractError

VERIF = os.path.dirname(os.path.dirname(os.path.abspath(__file__)))
REPO = os.environ.get('PURL_REPO', '/repo')


def load_group(name):
    path = os.path.join(VERIF, 'contracts', 'groups', name + '.py')
    spec = importlib.util.spec_from_file_location('group_' + name, path)
    mod = importlib.util.module_from_spec(spec)
    spec.loader.exec_module(mod)
    return mod.GROUP


def _read(rel):
    with open(os.path.join(REPO, rel), encoding='utf-8') as f:
        return f.read()


def _desugar_all_any(text, log, unit_id):
    """R5: `<x>.chars().all(|c| P)`  =>  block with an explicit loop; P copied verbatim.
           `<x>.chars().any(|c| P)`  =>  likewise. The definition of Iterator::all / any."""
    rx = re.compile(r'([A-Za-z_]\w*)\s*\.chars\(\)\s*\.(all|any)\(\s*\|(\w+)\|\s*')
    n = 0
    while True:
        masked = rsparse.mask(text)
        m = rx.search(masked)
        if not m:
            break
        recv, kind, var = m.group(1), m.group(2), m.group(3)
        open_paren = masked.index('(', m.start() + len(recv) + 1 + len('chars()') )  # the '(' of .all(
        open_paren = masked.index('(', masked.index('.' + kind, m.start()))
        close = rsparse.match_brace(masked, open_paren, '(', ')')
        pred = text[m.end():close].strip()
        flag = 'all_ok%d' % n if kind == 'all' else 'any_hit%d' % n
        if kind == 'all':
            block = ('({ let mut %s = true; for %s in it: %s.chars() { if !(%s) { %s = false; break; } } %s })'
                     % (flag, var, recv, pred, flag, flag))
        else:
            block = ('({ let mut %s = false; for %s in it: %s.chars() { if %s { %s = true; break; } } %s })'
                     % (flag, var, recv, pred, flag, flag))
        log.append(dict(unit=unit_id, rule='R5', where='body', pattern='.chars().%s(|%s| P)' % (kind, var),
                        replacement='explicit loop with flag %s' % flag, matches=[text[m.start():close + 1]]))
        text = text[:m.start()] + block + text[close + 1:]
        n += 1
    if n == 0:
        raise ExtractError('%s: R5 found no .chars().all/any(closure) to desugar' % unit_id)
    return text


def _eliminate_continue(text, log, unit_id):
    """R7: `if C { continue; } REST-OF-LOOP-BODY`  =>  `if !(C) { REST-OF-LOOP-BODY }`  (Verus `for` has no `continue`).
    Only the form where the `if` is a statement directly in a loop body is handled."""
    n = 0
    while True:
        masked = rsparse.mask(text)
        m = re.search(r'if\s+([^{};]+?)\s*\{\s*continue;\s*\}', masked)
        if not m:
            break
        # enclosing block: scan backwards for the unmatched '{'
        depth, k = 0, m.start() - 1
        while k >= 0:
            if masked[k] == '}':
                depth += 1
            elif masked[k] == '{':
                if depth == 0:
                    break
                depth -= 1
            k -= 1
        if k < 0:
            raise ExtractError('%s: R7 cannot find the loop body of a continue' % unit_id)
        close = rsparse.match_brace(masked, k)
        cond = text[m.start(1):m.end(1)]
        rest = text[m.end():close]
        new = 'if !(%s) {%s}\n' % (cond, rest)
        log.append(dict(unit=unit_id, rule='R7', where='body', pattern='if C { continue; } rest', replacement='if !(C) { rest }',
                        matches=[text[m.start():m.end()]]))
        text = text[:m.start()] + new + text[close:]
        n += 1
    if n == 0:
        raise ExtractError('%s: R7 found no `if C { continue; }`' % unit_id)
    return text


def _split_args(text):
    """split a macro argument list at top-level commas"""
    masked = rsparse.mask(text)
    args, depth, start = [], 0, 0
    for i, ch in enumerate(masked):
        if ch in '([{':
            depth += 1
        elif ch in ')]}':
            depth -= 1
        elif ch == ',' and depth == 0:
            args.append(text[start:i].strip())
            start = i + 1
    last = text[start:].strip()
    if last:
        args.append(last)
    return args


def _desugar_write(text, log, unit_id):
    """R4: `write!(w, "<literal with {} only>", args...)?`  =>  the writes in source order, each with `?`:
    literal pieces via x_write_str, `{}` arguments via x_write_<kind>. format_args! semantics for `{}`-only formats."""
    n = 0
    while True:
        masked = rsparse.mask(text)
        m = re.search(r'\bwrite!\s*\(', masked)
        if not m:
            break
        o = m.end() - 1
        c = rsparse.match_brace(masked, o, '(', ')')
        if not masked[c + 1:].lstrip().startswith('?'):
            raise ExtractError('%s: R4 expects `write!(..)?`' % unit_id)
        q = masked.index('?', c)
        args = _split_args(text[o + 1:c])
        w, fmt, rest = args[0], args[1], args[2:]
        if not (fmt.startswith('"') and fmt.endswith('"')):
            raise ExtractError('%s: R4 needs a literal format string' % unit_id)
        pieces = fmt[1:-1].split('{}')
        if re.search(r'\{[^}]', fmt[1:-1].replace('{}', '')) or len(pieces) != len(rest) + 1:
            raise ExtractError('%s: R4 supports `{}` placeholders only' % unit_id)
        calls = []
        for i, piece in enumerate(pieces):
            if piece:
                calls.append('x_write_str(%s, "%s")?;' % (w, piece))
            if i < len(rest):
                a = rest[i]
                me = re.match(r'utf8_percent_encode\((.*),\s*(\w+)\)$', a, re.S)
                if me:
                    calls.append('x_write_encoded(%s, %s, %s)?;' % (w, me.group(1).strip(), me.group(2)))
                else:
                    calls.append('x_write_display(%s, &%s)?;' % (w, a))
        new = '{ ' + ' '.join(calls) + ' }'
        log.append(dict(unit=unit_id, rule='R4', where='body', pattern='write!(w, "fmt", args)?', replacement='writes in source order',
                        matches=[text[m.start():q + 1]]))
        text = text[:m.start()] + new + text[q + 1:]
        n += 1
    if n == 0:
        raise ExtractError('%s: R4 found no write!(..)?' % unit_id)
    return text


def _desugar_for_next(text, header_re, log, unit_id):
    """R5: `for PAT in EXPR { BODY }`  =>  `{ let mut iter_ = (EXPR).into_iter(); loop { match iter_.next() { Some(PAT) => { BODY }, None => break, } } }`
    -- the definition of `for`; used where the iterator is purl's own type, so that its `next` is a verified callee."""
    m = re.search(header_re, text, re.S)
    if not m:
        raise ExtractError('%s: R5 for-loop header /%s/ not found' % (unit_id, header_re))
    hm = re.match(r'for\s+(.*?)\s+in\s+(.*)$', m.group(0), re.S)
    pat, expr = hm.group(1), hm.group(2).strip()
    masked = rsparse.mask(text)
    o = masked.index('{', m.end())
    c = rsparse.match_brace(masked, o)
    body = text[o:c + 1]
    new = ('{ let mut iter_ = (%s).into_iter();\n loop {\n match iter_.next() { Some(%s) => %s, None => break, }\n } }'
           % (expr, pat, body))
    log.append(dict(unit=unit_id, rule='R5', where='body', pattern='for PAT in EXPR { BODY }',
                    replacement='explicit loop over into_iter() / next()', matches=[m.group(0)]))
    return text[:m.start()] + new + text[c + 1:]


def _apply_rewrites(text, rewrites, log, unit_id, where):
    for rw in rewrites:
        rule, pat, repl = rw[0], rw[1], rw[2]
        if pat == '@for_next':
            text = _desugar_for_next(text, repl, log, unit_id)
            continue
        if pat == '@write':
            text = _desugar_write(text, log, unit_id)
            continue
        if pat == '@continue':
            text = _eliminate_continue(text, log, unit_id)
            continue
        if pat == '@all_any':
            text = _desugar_all_any(text, log, unit_id)
            continue
        count = rw[3] if len(rw) > 3 else 1
        rx = re.compile(pat, re.S)
        found = rx.findall(text)
        n = len(found)
        if count == '*':
            pass
        elif count == '+':
            if n == 0:
                raise ExtractError('%s: rewrite %s /%s/ expected >=1 match in %s, found 0' % (unit_id, rule, pat, where))
        elif n != count:
            raise ExtractError('%s: rewrite %s /%s/ expected %s match(es) in %s, found %d'
                               % (unit_id, rule, pat, count, where, n))
        if n:
            before = [m.group(0) for m in rx.finditer(text)]
            text = rx.sub(repl, text)
            log.append(dict(unit=unit_id, rule=rule, where=where, pattern=pat, replacement=repl, matches=before))
    return text


def _splice_loops(body, loop_specs, unit_id):
    if not loop_specs:
        return body
    masked = rsparse.mask(body)
    found = rsparse.loops(masked)
    want = sorted(loop_specs)
    if want and max(want) >= len(found):
        raise ExtractError('%s: loop ordinal %d not found (body has %d loops)' % (unit_id, max(want), len(found)))
    if loop_specs.get('count') is not None:
        pass
    # insert from the last to the first so indices stay valid
    for ordinal in sorted([k for k in loop_specs if isinstance(k, int)], reverse=True):
        _, brace = found[ordinal]
        clause = '\n' + loop_specs[ordinal].rstrip() + '\n'
        body = body[:brace] + clause + body[brace:]
    return body


def _splice_hints(body, hints, unit_id):
    for h in hints or []:
        anchor, pos, text = h[0], h[1], h[2]
        nth = h[3] if len(h) > 3 else None
        ms = list(re.finditer(anchor, body, re.S))
        if nth is None:
            if len(ms) == 0:
                raise ExtractError('%s: hint anchor /%s/ not found' % (unit_id, anchor))
            m = ms[0]      # several matches: the first one (ghost text only; a misplaced hint cannot make a proof pass wrongly)
        else:
            if len(ms) <= nth:
                raise ExtractError('%s: hint anchor /%s/ occurrence %d not found' % (unit_id, anchor, nth))
            m = ms[nth]
        at = m.start() if pos == 'before' else m.end()
        body = body[:at] + '\n' + text.strip('\n') + '\n' + body[at:]
    return body


def _name_return(sig, ret):
    """`-> T` => `-> (ret: T)` (Verus needs a name to state the postcondition)."""
    if ret is None:
        return sig
    masked = rsparse.mask(sig)
    # find the top-level `->` that follows the parameter list
    k = masked.find('(')
    c = rsparse.match_brace(masked, k, '(', ')')
    m = re.compile(r'->\s*').search(masked, c)
    if not m:
        return sig
    w = re.compile(r'\bwhere\b').search(masked, m.end())
    end = w.start() if w else len(sig)
    ty = sig[m.end():end].strip()
    rest = sig[end:]
    return sig[:m.start()] + '-> (%s: %s)' % (ret, ty) + ('\n' + rest if rest else '')


def build_unit(unit, log):
    uid = unit['id']
    kind = unit.get('kind', 'fn')
    if kind == 'raw':
        return unit['text'], dict(id=uid, file='(contracts)', kind='raw', line=0, end_line=0, properties=[])
    src = _read(unit['file'])
    meta = dict(id=uid, file=unit['file'], kind=kind, properties=unit.get('properties', []))
    if kind == 'block':
        a, o, c = rsparse.find_block(src, unit['header'])
        raw = src[a:c + 1]
        text = rsparse.strip_comments_attrs(raw)
        meta.update(line=rsparse.line_of(src, a), end_line=rsparse.line_of(src, c),
                    sha256=hashlib.sha256(raw.encode()).hexdigest())
        text = _apply_rewrites(text, unit.get('rw', []), log, uid, 'item')
        if unit.get('properties'):
            meta['mode'] = 'body'                   # a verified impl block (every member), not a declaration
            meta['fns'] = unit.get('fns', [])       # exec fns the solver must have been asked about (vacuity guard)
        return text, meta
    if kind in ('struct', 'enum', 'trait'):
        it = rsparse.find_item(src, kind, unit['name'])
        text = rsparse.strip_comments_attrs(it['text'])
        meta.update(line=it['line'], end_line=it['end_line'],
                    sha256=hashlib.sha256(it['text'].encode()).hexdigest())
        text = _apply_rewrites(text, unit.get('rw', []), log, uid, 'item')
        text = re.sub(r'^(?!pub\b)', 'pub ', text, count=1)
        text = re.sub(r'^pub\([a-z]+\)', 'pub', text)
        if kind == 'struct':
            # R0: field visibility widened to pub (specifications mention the fields)
            mm = re.match(r'(pub struct [^({]*)\((.*)\);\s*$', text, re.S)
            if mm:
                fields, depth, cur = [], 0, ''
                for ch in mm.group(2):
                    if ch in '(<[':
                        depth += 1
                    elif ch in ')>]':
                        depth -= 1
                    if ch == ',' and depth == 0:
                        fields.append(cur.strip()); cur = ''
                    else:
                        cur += ch
                if cur.strip():
                    fields.append(cur.strip())
                text = mm.group(1) + '(' + ', '.join(f if f.startswith('pub') else 'pub ' + f for f in fields) + ');'
            else:
                text = re.sub(r'(?m)^(\s*)(?!pub\b)(\w+\s*:)', r'\1pub \2', text)
        pre = unit.get('attrs', '')
        return (pre + '\n' if pre else '') + text, meta

    f = rsparse.find_fn(src, unit['fn'], unit.get('ctx'), unit.get('nth', 0))
    orig = f['sig'] + ' ' + f['body']
    meta.update(line=f['line'], end_line=f['end_line'], sha256=hashlib.sha256(orig.encode()).hexdigest(), fn=unit['fn'])
    sig = rsparse.strip_comments_attrs(f['sig'])
    sig = re.sub(r'\s+', ' ', sig).strip()
    sig = _apply_rewrites(sig, unit.get('sig_rw', []), log, uid, 'signature')
    sig = re.sub(r'^pub\([a-z]+\)', 'pub', sig)
    if unit.get('vis') == '':
        sig = re.sub(r'^pub\s+', '', sig)   # trait impl methods carry no visibility
    elif not re.match(r'pub\b', sig):
        sig = 'pub ' + sig          # R0: visibility widened
    mfn = re.search(r'\bfn\s+(\w+)', sig)
    if mfn:
        meta['src_fn'] = unit['fn']
        meta['fn'] = mfn.group(1)      # the emitted name (R2 hoisting may rename)
    sig = _name_return(sig, unit.get('ret', 'r'))
    contract = unit.get('contract', '').strip('\n')

    if unit.get('mode') == 'assumed':
        text = '#[verifier::external_body]\n' + sig + '\n' + contract + '\n{ unimplemented!() }'
        meta['mode'] = 'assumed'
        return text, meta
    if unit.get('mode') == 'contract_only':
        sig = re.sub(r'\(\s*mut self\b', '(self', sig, count=1)
        # callee proved in another group: only its contract is visible here (modular verification)
        body = '{ unimplemented!() }'
        text = '#[verifier::external_body]\n' + sig + '\n' + contract + '\n' + body
        meta['mode'] = 'contract_only'
        return text, meta

    body = rsparse.strip_comments_attrs(f['body'])
    # R6: hoist fn-local items
    hoisted = []
    for h in unit.get('hoist', []):
        rule, pat, repl = h[0], h[1], h[2]
        inline = h[3] if len(h) > 3 else ''
        m = re.search(pat, body, re.S)
        if not m:
            raise ExtractError('%s: hoist anchor /%s/ not found' % (uid, pat))
        hoisted.append(m.expand(repl))
        log.append(dict(unit=uid, rule=rule, where='body', pattern=pat, replacement=repl, matches=[m.group(0)]))
        body = body[:m.start()] + (m.expand(inline) if inline else '') + body[m.end():]
    body = _apply_rewrites(body, unit.get('rw', []), log, uid, 'body')
    if re.search(r'\{\s*continue;\s*\}', rsparse.mask(body)) and not any(r[1] == '@continue' for r in unit.get('rw', [])):
        body = _eliminate_continue(body, log, uid)     # R7 applies wherever the form occurs
    body = _splice_loops(body, unit.get('loops', {}), uid)
    body = _splice_hints(body, unit.get('hints', []), uid)
    if unit.get('begin'):
        body = '{\n' + unit['begin'].strip('\n') + '\n' + body[1:]
    # R1: `mut self`
    if re.search(r'\(\s*mut self\b', sig):
        sig = re.sub(r'\(\s*mut self\b', '(self', sig, count=1)
        body = '{\n    let mut this = self;' + re.sub(r'\bself\b', 'this', body[1:])
        log.append(dict(unit=uid, rule='R1', where='signature+body', pattern='mut self', replacement='let mut this = self', matches=['mut self']))
    attrs = unit.get('attrs', '')
    hoist_out = ''
    if unit.get('wrap') and hoisted:
        hoist_out = '\n'.join(hoisted)
        hoisted = []
    meta['hoist_out'] = hoist_out
    text = '\n'.join(x for x in [unit.get('pre_text', ''), '\n'.join(hoisted), attrs, sig, contract, body] if x)
    meta['mode'] = 'body'
    return text, meta


def build_group(name, outdir, stub=()):
    """`stub`: ids of fn units whose body cannot be brought before the verifier on this tree (lost anchor, unsupported construct):
    they are emitted with their contract only, so that the REST of the group is still verified against the real bodies."""
    g = load_group(name)
    if stub:
        g = dict(g)
        g['units'] = [dict(u, mode='contract_only', proved_in='(not verified on this tree)', stubbed=True)
                      if (u['id'] in stub and u.get('kind', 'fn') == 'fn' and u.get('mode') is None) else u for u in g['units']]
    log = []
    parts = ['// GENERATED on every run by vlib/extract.py from %s -- do not edit' % REPO,
             '#![allow(unused_imports, unused_variables, unused_mut, dead_code, unused_parens, unused_braces, non_snake_case)]',
             '#![feature(allocator_api)]',
             'use vstd::prelude::*;', g.get('uses', ''), 'verus! {', '']
    for t in g.get('theory', []):
        with open(os.path.join(VERIF, 'contracts', 'theory', t)) as f:
            parts.append('// ---- theory: %s ----' % t)
            parts.append(f.read())
    if g.get('pre'):
        parts.append('// ---- group specifications ----')
        parts.append(g['pre'])
    metas = []
    cur_wrap = None
    for u in g['units']:
        try:
            text, meta = build_unit(u, log)
        except ExtractError as e:
            e.unit_id = u['id']
            e.stubbable = u.get('kind', 'fn') == 'fn' and u.get('mode') is None
            raise
        if u.get('stubbed'):
            meta['stubbed'] = True
        wrap = u.get('wrap')
        if meta.get('hoist_out'):
            if cur_wrap is not None:
                parts.append('}')
                cur_wrap = None
            parts.append(meta['hoist_out'])
        if wrap != cur_wrap:
            if cur_wrap is not None:
                parts.append('}')
            if wrap is not None:
                parts.append(wrap + ' {')
            cur_wrap = wrap
        start = sum(p.count('\n') + 1 for p in parts) + 1
        parts.append('// ---- unit %s  <= %s:%d ----' % (meta['id'], meta['file'], meta['line']))
        parts.append(text)
        end = sum(p.count('\n') + 1 for p in parts)
        meta['gen_lines'] = [start, end]
        metas.append(meta)
    if cur_wrap is not None:
        parts.append('}')
    if g.get('post'):
        parts.append('// ---- property lemmas ----')
        parts.append(g['post'])
    parts.append('} // verus!')
    parts.append('fn main() {}')
    text = '\n'.join(parts) + '\n'
    os.makedirs(outdir, exist_ok=True)
    path = os.path.join(outdir, name + '.rs')
    with open(path, 'w') as f:
        f.write(text)
    with open(os.path.join(outdir, name + '.extract.json'), 'w') as f:
        json.dump(dict(group=name, units=metas, rewrites=log), f, indent=1)
    return path, metas, log, g


def map_line(meta_list, gen_line, gen_text, repo=REPO):
    """Map a line of the generated file to (unit id, /repo file, approximate line)."""
    for m in meta_list:
        a, b = m['gen_lines']
        if a <= gen_line <= b:
            if m.get('mode') == 'contract_only':
                return m['id'], m['file'], m['line']
            # approximate: align by similarity between generated unit lines and source lines
            try:
                src = _read(m['file']).split('\n')[m['line'] - 1:m['end_line']]
            except OSError:
                return m['id'], m['file'], m['line']
            gen = gen_text.split('\n')[a - 1:b]
            tgt = gen[gen_line - a].strip()
            best, best_i = 0.0, 0
            for i, s in enumerate(src):
                r = difflib.SequenceMatcher(None, s.strip(), tgt).ratio()
                if r > best:
                    best, best_i = r, i
            return m['id'], m['file'], m['line'] + best_i
    return None, None, None


def unit_shapes(log):
    """the *shape* of each extracted unit: how many times each class of rewrite (R1 .. R11, the desugarings) applied to it.
    An in-place edit (another constant, comparison, std call of the same class) keeps it; a restructured body changes it."""
    shapes = {}
    for e in log:
        u = e.get('unit')
        if not u or e.get('rule') == 'R12':
            continue        # R12 (macro metavariable -> its argument) is a substitution, not a change of shape
        n = len(e.get('matches') or [1])
        d = shapes.setdefault(u, {})
        d[e.get('rule', '?')] = d.get(e.get('rule', '?'), 0) + n
    return shapes

