//! S: component tuples x spellings (C02), single-fault injection (C05), segment spellings (C07).

use serde_json::json;

use crate::checks::*;
use crate::common::*;
use crate::refimpl::{self, RefPurl};

#[derive(Clone, Debug)]
pub struct Tuple {
    pub ty: &'static str,
    pub ns: Vec<&'static str>,
    pub name: &'static str,
    pub version: &'static str,
    pub quals: Vec<(&'static str, &'static str)>,
    pub sub: Vec<&'static str>,
}

#[derive(Clone, Copy, Debug, Default)]
pub struct Sp {
    pub type_upper: bool,
    pub key_upper: bool,
    pub enc: u8,          // 0 raw where legal, 1 %XX everything, 2 %xx everything
    pub slashes: u8,      // 0 none, 1 "pkg:/", 2 "pkg:///" + doubled separators
    pub dots: bool,       // raw '.' and '..' subpath segments interleaved
    pub rev_quals: bool,
    pub empty_quals: bool,
    pub raw_at: bool,     // leave '@' '?' '#' unescaped in the name where a later separator exists
}

fn pct(s: &str, lower: bool) -> String {
    s.bytes().map(|b| if lower { format!("%{:02x}", b) } else { format!("%{:02X}", b) }).collect()
}

fn comp(s: &str, sp: &Sp, c: refimpl::Comp) -> String {
    match sp.enc {
        0 => refimpl::enc(c, s),
        1 => pct(s, false),
        _ => pct(s, true),
    }
}

pub fn spell(t: &Tuple, sp: &Sp) -> String {
    let mut s = String::from("pkg:");
    s.push_str(match sp.slashes { 0 => "", 1 => "/", _ => "///" });
    if sp.type_upper { s.push_str(&t.ty.to_ascii_uppercase()) } else { s.push_str(t.ty) }
    s.push('/');
    let sep = if sp.slashes == 2 { "//" } else { "/" };
    if sp.slashes == 2 && !t.ns.is_empty() {
        s.push('/');
    }
    for seg in &t.ns {
        s.push_str(&comp(seg, sp, refimpl::Comp::Name)); // a namespace segment is escaped like a name (no raw '/')
        s.push_str(sep);
    }
    let has_version = !t.version.is_empty();
    let has_quals = !t.quals.is_empty();
    let has_sub = !t.sub.is_empty();
    let mut name = comp(t.name, sp, refimpl::Comp::Name);
    if sp.raw_at && sp.enc == 0 {
        // an unescaped separator character left of the designated separator is read as data
        if has_version { name = name.replace("%40", "@"); }
        if has_quals { name = name.replace("%3F", "?"); }
        if has_sub { name = name.replace("%23", "#"); }
    }
    s.push_str(&name);
    if has_version {
        s.push('@');
        s.push_str(&comp(t.version, sp, refimpl::Comp::Version));
    }
    if has_quals {
        let mut qs: Vec<String> = t
            .quals
            .iter()
            .map(|(k, v)| format!("{}={}", if sp.key_upper { k.to_ascii_uppercase() } else { (*k).to_string() }, comp(v, sp, refimpl::Comp::Qualifier)))
            .collect();
        if sp.rev_quals { qs.reverse(); }
        if sp.empty_quals {
            qs.insert(0, "zz9=".into());
            qs.push("Aa0=".into());
            // ... and one that carries, in the other letter case, the key of the first written qualifier, before it: an empty value
            // is no value, the key is still free
            if let Some((k0, _)) = t.quals.first() {
                let first_written = if sp.rev_quals { t.quals.last().unwrap().0 } else { k0 };
                let other = if first_written.chars().any(|c| c.is_ascii_uppercase()) { first_written.to_ascii_lowercase() } else { first_written.to_ascii_uppercase() };
                qs.insert(0, format!("{other}="));
            }
        }
        s.push('?');
        s.push_str(&qs.join("&"));
    }
    if has_sub {
        s.push('#');
        let mut parts: Vec<String> = vec![];
        if sp.slashes == 2 { parts.push(String::new()); }
        for seg in &t.sub {
            if sp.dots { parts.push(".".into()); parts.push("..".into()); }
            parts.push(comp(seg, sp, refimpl::Comp::Name));
            if sp.slashes == 2 { parts.push(String::new()); }
        }
        if sp.dots { parts.push("..".into()); }
        s.push_str(&parts.join("/"));
    }
    s
}

pub fn expected(t: &Tuple, typed: bool) -> RefPurl {
    let ty = t.ty.to_ascii_lowercase();
    let mut name = t.name.to_string();
    if typed {
        match ty.as_str() { "nuget" => name = refimpl::lower(&name), "pypi" => name = refimpl::pypi_norm(&name), _ => {} }
    }
    let mut quals: std::collections::BTreeMap<String, String> = t.quals.iter().map(|(k, v)| (k.to_ascii_lowercase(), v.to_string())).collect();
    if let Some(c) = quals.get("checksum").cloned() {
        quals.insert("checksum".into(), refimpl::checksum_canon(&c).expect("tuple checksum must be well-formed"));
    }
    RefPurl {
        ty,
        namespace: if t.ns.is_empty() { None } else { Some(t.ns.join("/")) },
        name,
        version: if t.version.is_empty() { None } else { Some(t.version.to_string()) },
        qualifiers: quals,
        subpath: if t.sub.is_empty() { None } else { Some(t.sub.join("/")) },
    }
}

pub fn tuples(thorough: bool) -> Vec<Tuple> {
    let types = ["t", "T.x+Y-1", "npm", "maven", "PyPI", "nuget"];
    // LOOK: characters whose LOW BYTE is a separator or an escape-relevant byte ('/' '#' '?' '@' '%' '&' '=' ':' ',' '+' '.' '-'):
    // code that truncates a char to a byte takes them for those
    let nss: Vec<Vec<&'static str>> = vec![vec![], vec!["a"], vec!["A b", "é"], vec!["@s?c#p", "%41", "x:y"], vec![".", "..", "a+b"], vec!["Яndex", "日本", "ЯģĿŀĥĦĽĺĬīĮĭ"]];
    let names = ["n", "N_a.-b", "a@b?c#d", "é ǅ%", "%2F&=+", "100%", "ЯģĿŀĥĦĽĺĬīĮĭ"];
    let versions = ["", "1.0", "1@2", "v+1 é", "%40", "ŀЯ1"];
    let quals: Vec<Vec<(&'static str, &'static str)>> = vec![
        vec![],
        vec![("k", "v")],
        vec![("b.c-d_e", "x&y=z+w"), ("a", "é %?#@")],
        vec![("checksum", "SHA1:AB,md5:00ff"), ("z", "1")],
        vec![("K9", "/a/b")],
        // algorithm names one of which is a prefix of the other, followed by a character below ':' -- written in both orders
        vec![("checksum", "sha3-256:11,SHA3:00")],
        vec![("checksum", "sha3-256:11,sha3:00"), ("b", "2")],
        vec![("CheckSum", "sha3:00,Sha3-256:11"), ("a", "1")],
        vec![("a_b", "1"), ("ab", "2"), ("a.b", "3"), ("a-b", "4"), ("a1", "5"), ("A2", "6"), ("a", "7")],
        vec![("q", "ĦĽЯģĿ"), ("r", "日本")],
    ];
    let subs: Vec<Vec<&'static str>> = vec![vec![], vec!["s"], vec!["a b", "é#?", "c.d"], vec!["...", ".a", "%2e"], vec!["Яģ", "Įĭ"]];
    let mut out = vec![];
    for (i, ty) in types.iter().enumerate() {
        for (j, ns) in nss.iter().enumerate() {
            for (k, name) in names.iter().enumerate() {
                for (l, version) in versions.iter().enumerate() {
                    for (m, q) in quals.iter().enumerate() {
                        for (n, sub) in subs.iter().enumerate() {
                            // quick: a covering subset (every pair of slots varies together at least once); thorough: full product
                            if !thorough && (i + j + k + l + m + n) % 5 != 0 && !(j == 0 && l == 0 && m == 0 && n == 0) {
                                continue;
                            }
                            out.push(Tuple { ty, ns: ns.clone(), name, version, quals: q.clone(), sub: sub.clone() });
                        }
                    }
                }
            }
        }
    }
    out
}

pub fn spellings(thorough: bool) -> Vec<Sp> {
    let mut v = vec![Sp::default()];
    let singles = [
        Sp { type_upper: true, ..Sp::default() },
        Sp { key_upper: true, ..Sp::default() },
        Sp { enc: 1, ..Sp::default() },
        Sp { enc: 2, ..Sp::default() },
        Sp { slashes: 1, ..Sp::default() },
        Sp { slashes: 2, ..Sp::default() },
        Sp { dots: true, ..Sp::default() },
        Sp { rev_quals: true, ..Sp::default() },
        Sp { empty_quals: true, ..Sp::default() },
        Sp { raw_at: true, ..Sp::default() },
    ];
    v.extend(singles);
    if thorough {
        for tu in [false, true] { for ku in [false, true] { for enc in 0..3u8 { for sl in 0..3u8 { for d in [false, true] {
            for r in [false, true] { for e in [false, true] { for a in [false, true] {
                v.push(Sp { type_upper: tu, key_upper: ku, enc, slashes: sl, dots: d, rev_quals: r, empty_quals: e, raw_at: a });
            } } }
        } } } } }
    } else {
        v.push(Sp { type_upper: true, key_upper: true, enc: 2, slashes: 2, dots: true, rev_quals: true, empty_quals: true, raw_at: false });
        v.push(Sp { type_upper: true, key_upper: true, enc: 0, slashes: 2, dots: true, rev_quals: true, empty_quals: true, raw_at: true });
    }
    v
}

fn typed_ok(t: &Tuple) -> bool {
    let ty = t.ty.to_ascii_lowercase();
    refimpl::KNOWN_TYPES.contains(&ty.as_str()) && !(ty == "maven" && t.ns.is_empty())
}

/// C02: every spelling of every tuple parses to exactly the tuple; any two spellings give equal PURLs and strings
pub fn suite_spell(ctx: &Ctx, thorough: bool, props: &str) {
    let ts = tuples(thorough);
    let sps = spellings(thorough);
    par_for(ts.len(), &|i| {
        let t = &ts[i];
        let mut canon: Option<String> = None;
        for sp in &sps {
            let s = spell(t, sp);
            ctx.eval();
            let inp = || json!({"string": s, "tuple": format!("{t:?}"), "spelling": format!("{sp:?}")});
            match parse_string(&s) {
                Err(m) => ctx.violate("C06.panic", "parsing never panics", inp(), m, "no panic".into()),
                Ok(Err(k)) => ctx.violate("C02.spelling", "a permitted spelling is accepted", inp(), format!("Err({k:?})"), format!("{:?}", expected(t, false))),
                Ok(Ok(p)) => {
                    ctx.nontrivial();
                    let o = Obs::of(&p);
                    if !o.matches(&expected(t, false)) {
                        ctx.violate("C02.spelling", "parsing yields exactly the components", inp(), format!("{o:?}"), format!("{:?}", expected(t, false)));
                    }
                    // the keys that come out ARE the tuple's keys for a caller who compares them with text, in any letter case
                    if p.qualifiers().iter().any(|(k, _)| !(*k == *k.as_str()) || !(*k == k.as_str().to_ascii_uppercase().as_str()) || *k == format!("{}_", k.as_str()).as_str()) {
                        ctx.violate("C02.spelling", "parsing yields exactly the components", inp(), "a key that does not compare equal to its own text".into(), format!("{:?}", expected(t, false)));
                    }
                    let text = p.to_string();
                    match &canon {
                        None => canon = Some(text),
                        Some(c) => {
                            if *c != text {
                                ctx.violate("C02.spelling", "two spellings of the same components give identical canonical strings", inp(), text, c.clone());
                            }
                        },
                    }
                    if props.contains("C03") { check_format(ctx, &inp(), &o, &p.to_string()); }
                    check_roundtrip(ctx, &s, "String", &p, props);
                },
            }
            if typed_ok(t) {
                match parse_typed(&s) {
                    Err(m) => ctx.violate("C06.panic", "parsing never panics", inp(), m, "no panic".into()),
                    Ok(Err(k)) => ctx.violate("C02.spelling.typed", "a permitted spelling is accepted", inp(), format!("Err({k:?})"), format!("{:?}", expected(t, true))),
                    Ok(Ok(p)) => {
                        let o = Obs::of(&p);
                        if !o.matches(&expected(t, true)) {
                            ctx.violate("C02.spelling.typed", "parsing yields the components after the type's name rule", inp(), format!("{o:?}"), format!("{:?}", expected(t, true)));
                        }
                        check_roundtrip(ctx, &s, "PackageType", &p, props);
                    },
                }
            } else if refimpl::valid_type(t.ty) && !refimpl::KNOWN_TYPES.contains(&t.ty.to_ascii_lowercase().as_str()) {
                if let Ok(r) = parse_typed(&s) {
                    if r.as_ref().err() != Some(&ErrKind::UnsupportedType) {
                        ctx.violate("C05.unknown-type", "a well-formed unknown type is refused with UnsupportedType", inp(), format!("{:?}", r.map(|p| Obs::of(&p))), "Err(UnsupportedType)".into());
                    }
                }
            }
        }
        if i < 3 { ctx.sample(json!(spell(t, &sps[sps.len() - 1]))); }
    });
}

const BAD_UTF8: [&str; 10] = ["%80", "%C3", "%c3", "%C0%AF", "%c0%af", "%ED%A0%80", "%ed%a0%80", "%F4%90%80%80", "%E2%82", "%ff"];

/// C05: every single fault, every position, every spelling of the fault
pub fn suite_faults(ctx: &Ctx, thorough: bool) {
    let ts = tuples(thorough);
    let sps: Vec<Sp> = if thorough { spellings(false) } else { vec![Sp::default(), Sp { enc: 2, type_upper: true, key_upper: true, ..Sp::default() }] };
    par_for(ts.len(), &|i| {
        let t = &ts[i];
        for sp in &sps {
            let good = spell(t, sp);
            if !matches!(parse_string(&good), Ok(Ok(_))) {
                continue; // reported by the spelling suite
            }
            let mut cases: Vec<(String, ErrKind, &str)> = vec![];
            // scheme
            cases.push((good[4..].to_string(), ErrKind::Scheme, "prefix missing"));
            cases.push((format!("http:{}", &good[4..]), ErrKind::Scheme, "another scheme"));
            cases.push((format!("pkg{}", &good[4..]), ErrKind::Scheme, "colon missing"));
            cases.push((format!("x{}", good), ErrKind::Scheme, "character before pkg:"));
            cases.push((format!(" {}", good), ErrKind::Scheme, "space before pkg:"));
            // structure
            let after_type = good.find(&format!("{}/", if sp.type_upper { t.ty.to_ascii_uppercase() } else { t.ty.to_string() })).unwrap();
            let ty_len = t.ty.len();
            // the DESIGNATED separators (right-to-left): the last '#' if there is a subpath, the last '?' before it if there are qualifiers
            let has_sub = !t.sub.is_empty();
            let has_quals = !t.quals.is_empty();
            let hash = if has_sub { good.rfind('#') } else { None };
            let upto = hash.unwrap_or(good.len());
            let qmark = if has_quals { good[..upto].rfind('?') } else { None };
            let tail_from = qmark.or(hash).unwrap_or(good.len());
            // no type at all: keep qualifiers / subpath
            cases.push((format!("pkg:{}", &good[tail_from..]), ErrKind::MissingType, "no type"));
            // no name: type only
            cases.push((format!("{}{}", &good[..after_type + ty_len], &good[tail_from..]), ErrKind::MissingName, "type without '/'"));
            // invalid / encoded type
            for bad in ["t!", "t_x", "%74", "t%20", "é", "t t"] {
                cases.push((format!("{}{}{}", &good[..after_type], bad, &good[after_type + ty_len..]), ErrKind::InvalidType, "invalid type"));
            }
            // qualifier faults
            let add_q = |q: &str| -> String {
                if has_quals { format!("{}&{}{}", &good[..upto], q, &good[upto..]) } else { format!("{}?{}{}", &good[..upto], q, &good[upto..]) }
            };
            // a key repeated in the other letter case, for the first and the last letter of the alphabet and next to a digit
            for q in ["zip=1&Zip=2", "Zip=1&zip=2", "siZe=1&size=2", "Az=1&aZ=2", "z9=1&Z9=2", "a=1&A=2"] {
                cases.push((add_q(q), ErrKind::InvalidQualifier, "qualifier fault"));
            }
            for q in ["novalue", "=v", "k!=v", "%6B=v", "k%20=v", "é=v", "q1=a&Q1=b", "q1=a&q1=a"] {
                cases.push((add_q(q), ErrKind::InvalidQualifier, "qualifier fault"));
            }
            if !t.quals.iter().any(|(k, _)| k.eq_ignore_ascii_case("checksum")) {
                for c in ["checksum=sha1", "checksum=sha1:abc", "checksum=sha1:zz", "checksum=a:00,A:11", "CHECKSUM=a:00,,b:11", "checksum=%C7%85:00,%C7%86:11",
                          "checksum=%C3%86A:00,%C3%A6a:11", "checksum=A%C3%86:00,a%C3%A6:11", "checksum=x%C3%86Y:00,X%C3%A6y:11", "checksum=a:00,b:11,a:22", "checksum=a:0",
                          "checksum=md5:%2Ba%2BB", "checksum=md5:-1", "checksum=md5:0x", "checksum=md5:%2B1",
                          // fifteenth round: two odd-length digests (an even total), an odd one after / before an even one
                          "checksum=md5:abc,sha1:def", "checksum=a:0,b:1", "checksum=a:000,b:0", "checksum=a:00,b:1", "checksum=a:1,b:00", "checksum=a:0,b:1,c:22"] {
                    cases.push((add_q(c), ErrKind::InvalidQualifier, "malformed checksum"));
                }
            }
            // invalid UTF-8 escapes in every component that is present (and in an added one)
            for bad in BAD_UTF8 {
                cases.push((add_q(&format!("u={}", bad)), ErrKind::InvalidEscape, "invalid UTF-8 in qualifier value"));
                let name_end = after_type + ty_len + 1;
                // into the first path component after the type (namespace segment or name)
                cases.push((format!("{}{}{}", &good[..name_end], bad, &good[name_end..]), ErrKind::InvalidEscape, "invalid UTF-8 in path"));
                if let Some(h) = good.rfind('#') {
                    cases.push((format!("{}{}", good, bad), ErrKind::InvalidEscape, "invalid UTF-8 in subpath"));
                    let _ = h;
                } else {
                    cases.push((format!("{}#x{}", good, bad), ErrKind::InvalidEscape, "invalid UTF-8 in subpath"));
                }
                if !t.version.is_empty() {
                    let at = good[..tail_from].rfind('@').unwrap();
                    cases.push((format!("{}{}{}", &good[..at + 1], bad, &good[at + 1..]), ErrKind::InvalidEscape, "invalid UTF-8 in version"));
                }
            }
            // hidden '/' in namespace / subpath segments
            for sl in ["%2F", "%2f"] {
                if !t.ns.is_empty() {
                    let name_end = after_type + ty_len + 1;
                    cases.push((format!("{}x{}y{}", &good[..name_end], sl, &good[name_end..]), ErrKind::InvalidEscape, "escaped '/' in namespace segment"));
                }
                cases.push((if good.contains('#') { format!("{}/x{}y", good, sl) } else { format!("{}#x{}y", good, sl) }, ErrKind::InvalidEscape, "escaped '/' in subpath segment"));
            }
            // ... next to characters of several bytes (byte length and character count differ)
            for (pre, sl) in [("\u{65e5}", "%2F"), ("\u{20ac}\u{e9}", "%2f"), ("\u{10000}", "%2F")] {
                if !t.ns.is_empty() {
                    let name_end = after_type + ty_len + 1;
                    cases.push((format!("{}{}{}b{}", &good[..name_end], pre, sl, &good[name_end..]), ErrKind::InvalidEscape, "escaped '/' in namespace segment"));
                }
                cases.push((if good.contains('#') { format!("{}/{}{}b", good, pre, sl) } else { format!("{}#{}{}b", good, pre, sl) }, ErrKind::InvalidEscape, "escaped '/' in subpath segment"));
            }
            for dots in ["%2e", "%2E%2e", ".%2E"] {
                cases.push((if good.contains('#') { format!("{}/{}", good, dots) } else { format!("{}#{}", good, dots) }, ErrKind::InvalidEscape, "escaped dot segment in subpath"));
            }
            for (s, want, what) in cases {
                ctx.eval();
                let inp = || json!({"string": s, "fault": what, "from": good});
                match parse_string(&s) {
                    Err(m) => ctx.violate("C06.panic", "parsing never panics", inp(), m, "no panic".into()),
                    Ok(Ok(p)) => {
                        ctx.violate("C05.fault", "a string with this defect is never accepted", inp(), format!("{:?}", Obs::of(&p)), format!("Err({want:?})"));
                        // the same acceptance seen from C07: an escape that hides a '/' or a dot segment got through
                        if what.contains("segment") {
                            ctx.violate("C07.segments", "an escape can neither split nor join segments / climb upwards", inp(), format!("{:?}", Obs::of(&p)), format!("Err({want:?})"));
                        }
                    },
                    Ok(Err(k)) => {
                        ctx.nontrivial();
                        if k != want {
                            ctx.violate("C05.fault", "the error matches the only defect", inp(), format!("{k:?}"), format!("{want:?}"));
                        }
                    },
                }
                if typed_ok(t) {
                    match parse_typed(&s) {
                        Err(m) => ctx.violate("C06.panic", "parsing never panics", inp(), m, "no panic".into()),
                        Ok(Ok(p)) => ctx.violate("C05.fault.typed", "a string with this defect is never accepted", inp(), format!("{:?}", Obs::of(&p)), format!("Err({want:?})")),
                        Ok(Err(k)) => {
                            // an invalid type replaced into a typed spelling is still InvalidPackageType (checked before the lookup)
                            if k != want {
                                ctx.violate("C05.fault.typed", "the error matches the only defect (wrapped in PackageError::Parse)", inp(), format!("{k:?}"), format!("{want:?}"));
                            }
                        },
                    }
                }
            }
            // typed-only faults
            if t.ty.eq_ignore_ascii_case("maven") && !t.ns.is_empty() {
                let mut t2 = t.clone();
                t2.ns.clear();
                let s = spell(&t2, sp);
                ctx.eval();
                if let Ok(r) = parse_typed(&s) {
                    if r.as_ref().err() != Some(&ErrKind::MissingNamespace) {
                        ctx.violate("C05.maven", "maven without namespace is refused with MissingRequiredField(Namespace)", json!({"string": s}), format!("{:?}", r.map(|p| Obs::of(&p))), "Err(MissingNamespace)".into());
                    }
                }
            }
        }
    });
    ctx.sample(json!({"fault": "invalid UTF-8 in version", "string": "pkg:t/n@%C0%AF"}));
}

/// C07: all spellings of namespace / subpath from the listed pieces
pub fn suite_segments(ctx: &Ctx, thorough: bool) {
    let pieces = ["seg", "", ".", "..", "%2e", "%2E", ".%2e", "%2F", "%2f", "%5C", "a%20b", "é"];
    segments_over(ctx, &pieces, if thorough { 6 } else { 4 });
    // multi-byte pieces: a hidden '/' next to characters of two, three and four bytes (byte length != character count), and characters
    // whose low byte is '/' or '.' (Я U+042F, Į U+012E), raw and escaped
    let pieces2 = ["seg", "", "..", ".a", "...", "a.", "%20", "日%2Fb", "€%2f", "é%2F", "\u{10000}%2Fx", "%D0%AFx", "Я", "%C4%AE", "Į%2e", "日本"];
    segments_over(ctx, &pieces2, if thorough { 4 } else { 3 });
    ctx.sample(json!({"string": "pkg:t/seg//%2e/n", "component": "namespace"}));
}

fn segments_over(ctx: &Ctx, pieces: &[&str], n: usize) {
    let total = (0..=n).map(|k| pieces.len().pow(k as u32)).sum::<usize>();
    par_for(total, &|mut idx| {
        // decode idx into a piece list of length k
        let mut k = 0;
        let mut block = 1;
        while idx >= block { idx -= block; k += 1; block = pieces.len().pow(k as u32); }
        let mut list = vec![];
        for _ in 0..k { list.push(pieces[idx % pieces.len()]); idx /= pieces.len(); }
        let joined = list.join("/");
        // the typed PURL reports the same structure: an escaped '/' in the NAME stays in the name, whatever the ecosystem does with names
        if let Ok(Ok(g)) = parse_string(&format!("pkg:golang/{joined}/x%2F%2Fy@1")) {
            for ty in ["golang", "npm", "maven"] {
                ctx.eval();
                let st = format!("pkg:{ty}/{joined}/x%2F%2Fy@1");
                if let Ok(Ok(p)) = parse_typed(&st) {
                    if p.namespace() != g.namespace() || p.name() != "x//y" {
                        ctx.violate("C07.segments", "an escape can neither split nor join segments / climb upwards", json!({"string": st, "component": "namespace (typed)"}), format!("{:?} / {:?}", p.namespace(), p.name()), format!("{:?} / \"x//y\"", g.namespace()));
                    }
                }
            }
        }
        for (which, s) in [("subpath", format!("pkg:t/n#{joined}")), ("namespace", format!("pkg:t/{joined}/n"))] {
            ctx.eval();
            let is_sub = which == "subpath";
            // expectation from the statement: non-skipped pieces between raw '/', decoded; refuse hidden '/', encoded dot segments (subpath)
            let mut want: Option<Vec<String>> = Some(vec![]);
            for p in &list {
                if p.is_empty() || (is_sub && (*p == "." || *p == "..")) { continue; }
                match refimpl::decode(p) {
                    Some(d) if !d.contains('/') && !(is_sub && (d == "." || d == "..")) => { if let Some(w) = want.as_mut() { w.push(d) } },
                    _ => want = None,
                }
            }
            let inp = || json!({"string": s, "component": which});
            match parse_string(&s) {
                Err(m) => ctx.violate("C06.panic", "parsing never panics", inp(), m, "no panic".into()),
                Ok(r) => {
                    let got = r.as_ref().map(|p| if is_sub { p.subpath().map(str::to_owned) } else { p.namespace().map(str::to_owned) });
                    match (&want, &got) {
                        (None, Ok(g)) => ctx.violate("C07.segments", "an escape can neither split nor join segments / climb upwards", inp(), format!("accepted with {which} {g:?}"), "refused".into()),
                        (Some(w), Ok(g)) => {
                            ctx.nontrivial();
                            let w = if w.is_empty() { None } else { Some(w.join("/")) };
                            if *g != w {
                                ctx.violate("C07.segments", "segments are exactly the non-skipped pieces, decoded", inp(), format!("{g:?}"), format!("{w:?}"));
                            }
                            if let Ok(p) = &r {
                                check_segments(ctx, &s, &Obs::of(p));
                                // the same structure after a trip through the builder
                                if let Ok(Ok(p2)) = guarded(|| p.clone().into_builder().build()) {
                                    let g2 = if is_sub { p2.subpath().map(str::to_owned) } else { p2.namespace().map(str::to_owned) };
                                    if g2 != *g { ctx.violate("C07.segments", "segments are exactly the non-skipped pieces, decoded", json!({"string": s, "component": which, "after": "into_builder().build()"}), format!("{g2:?}"), format!("{g:?}")); }
                                }
                            }
                        },
                        (Some(w), Err(k)) => ctx.violate("C07.segments", "legal segment spelling is accepted", inp(), format!("Err({k:?})"), format!("{w:?}")),
                        (None, Err(k)) => { if **k != ErrKind::InvalidEscape { ctx.violate("C07.segments", "refused with InvalidEscape", inp(), format!("{k:?}"), "InvalidEscape".into()); } },
                    }
                },
            }
        }
    });
    ctx.sample(json!("pkg:t/n#seg/%2e/.."));
}
