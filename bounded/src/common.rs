//! Shared plumbing: observation of the real library's outcomes, violation collection, domains.

use std::collections::BTreeMap;
use std::panic::{catch_unwind, AssertUnwindSafe};
use std::str::FromStr;
use std::sync::atomic::{AtomicU64, Ordering};
use std::sync::Mutex;

use purl::{GenericPurl, PackageError, PackageType, ParseError, Purl, PurlField, PurlShape, SmallString};
use serde_json::{json, Value};

use crate::refimpl::{Fault, RefPurl};

/// in replay mode only violations on exactly this input are recorded
pub static REPLAY_INPUT: std::sync::OnceLock<Value> = std::sync::OnceLock::new();

pub struct Ctx {
    pub evaluations: AtomicU64,
    pub nontrivial: AtomicU64,
    pub violations: Mutex<Vec<Value>>,
    pub samples: Mutex<Vec<Value>>,
    pub nviol: AtomicU64,
}

impl Ctx {
    pub fn new() -> Self {
        Ctx {
            evaluations: AtomicU64::new(0),
            nontrivial: AtomicU64::new(0),
            violations: Mutex::new(vec![]),
            samples: Mutex::new(vec![]),
            nviol: AtomicU64::new(0),
        }
    }

    pub fn eval(&self) {
        self.evaluations.fetch_add(1, Ordering::Relaxed);
    }

    pub fn nontrivial(&self) {
        self.nontrivial.fetch_add(1, Ordering::Relaxed);
    }

    pub fn sample(&self, v: Value) {
        let mut s = self.samples.lock().unwrap();
        if s.len() < 6 {
            s.push(v);
        }
    }

    pub fn violate(&self, unit: &str, clause: &str, input: Value, observed: String, required: String) {
        if let Some(want) = REPLAY_INPUT.get() {
            if *want != input {
                return;
            }
        }
        self.nviol.fetch_add(1, Ordering::Relaxed);
        // keep the first three witnesses of EACH oracle (a check reports only the oracles of its own property, so an early flood of
        // findings of one oracle must not push the others out)
        let mut v = self.violations.lock().unwrap();
        let same = v.iter().filter(|x| x["unit"] == unit).count();
        if same < 3 && v.len() < 90 {
            v.push(json!({"unit": unit, "clause": clause, "input": input, "observed": observed, "required": required}));
        }
    }
}

/// What a PURL value reports through its public accessors.
#[derive(Debug, Clone, PartialEq, Eq, PartialOrd, Ord, Hash)]
pub struct Obs {
    pub ty: String,
    pub namespace: Option<String>,
    pub name: String,
    pub version: Option<String>,
    pub qualifiers: Vec<(String, String)>,
    pub subpath: Option<String>,
}

impl Obs {
    pub fn of<T: PurlShape>(p: &GenericPurl<T>) -> Obs {
        Obs {
            ty: p.package_type().package_type().into_owned(),
            namespace: p.namespace().map(str::to_owned),
            name: p.name().to_owned(),
            version: p.version().map(str::to_owned),
            qualifiers: p.qualifiers().iter().map(|(k, v)| (k.as_str().to_owned(), v.to_owned())).collect(),
            subpath: p.subpath().map(str::to_owned),
        }
    }

    pub fn matches(&self, r: &RefPurl) -> bool {
        self.ty == r.ty
            && self.namespace == r.namespace
            && self.name == r.name
            && self.version == r.version
            && self.subpath == r.subpath
            && self.qualifiers.iter().cloned().collect::<BTreeMap<_, _>>() == r.qualifiers
            && self.qualifiers.len() == r.qualifiers.len()
    }
}

#[derive(Debug, Clone, Copy, PartialEq, Eq, PartialOrd, Ord, Hash)]
pub enum ErrKind {
    Scheme,
    MissingType,
    InvalidType,
    MissingName,
    MissingOther,
    InvalidQualifier,
    InvalidEscape,
    UnsupportedType,
    MissingNamespace,
    Panic,
}

pub fn kind_of_parse(e: &ParseError) -> ErrKind {
    match e {
        ParseError::UnsupportedUrlScheme => ErrKind::Scheme,
        ParseError::MissingRequiredField(PurlField::PackageType) => ErrKind::MissingType,
        ParseError::MissingRequiredField(PurlField::Name) => ErrKind::MissingName,
        ParseError::MissingRequiredField(_) => ErrKind::MissingOther,
        ParseError::InvalidPackageType => ErrKind::InvalidType,
        ParseError::InvalidQualifier => ErrKind::InvalidQualifier,
        ParseError::InvalidEscape => ErrKind::InvalidEscape,
    }
}

pub fn kind_of_package(e: &PackageError) -> ErrKind {
    match e {
        PackageError::Parse(p) => kind_of_parse(p),
        PackageError::UnsupportedType => ErrKind::UnsupportedType,
        PackageError::MissingRequiredField(PurlField::Namespace) => ErrKind::MissingNamespace,
        PackageError::MissingRequiredField(_) => ErrKind::MissingOther,
    }
}

pub fn kind_of_fault(f: &Fault) -> ErrKind {
    match f {
        Fault::Scheme => ErrKind::Scheme,
        Fault::NoType => ErrKind::MissingType,
        Fault::BadType => ErrKind::InvalidType,
        Fault::NoName => ErrKind::MissingName,
        Fault::Qualifier => ErrKind::InvalidQualifier,
        Fault::Escape => ErrKind::InvalidEscape,
        Fault::UnknownType => ErrKind::UnsupportedType,
        Fault::NoNamespace => ErrKind::MissingNamespace,
    }
}

pub fn guarded<R>(f: impl FnOnce() -> R) -> Result<R, String> {
    catch_unwind(AssertUnwindSafe(f)).map_err(|e| {
        if let Some(s) = e.downcast_ref::<String>() {
            s.clone()
        } else if let Some(s) = e.downcast_ref::<&str>() {
            (*s).to_owned()
        } else {
            "panic".to_owned()
        }
    })
}

pub type PS = GenericPurl<String>;
pub type PM = GenericPurl<SmallString>;

pub fn parse_string(s: &str) -> Result<Result<PS, ErrKind>, String> {
    guarded(|| PS::from_str(s).map_err(|e| kind_of_parse(&e)))
}

pub fn parse_small(s: &str) -> Result<Result<PM, ErrKind>, String> {
    guarded(|| PM::from_str(s).map_err(|e| kind_of_parse(&e)))
}

pub fn parse_typed(s: &str) -> Result<Result<Purl, ErrKind>, String> {
    guarded(|| Purl::from_str(s).map_err(|e| kind_of_package(&e)))
}

pub fn all_package_types() -> [PackageType; 7] {
    [
        PackageType::Cargo,
        PackageType::Gem,
        PackageType::Golang,
        PackageType::Maven,
        PackageType::Npm,
        PackageType::NuGet,
        PackageType::PyPI,
    ]
}

/// tiny deterministic PRNG (xorshift*), seeded from VERIF_SEED
pub struct Rng(pub u64);

impl Rng {
    pub fn next(&mut self) -> u64 {
        let mut x = self.0;
        x ^= x >> 12;
        x ^= x << 25;
        x ^= x >> 27;
        self.0 = x;
        x.wrapping_mul(0x2545F4914F6CDD1D)
    }

    pub fn below(&mut self, n: usize) -> usize {
        (self.next() % n as u64) as usize
    }
}

/// The token language of DESIGN.md 1.3
pub const TOKENS: [&str; 36] = [
    "pkg:", "PKG:", "/", "@", "?", "#", "&", "=", ":", ",", "%", ".", "..", "a", "B", "1", "-", "+", "_", " ", "é", "ǅ", "%2F",
    "%2f", "%2e", "%2E", "%40", "%3F", "%23", "%26", "%25", "%80", "%C3%A9", "%ED%A0%80", "checksum", "ab",
];

/// run `f` on every concatenation of at most `n` tokens appended to `prefix`, in parallel over the first token
pub fn for_all_token_strings(prefix: &str, n: usize, f: &(dyn Fn(&str) + Sync)) {
    fn rec(buf: &mut String, depth: usize, f: &(dyn Fn(&str) + Sync)) {
        f(buf);
        if depth == 0 {
            return;
        }
        for t in TOKENS.iter() {
            let l = buf.len();
            buf.push_str(t);
            rec(buf, depth - 1, f);
            buf.truncate(l);
        }
    }
    f(prefix);
    if n == 0 {
        return;
    }
    std::thread::scope(|sc| {
        for t in TOKENS.iter() {
            sc.spawn(move || {
                let mut buf = String::with_capacity(64);
                buf.push_str(prefix);
                buf.push_str(t);
                rec(&mut buf, n - 1, f);
            });
        }
    });
}

/// run `f(i)` for i in 0..n on all cores
pub fn par_for(n: usize, f: &(dyn Fn(usize) + Sync)) {
    let threads = std::thread::available_parallelism().map(|x| x.get()).unwrap_or(4).min(16);
    let next = AtomicU64::new(0);
    std::thread::scope(|sc| {
        for _ in 0..threads {
            sc.spawn(|| loop {
                let i = next.fetch_add(1, Ordering::Relaxed) as usize;
                if i >= n {
                    break;
                }
                f(i);
            });
        }
    });
}

/// Lengths and counts around the usual thresholds of small-string / small-vector / chunked implementations.
pub fn thresholds(thorough: bool) -> Vec<usize> {
    let mut v: Vec<usize> = vec![1, 2, 7, 8, 9, 15, 16, 17, 22, 23, 24, 25, 31, 32, 33, 63, 64, 65, 127, 128, 129, 255, 256, 257, 511, 512, 513, 1023, 1024, 1025];
    if thorough { v.extend([4095, 4096, 4097, 65535, 65536, 65537]); }
    v
}

/// `unit` repeated until the text is at least `len` bytes long
pub fn inflate(unit: &str, len: usize) -> String {
    let mut s = String::with_capacity(len + unit.len());
    while s.len() < len { s.push_str(unit); }
    s
}

/// SCALE corpus: PURL strings in which ONE component (or the number of segments / qualifiers / checksum entries) is grown
/// to each threshold size while the rest stays small. `f(string)`.
pub fn for_all_scaled_strings(thorough: bool, f: &(dyn Fn(&str) + Sync)) {
    let units: [&str; 12] = ["a", "B", "é", "%41", "%2e", ".", "-", "_", "a.B", "Æ", "+", "1"];
    let types: [&str; 6] = ["t", "npm", "pypi", "nuget", "maven", "golang"];
    let ths = thresholds(thorough);
    let jobs: Vec<(usize, usize)> = (0..ths.len()).flat_map(|i| (0..units.len()).map(move |j| (i, j))).collect();
    par_for(jobs.len(), &|ix| {
        let (i, j) = jobs[ix];
        let (n, u) = (ths[i], units[j]);
        let big = inflate(u, n);
        // a variant whose last unit differs (a fast path that stops early must still see it)
        let mut big_tail = big.clone(); big_tail.push_str("Z%5A");
        let mut head_big = String::from("Zz"); head_big.push_str(&big);
        for ty in types {
            for x in [&big, &big_tail, &head_big] {
                // one long component
                f(&format!("pkg:{ty}/ns/{x}"));
                f(&format!("pkg:{ty}/{x}/n@1"));
                f(&format!("pkg:{ty}/a/{x}/b/n"));
                f(&format!("pkg:{ty}/ns/n@{x}"));
                f(&format!("pkg:{ty}/ns/n?k={x}"));
                f(&format!("pkg:{ty}/ns/n?a=1&k={x}&z=2#s"));
                f(&format!("pkg:{ty}/ns/n#{x}"));
                f(&format!("pkg:{ty}/ns/n#a/{x}/b"));
                f(&format!("pkg:{ty}/ns/{x}@{x}?k={x}#{x}"));
            }
            // long qualifier keys (valid and invalid alphabets), long types
            if n <= 1025 {
                f(&format!("pkg:{ty}/ns/n?{}=v", big));
                f(&format!("pkg:{ty}/ns/n?{}=v&{}=w", big, big.to_ascii_uppercase()));
                f(&format!("pkg:{}/ns/n", big));
                f(&format!("pkg:{}{}/ns/n", ty, big));
            }
            // many segments / qualifiers / checksum entries
            if n <= 1025 {
                let segs: Vec<String> = (0..n).map(|k| format!("{u}{k}")).collect();
                f(&format!("pkg:{ty}/{}/n", segs.join("/")));
                f(&format!("pkg:{ty}/ns/n#{}", segs.join("/")));
                f(&format!("pkg:{ty}/{}/n#{}", segs.join("//"), segs.join("/./")));
                let quals: Vec<String> = (0..n).map(|k| format!("k{}={u}{k}", n - k)).collect();
                f(&format!("pkg:{ty}/ns/n?{}", quals.join("&")));
                let mut dup = quals.clone(); dup.push(format!("K{}=x", n / 2 + 1));
                f(&format!("pkg:{ty}/ns/n?{}", dup.join("&")));
                let mut empties = quals.clone(); empties.insert(n / 2, "e=".into());
                f(&format!("pkg:{ty}/ns/n?{}", empties.join("&")));
                let sums: Vec<String> = (0..n).map(|k| format!("Alg{}:{:02X}", n - k, k % 256)).collect();
                f(&format!("pkg:{ty}/ns/n?checksum={}", sums.join(",")));
                let mut dups = sums.clone(); dups.push(format!("ALG{}:00", n / 2 + 1));
                f(&format!("pkg:{ty}/ns/n?checksum={}", dups.join(",")));
            }
            // long checksum hex
            f(&format!("pkg:{ty}/ns/n?checksum=sha1:{}", inflate("aB", n)));
            f(&format!("pkg:{ty}/ns/n?checksum=sha1:{}x", inflate("aB", n)));
            f(&format!("pkg:{ty}/ns/n?checksum=sha1:{}a", inflate("aB", n & !1)));
        }
    });
}


// ---- user-defined typed qualifiers for the suites: a key that needs lower-casing, and a key that is not a valid key ----
pub struct UpperTag<'a>(pub &'a str);
impl purl::qualifiers::well_known::KnownQualifierKey for UpperTag<'_> { const KEY: &'static str = "Tag"; }
impl<'a> From<UpperTag<'a>> for purl::SmallString { fn from(v: UpperTag<'a>) -> Self { purl::SmallString::from(v.0) } }
impl<'a> From<&'a str> for UpperTag<'a> { fn from(v: &'a str) -> Self { UpperTag(v) } }
pub struct BadKey<'a>(pub &'a str);
impl purl::qualifiers::well_known::KnownQualifierKey for BadKey<'_> { const KEY: &'static str = "bad key"; }
impl<'a> From<BadKey<'a>> for purl::SmallString { fn from(v: BadKey<'a>) -> Self { purl::SmallString::from(v.0) } }
impl<'a> From<&'a str> for BadKey<'a> { fn from(v: &'a str) -> Self { BadKey(v) } }
