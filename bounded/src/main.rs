//! Bounded contract checks on the real compiled purl (a stand-in, labelled bounded, never counted as proved).
//! usage: bounded --suite <name[:PROPS]> --tier quick|thorough --seed N   |   bounded --suite <name> --replay <json input>

mod checks;
mod common;
mod ops;
mod refimpl;
mod spell;
mod values;

use common::*;
use serde_json::json;

fn main() {
    let args: Vec<String> = std::env::args().collect();
    let get = |k: &str| args.iter().position(|a| a == k).and_then(|i| args.get(i + 1)).cloned();
    let suite = get("--suite").expect("--suite");
    let thorough = get("--tier").as_deref() == Some("thorough");
    let seed: u64 = get("--seed").and_then(|s| s.parse().ok()).unwrap_or(1);
    std::panic::set_hook(Box::new(|_| {})); // panics are caught and reported as violations, not printed
    let ctx = Ctx::new();
    let (name, props) = suite.split_once(':').map(|(a, b)| (a.to_string(), b.to_string())).unwrap_or((suite.clone(), String::new()));
    let mut exhaustive = true;
    let (domain, bound): (String, String);
    if let Some(r) = get("--replay") {
        // replay: re-run the suite on the real code, recording only violations on exactly the given input
        let v: serde_json::Value = serde_json::from_str(&r).unwrap_or(json!(r));
        let _ = REPLAY_INPUT.set(v.clone());
        if let Err(m) = guarded(|| run(&name, &props, thorough, seed, &ctx)) {
            ctx.nviol.fetch_add(1, std::sync::atomic::Ordering::Relaxed);
            ctx.violations.lock().unwrap().push(json!({"unit": "C06.panic", "clause": "no operation of the library panics", "input": v, "observed": m, "required": "a value or an error"}));
        }
        domain = "replay".into();
        bound = r;
    } else {
        // a panic that escapes a suite (e.g. while constructing a test value) is itself a violation of C06
        if let Err(m) = guarded(|| run(&name, &props, thorough, seed, &ctx)) {
            ctx.violate("C06.panic", "no operation of the library panics", json!({"suite": suite, "note": "the suite was aborted by a panic raised inside the library"}), m, "a value or an error".into());
        }
        let d = describe(&name, thorough);
        domain = d.0;
        bound = d.1;
        if name == "nopanic" { exhaustive = false; }
    }
    let out = json!({
        "suite": suite,
        "domain": domain,
        "bound": bound,
        "evaluations": ctx.evaluations.load(std::sync::atomic::Ordering::Relaxed),
        "distinct_nontrivial": ctx.nontrivial.load(std::sync::atomic::Ordering::Relaxed),
        "exhaustive": exhaustive,
        "violation_count": ctx.nviol.load(std::sync::atomic::Ordering::Relaxed),
        "violations": *ctx.violations.lock().unwrap(),
        "samples": *ctx.samples.lock().unwrap(),
    });
    println!("{}", out);
}

fn run(name: &str, props: &str, thorough: bool, seed: u64, ctx: &Ctx) {
    match name {
        "tokens" => {
            let (n1, n2) = if thorough { (5, 4) } else { (4, 3) };
            for_all_token_strings("pkg:t/", n1, &|s| checks::check_string(ctx, s, props));
            for_all_token_strings("pkg:npm/", n1 - 1, &|s| checks::check_string(ctx, s, props));
            for_all_token_strings("", n2, &|s| checks::check_string(ctx, s, props));
            // deeper into each component: the same alphabet after a prefix that already opened the component
            for pre in ["pkg:t/n?k=", "pkg:t/n?", "pkg:t/n#", "pkg:t/n@", "pkg:t/a/", "pkg:maven/", "pkg:pypi/a/", "pkg:t/n?checksum="] {
                for_all_token_strings(pre, n2, &|s| checks::check_string(ctx, s, props));
            }
            // fifteenth seeding round: checksum labels that coincide under Unicode lower-casing but not under ASCII lower-casing (or
            // the other way round), the scheme in other letter cases, white space around the whole string
            for s in ["pkg:t/n?checksum=%C3%89x:ab,%C3%A9x:cd", "pkg:npm/n?checksum=%C3%A9x:ab,%C3%89x:cd", "pkg:t/n?checksum=%C7%85:00,%C7%86:11",
                      "pkg:t/n?checksum=%C3%89x:AB", "pkg:t/n?checksum=%CE%91%CE%A3:00,%CE%B1%CF%83:11", "pkg:t/n?checksum=%C4%B0:00,i%CC%87:11",
                      "PKG:t/n", "Pkg:npm/%40s/n@1", "pkG:t/n?k=v", "PKG", "pk:t/n", " pkg:t/n", "pkg:t/n ", "pkg:t/n#s ", "pkg:t/n#docs/read%20me%20", "pkg:t/n?k=v%20", "pkg:t/n\n"] {
                checks::check_string(ctx, s, props);
            }
        },
        // SCALE: one component (or one count) grown across the usual implementation thresholds, same per-string oracle as `tokens`
        "scale" => for_all_scaled_strings(thorough, &|s| checks::check_string(ctx, s, props)),
        "spell" => spell::suite_spell(ctx, thorough, props),
        "faults" => spell::suite_faults(ctx, thorough),
        "segments" => spell::suite_segments(ctx, thorough),
        "format" => values::suite_format_unicode(ctx, thorough, if props.is_empty() { "C03" } else { props }),
        "pkgrules" => values::suite_pkgrules(ctx, thorough),
        "lower" => values::suite_lower(ctx, thorough),
        "preds" => values::suite_preds(ctx, thorough),
        "names" => values::suite_names(ctx, thorough),
        "serde" => values::suite_serde(ctx, thorough),
        "eq" => values::suite_eq(ctx, thorough),
        "comb" => values::suite_comb(ctx, thorough),
        "assumptions" => values::suite_assumptions(ctx, thorough),
        "qualmap" => ops::suite_qualmap(ctx, thorough),
        "builder" => ops::suite_builder(ctx, thorough),
        "checksum" => ops::suite_checksum(ctx, thorough),
        "protocol" => ops::suite_protocol(ctx, thorough),
        "nopanic" => ops::suite_nopanic(ctx, thorough, seed),
        "shapes" => ops::suite_shapes(ctx, thorough),
        other => {
            eprintln!("unknown suite {other}");
            std::process::exit(3);
        },
    }
}

fn describe(name: &str, thorough: bool) -> (String, String) {
    let t = |q: &str, th: &str| if thorough { th.to_string() } else { q.to_string() };
    match name {
        "tokens" => ("T_N: every concatenation of <= N tokens of the 36-token alphabet".into(), t("N<=4 after 'pkg:t/', N<=3 after 'pkg:npm/', N<=3 alone and after 8 component-opening prefixes", "N<=5 / 4 / 4 / 4")),
        "scale" => ("SCALE: PURL strings with one component, or the number of segments / qualifiers / checksum entries, grown to each size threshold".into(), t("sizes 1..1025 around powers of two and 23/24", "sizes up to 65537")),
        "spell" => ("S: component tuples x spelling freedoms".into(), t("covering subset of tuples x (each freedom alone + 2 combinations)", "full tuple product x all 576 combinations")),
        "faults" => ("S x every single fault kind x position x spelling of the fault".into(), t("covering tuples x 2 base spellings", "all tuples x 13 base spellings")),
        "segments" => ("all namespace / subpath spellings from 12 pieces".into(), t("<= 4 pieces", "<= 6 pieces")),
        "format" | "pkgrules" | "lower" | "preds" => ("U: every Unicode scalar value + short strings".into(), t("strings <= 4", "strings <= 6")),
        "qualmap" => ("O: every reachable content over a key/value universe x every public operation, to a fixpoint".into(), t("7 keys x 3 values", "10 keys x 3 values")),
        "builder" => ("O: all builder call sequences over a small value universe (+ qualifier-only sequences in depth, + SCALE)".into(), t("length <= 3 (qualifier calls <= 5)", "length <= 4 (qualifier calls <= 6)")),
        "checksum" => ("O: all insertion sequences of (algorithm, bytes)".into(), t("length <= 3", "length <= 4")),
        "protocol" => ("family of 2 x 9 user shapes x T_N".into(), t("N<=2", "N<=3")),
        "nopanic" => ("R: seeded random strings up to 1 MiB".into(), t("400 strings", "4000 strings")),
        _ => (name.to_string(), t("quick", "thorough")),
    }
}
