//! Property-level postconditions evaluated on one input string against the real library.

use std::collections::hash_map::DefaultHasher;
use std::hash::{Hash, Hasher};
use std::str::FromStr;

use purl::{GenericPurl, PurlShape};
use serde_json::json;

use crate::common::*;
use crate::refimpl::{self, RefPurl};

fn h<T: Hash>(t: &T) -> u64 {
    let mut s = DefaultHasher::new();
    t.hash(&mut s);
    s.finish()
}

/// C04: every value handed out is valid and normalised
pub fn check_valid<T: PurlShape>(ctx: &Ctx, input: &str, how: &str, p: &GenericPurl<T>, builtin: bool) {
    let inp = || json!({"string": input, "via": how});
    let bad = |clause: &str, obs: String| ctx.violate("C04.valid", clause, inp(), obs, "see C04".into());
    if p.name().is_empty() {
        bad("name non-empty", "name is empty".into());
    }
    for (n, v) in [("namespace", p.namespace()), ("version", p.version()), ("subpath", p.subpath())] {
        if v == Some("") {
            bad("accessor never reports an empty string", format!("{n} = Some(\"\")"));
        }
    }
    let mut prev: Option<String> = None;
    for (k, v) in p.qualifiers().iter() {
        let ks = k.as_str();
        if !refimpl::valid_key(ks) || ks.bytes().any(|b| b.is_ascii_uppercase()) {
            bad("qualifier key valid and lower-case", format!("key {ks:?}"));
        }
        if let Some(pk) = &prev {
            if pk.as_str() >= ks {
                bad("qualifier keys strictly ascending", format!("{pk:?} before {ks:?}"));
            }
        }
        prev = Some(ks.to_owned());
        if v.is_empty() {
            bad("qualifier value non-empty", format!("key {ks:?} has empty value"));
        }
        if p.qualifiers().get(ks) != Some(v) {
            bad("qualifier retrievable by its key", format!("get({ks:?}) = {:?}, iter gives {v:?}", p.qualifiers().get(ks)));
        }
        // the key compares equal to its own text, to itself and to nothing longer or shorter (the comparisons a caller -- or a
        // user-written hook -- makes against string literals)
        let longer = format!("{ks}x");
        if !(*k == *ks) || !(*k == k.clone()) || *k == longer.as_str() || (ks.len() > 1 && *k == &ks[..ks.len() - 1])
            || k.partial_cmp(ks) != Some(std::cmp::Ordering::Equal) || k.partial_cmp(longer.as_str()) != Some(std::cmp::Ordering::Less) {
            bad("qualifier retrievable by its key", format!("key {ks:?} does not compare as its own text (==, partial_cmp against str)"));
        }
    }
    if builtin {
        let t = p.package_type().package_type();
        if !refimpl::valid_type(&t) || t.bytes().any(|b| b.is_ascii_uppercase()) {
            bad("type non-empty, lower-case, [a-z0-9.+-]", format!("type {t:?}"));
        }
    }
    if let Some(c) = p.qualifiers().get("checksum") {
        if refimpl::checksum_canon(c).as_deref() != Some(c) {
            bad("checksum is in canonical form", format!("checksum {c:?}"));
        }
        let algs: Vec<&str> = c.split(',').map(|e| e.rsplit_once(':').map(|x| x.0).unwrap_or("")).collect();
        if algs.windows(2).any(|w| w[0] >= w[1]) || c.bytes().any(|b| b.is_ascii_uppercase()) {
            bad("checksum sorted strictly by algorithm, no ASCII upper-case", format!("checksum {c:?}"));
        }
    }
}

/// C07: structure of namespace and subpath
pub fn check_segments(ctx: &Ctx, input: &str, o: &Obs) {
    let inp = || json!({"string": input});
    if let Some(ns) = &o.namespace {
        if ns.split('/').any(|s| s.is_empty()) {
            ctx.violate("C07.namespace", "no empty segment, no leading/trailing '/'", inp(), format!("namespace {ns:?}"), "non-empty segments".into());
        }
    }
    if let Some(sp) = &o.subpath {
        if sp.split('/').any(|s| s.is_empty() || s == "." || s == "..") {
            ctx.violate("C07.subpath", "no empty, '.' or '..' segment", inp(), format!("subpath {sp:?}"), "clean segments".into());
        }
    }
}

/// C03: the canonical string is the documented rendering of the accessors
pub fn check_format(ctx: &Ctx, input: &serde_json::Value, o: &Obs, text: &str) {
    let r = RefPurl {
        ty: o.ty.clone(),
        namespace: o.namespace.clone(),
        name: o.name.clone(),
        version: o.version.clone(),
        qualifiers: o.qualifiers.iter().cloned().collect(),
        subpath: o.subpath.clone(),
    };
    let want = refimpl::render(&r);
    if want != text {
        ctx.violate("C03.format", "to_string() == documented shape and escaping", input.clone(), text.to_owned(), want);
    }
    if !text.bytes().all(|b| (0x21..0x7f).contains(&b)) {
        ctx.violate("C03.format", "output is printable ASCII", input.clone(), text.to_owned(), "bytes in 0x21..0x7e".into());
    }
    // qualifier iteration order is ascending
    if o.qualifiers.windows(2).any(|w| w[0].0 >= w[1].0) {
        ctx.violate("C03.format", "qualifiers in ascending key order", input.clone(), format!("{:?}", o.qualifiers), "ascending".into());
    }
}

/// C01 + C10 + C19(self) for one instantiation
pub fn check_roundtrip<T>(ctx: &Ctx, input: &str, inst: &str, p: &GenericPurl<T>, props: &str)
where
    T: PurlShape + FromStr + Clone + PartialEq + std::fmt::Debug + Hash + Ord,
    <T as PurlShape>::Error: From<<T as FromStr>::Err> + std::fmt::Debug,
{
    // another value goes through the library first: nothing it leaves behind (caches, scratch buffers) may show in what follows
    let _ = GenericPurl::<String>::from_str("pkg:zzz/flush?k=v#s").map(|p| p.to_string());
    let _ = purl::Purl::from_str("pkg:cargo/flush").map(|p| p.to_string());
    let inp = || json!({"string": input, "instantiation": inst});
    let text = match guarded(|| p.to_string()) {
        Ok(t) => t,
        Err(m) => {
            ctx.violate("C06.panic", "to_string does not panic", inp(), m, "no panic".into());
            return;
        },
    };
    if props.contains("C01") {
        match guarded(|| GenericPurl::<T>::from_str(&text)) {
            Err(m) => ctx.violate("C06.panic", "from_str does not panic", json!({"string": text}), m, "no panic".into()),
            Ok(Err(e)) => ctx.violate("C01.roundtrip", "canonical string is accepted", inp(), format!("{text:?} -> Err({e:?})"), "Ok(equal PURL)".into()),
            Ok(Ok(p2)) => {
                if &p2 != p {
                    ctx.violate("C01.roundtrip", "canonical string parses to an equal PURL", inp(), format!("{text:?} -> {:?}", Obs::of(&p2)), format!("{:?}", Obs::of(p)));
                }
                let t2 = p2.to_string();
                if t2 != text {
                    ctx.violate("C01.roundtrip", "formats to the identical string again", inp(), t2, text.clone());
                }
            },
        }
    }
    if props.contains("C10") {
        match guarded(|| p.clone().into_builder().build()) {
            Err(m) => ctx.violate("C06.panic", "build does not panic", inp(), m, "no panic".into()),
            Ok(Err(e)) => ctx.violate("C10.rebuild", "re-building succeeds", inp(), format!("Err({e:?})"), "Ok(equal)".into()),
            Ok(Ok(p2)) => {
                if &p2 != p || p2.to_string() != text {
                    ctx.violate("C10.rebuild", "re-building is the identity", inp(), format!("{:?} / {}", Obs::of(&p2), p2.to_string()), format!("{:?} / {}", Obs::of(p), text));
                }
            },
        }
    }
    if props.contains("C19") {
        let c = p.clone();
        if c != *p || h(&c) != h(p) || c.cmp(p) != std::cmp::Ordering::Equal {
            ctx.violate("C19.eq", "a clone is equal, hashes alike, compares Equal", inp(), "mismatch".into(), "equal".into());
        }
    }
}

fn judge(ctx: &Ctx, unit: &str, input: &str, typed: bool, got: &Result<Obs, ErrKind>, props: &str) {
    let r = refimpl::parse(input, typed);
    if r.unjudged {
        return;
    }
    // scheme: letter-case variants of the scheme are not judged
    if r.faults == [refimpl::Fault::Scheme] && input.len() >= 4 && input.is_char_boundary(4) && input[..4].eq_ignore_ascii_case("pkg:") {
        return;
    }
    let inp = || json!({"string": input, "typed": typed});
    match (&r.value, got) {
        (Some(want), Ok(o)) => {
            if props.contains("C02") && !o.matches(want) {
                ctx.violate(&format!("C02.{unit}"), "parsing yields exactly the components", inp(), format!("{o:?}"), format!("{want:?}"));
            }
        },
        (Some(want), Err(k)) => {
            if props.contains("C02") {
                ctx.violate(&format!("C02.{unit}"), "a legal spelling is accepted", inp(), format!("Err({k:?})"), format!("{want:?}"));
            }
        },
        (None, Ok(o)) => {
            if props.contains("C05") {
                ctx.violate(&format!("C05.{unit}"), "invalid input is never accepted", inp(), format!("{o:?}"), format!("refused: {:?}", r.faults));
            }
        },
        (None, Err(k)) => {
            if props.contains("C05") && r.faults.len() == 1 && *k != kind_of_fault(&r.faults[0]) {
                // the typed PURL reports the type-agnostic faults wrapped in PackageError::Parse: same kind here
                ctx.violate(&format!("C05.{unit}"), "the error matches the only defect", inp(), format!("{k:?}"), format!("{:?}", kind_of_fault(&r.faults[0])));
            }
        },
    }
}

/// Everything that can be said about one input string; `props` selects the properties to judge.
pub fn check_string(ctx: &Ctx, s: &str, props: &str) {
    ctx.eval();
    let r1 = parse_string(s);
    let r2 = parse_small(s);
    let r3 = parse_typed(s);
    for (r, n) in [(r1.as_ref().err(), "String"), (r2.as_ref().err(), "SmallString"), (r3.as_ref().err(), "PackageType")] {
        if let Some(m) = r {
            ctx.violate("C06.panic", "parsing never panics", json!({"string": s, "instantiation": n}), m.clone(), "a value or an error".into());
        }
    }
    let (Ok(r1), Ok(r2), Ok(r3)) = (r1, r2, r3) else { return };
    if r1.is_ok() {
        ctx.nontrivial();
        ctx.sample(json!(s));
    }
    let o1 = r1.as_ref().map(Obs::of).map_err(|e| *e);
    let o2 = r2.as_ref().map(Obs::of).map_err(|e| *e);
    let o3 = r3.as_ref().map(Obs::of).map_err(|e| *e);
    if props.contains("C02") || props.contains("C05") {
        judge(ctx, "generic", s, false, &o1, props);
        judge(ctx, "typed", s, true, &o3, props);
    }
    if props.contains("C13") && o1 != o2 {
        ctx.violate("C13.shapes", "String and SmallString give the same outcome", json!({"string": s}), format!("{o2:?}"), format!("{o1:?}"));
    }
    if props.contains("C13") {
        if let (Ok(a), Ok(b)) = (&r1, &r2) {
            if a.to_string() != b.to_string() {
                ctx.violate("C13.shapes", "same canonical string", json!({"string": s}), b.to_string(), a.to_string());
            }
        }
    }
    if props.contains("C08") {
        // typed vs type-agnostic: same namespace, version, qualifiers, subpath; unknown type refused
        match (&o1, &o3) {
            (Ok(g), Ok(t)) => {
                if g.namespace != t.namespace || g.version != t.version || g.qualifiers != t.qualifiers || g.subpath != t.subpath || g.ty != t.ty {
                    ctx.violate("C08.frame", "typed parser agrees with the type-agnostic one on everything but the name", json!({"string": s}), format!("{t:?}"), format!("{g:?}"));
                }
                let want = match t.ty.as_str() {
                    "nuget" => refimpl::lower(&g.name),
                    "pypi" => refimpl::pypi_norm(&g.name),
                    _ => g.name.clone(),
                };
                if t.name != want {
                    ctx.violate("C08.name", "the type's name rule", json!({"string": s}), t.name.clone(), want);
                }
            },
            (Ok(g), Err(k)) => {
                let known = refimpl::KNOWN_TYPES.contains(&g.ty.as_str());
                if !known && *k != ErrKind::UnsupportedType {
                    ctx.violate("C08.unknown", "unknown well-formed type is refused with UnsupportedType", json!({"string": s}), format!("{k:?}"), "UnsupportedType".into());
                }
                if known && !(g.ty == "maven" && g.namespace.is_none() && *k == ErrKind::MissingNamespace) {
                    ctx.violate("C08.typed", "a known type is accepted whenever the type-agnostic parser accepts (except maven without namespace)", json!({"string": s}), format!("{k:?}"), format!("{g:?}"));
                }
            },
            (Err(_), Ok(t)) => {
                ctx.violate("C08.typed", "typed parser accepts only what the type-agnostic parser accepts", json!({"string": s}), format!("{t:?}"), "Err".into());
            },
            _ => {},
        }
    }
    if let Ok(p) = &r1 {
        let o = o1.as_ref().unwrap();
        if props.contains("C04") {
            check_valid(ctx, s, "from_str::<String>", p, true);
        }
        if props.contains("C07") {
            check_segments(ctx, s, o);
        }
        if props.contains("C03") {
            if let Ok(t) = guarded(|| p.to_string()) {
                check_format(ctx, &json!({"string": s}), o, &t);
            }
        }
        check_roundtrip(ctx, s, "String", p, props);
    }
    if let Ok(p) = &r2 {
        if props.contains("C04") {
            check_valid(ctx, s, "from_str::<SmallString>", p, true);
        }
        check_roundtrip(ctx, s, "SmallString", p, props);
    }
    if let Ok(p) = &r3 {
        if props.contains("C04") {
            check_valid(ctx, s, "from_str::<PackageType>", p, true);
        }
        if props.contains("C07") {
            check_segments(ctx, s, o3.as_ref().unwrap());
        }
        if props.contains("C03") {
            if let Ok(t) = guarded(|| p.to_string()) {
                check_format(ctx, &json!({"string": s, "typed": true}), o3.as_ref().unwrap(), &t);
            }
        }
        check_roundtrip(ctx, s, "PackageType", p, props);
    }
}
