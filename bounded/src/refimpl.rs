//! Independent reference for the PURL grammar, written from the property statements (C02, C03, C05, C07),
//! used as the oracle of the bounded stand-in. Strict; never panics.

use std::collections::BTreeMap;

#[derive(Debug, Clone, PartialEq, Eq, PartialOrd, Ord, Hash)]
pub enum Fault {
    Scheme,
    NoType,
    BadType,
    NoName,
    Qualifier,
    Escape,
    UnknownType,
    NoNamespace,
}

#[derive(Debug, Clone, PartialEq, Eq)]
pub struct RefPurl {
    pub ty: String,
    pub namespace: Option<String>,
    pub name: String,
    pub version: Option<String>,
    pub qualifiers: BTreeMap<String, String>,
    pub subpath: Option<String>,
}

#[derive(Debug, Clone)]
pub struct RefOutcome {
    /// every kind of defect found, independent of any checking order
    pub faults: Vec<Fault>,
    /// true if the input has a construct on which the statement is silent (outcome not judged)
    pub unjudged: bool,
    pub value: Option<RefPurl>,
}

pub const KNOWN_TYPES: [&str; 7] = ["cargo", "gem", "golang", "maven", "npm", "nuget", "pypi"];

pub fn hexval(b: u8) -> Option<u8> {
    match b {
        b'0'..=b'9' => Some(b - b'0'),
        b'a'..=b'f' => Some(b - b'a' + 10),
        b'A'..=b'F' => Some(b - b'A' + 10),
        _ => None,
    }
}

/// percent-decode (a '%' not followed by two hex digits stays literal) and require valid UTF-8
pub fn decode(s: &str) -> Option<String> {
    let b = s.as_bytes();
    let mut out = Vec::with_capacity(b.len());
    let mut i = 0;
    while i < b.len() {
        if b[i] == b'%' && i + 2 < b.len() {
            if let (Some(h), Some(l)) = (hexval(b[i + 1]), hexval(b[i + 2])) {
                out.push(h * 16 + l);
                i += 3;
                continue;
            }
        }
        out.push(b[i]);
        i += 1;
    }
    String::from_utf8(out).ok()
}

pub fn valid_type(t: &str) -> bool {
    !t.is_empty() && t.bytes().all(|c| c.is_ascii_alphanumeric() || c == b'.' || c == b'+' || c == b'-')
}

pub fn valid_key(k: &str) -> bool {
    !k.is_empty() && k.bytes().all(|c| c.is_ascii_alphanumeric() || c == b'.' || c == b'-' || c == b'_')
}

/// Unicode lower-casing, char by char
pub fn lower(s: &str) -> String {
    s.chars().flat_map(|c| c.to_lowercase()).collect()
}

pub fn pypi_norm(s: &str) -> String {
    let mut out = String::new();
    let mut in_dash = false;
    for c in s.chars() {
        if c == '-' || c == '_' || c == '.' {
            if !in_dash {
                out.push('-');
            }
            in_dash = true;
        } else {
            in_dash = false;
            out.extend(c.to_lowercase());
        }
    }
    out
}

/// canonical checksum text, or None if malformed
pub fn checksum_canon(v: &str) -> Option<String> {
    let mut m: BTreeMap<String, String> = BTreeMap::new();
    for e in v.split(',') {
        let i = e.rfind(':')?;
        let (alg, hexs) = (&e[..i], &e[i + 1..]);
        if hexs.len() % 2 != 0 || !hexs.bytes().all(|c| c.is_ascii_hexdigit()) {
            return None;
        }
        if m.insert(lower(alg), hexs.to_ascii_lowercase()).is_some() {
            return None;
        }
    }
    Some(m.iter().map(|(k, v)| format!("{k}:{v}")).collect::<Vec<_>>().join(","))
}

fn segments(raw: &str, subpath: bool, faults: &mut Vec<Fault>) -> Option<String> {
    let mut segs: Vec<String> = vec![];
    for piece in raw.split('/') {
        if piece.is_empty() || (subpath && (piece == "." || piece == "..")) {
            continue;
        }
        match decode(piece) {
            None => faults.push(Fault::Escape),
            Some(d) => {
                if d.contains('/') || (subpath && (d == "." || d == "..")) {
                    faults.push(Fault::Escape);
                } else {
                    segs.push(d);
                }
            },
        }
    }
    if segs.is_empty() {
        None
    } else {
        Some(segs.join("/"))
    }
}

/// `typed`: interpret the type as one of the seven known package types
pub fn parse(s: &str, typed: bool) -> RefOutcome {
    let mut faults = vec![];
    let mut unjudged = false;
    let Some(rest) = s.strip_prefix("pkg:") else {
        return RefOutcome { faults: vec![Fault::Scheme], unjudged: false, value: None };
    };
    let rest = rest.trim_start_matches('/');
    let (rest, subpath_raw) = match rest.rfind('#') {
        Some(i) => (&rest[..i], Some(&rest[i + 1..])),
        None => (rest, None),
    };
    let (path, quals_raw) = match rest.rfind('?') {
        Some(i) => (&rest[..i], Some(&rest[i + 1..])),
        None => (rest, None),
    };
    let subpath = subpath_raw.and_then(|r| segments(r, true, &mut faults));
    let mut qualifiers: BTreeMap<String, String> = BTreeMap::new();
    if let Some(q) = quals_raw {
        let mut seen: BTreeMap<String, bool> = BTreeMap::new(); // key -> had non-empty value
        for item in q.split('&') {
            let Some(i) = item.find('=') else {
                faults.push(Fault::Qualifier);
                continue;
            };
            let (k, v) = (&item[..i], &item[i + 1..]);
            if !valid_key(k) {
                faults.push(Fault::Qualifier);
                continue;
            }
            let k = k.to_ascii_lowercase();
            match decode(v) {
                None => faults.push(Fault::Escape),
                Some(d) => {
                    if let Some(prev_nonempty) = seen.get(&k).copied() {
                        if prev_nonempty && !d.is_empty() {
                            faults.push(Fault::Qualifier);
                        } else {
                            // a key repeated with an empty value: the statement is silent
                            unjudged = true;
                        }
                        continue;
                    }
                    seen.insert(k.clone(), !d.is_empty());
                    if !d.is_empty() {
                        qualifiers.insert(k, d);
                    }
                },
            }
        }
    }
    if let Some(c) = qualifiers.get("checksum").cloned() {
        match checksum_canon(&c) {
            Some(t) => {
                qualifiers.insert("checksum".into(), t);
            },
            None => faults.push(Fault::Qualifier),
        }
    }
    if path.is_empty() {
        faults.push(Fault::NoType);
        return RefOutcome { faults, unjudged, value: None };
    }
    let (ty, rest) = match path.find('/') {
        Some(i) => (&path[..i], Some(&path[i + 1..])),
        None => (path, None),
    };
    let ty_ok = valid_type(ty);
    if !ty_ok {
        faults.push(Fault::BadType);
    }
    let Some(rest) = rest else {
        faults.push(Fault::NoName);
        return RefOutcome { faults, unjudged, value: None };
    };
    let (rest, version_raw) = match rest.rfind('@') {
        Some(i) => (&rest[..i], Some(&rest[i + 1..])),
        None => (rest, None),
    };
    let (ns_raw, name_raw) = match rest.rfind('/') {
        Some(i) => (Some(&rest[..i]), &rest[i + 1..]),
        None => (None, rest),
    };
    let version = match version_raw.map(decode) {
        Some(None) => {
            faults.push(Fault::Escape);
            None
        },
        Some(Some(v)) if !v.is_empty() => Some(v),
        _ => None,
    };
    let namespace = ns_raw.and_then(|r| segments(r, false, &mut faults));
    let mut name = match decode(name_raw) {
        None => {
            faults.push(Fault::Escape);
            String::from("?")
        },
        Some(n) => n,
    };
    if name.is_empty() {
        faults.push(Fault::NoName);
    }
    let ty_l = ty.to_ascii_lowercase();
    if typed && ty_ok {
        if !KNOWN_TYPES.contains(&ty_l.as_str()) {
            faults.push(Fault::UnknownType);
        } else {
            match ty_l.as_str() {
                "maven" if namespace.is_none() => faults.push(Fault::NoNamespace),
                "nuget" => name = lower(&name),
                "pypi" => name = pypi_norm(&name),
                _ => {},
            }
        }
    }
    faults.sort();
    faults.dedup();
    let value = if faults.is_empty() {
        Some(RefPurl { ty: ty_l, namespace, name, version, qualifiers, subpath })
    } else {
        None
    };
    RefOutcome { faults, unjudged, value }
}

// ---- C03: the documented escaping, per component ----
#[derive(Clone, Copy, PartialEq, Eq, Debug)]
pub enum Comp {
    Namespace,
    Name,
    Version,
    Qualifier,
    Subpath,
}

pub fn escaped(comp: Comp, b: u8) -> bool {
    if b < 0x20 || b == 0x7f || b == b' ' || b >= 0x80 {
        return true;
    }
    if matches!(b, b'"' | b'<' | b'>' | b'%' | b'@' | b'?' | b'#') {
        return true;
    }
    match comp {
        Comp::Namespace | Comp::Version => matches!(b, b'`' | b'{' | b'}'),
        Comp::Name => matches!(b, b'`' | b'{' | b'}' | b'/'),
        Comp::Qualifier => matches!(b, b'+' | b'&'),
        Comp::Subpath => b == b'`',
    }
}

pub fn enc(comp: Comp, s: &str) -> String {
    let mut out = String::new();
    for &b in s.as_bytes() {
        if escaped(comp, b) {
            out.push_str(&format!("%{:02X}", b));
        } else {
            out.push(b as char);
        }
    }
    out
}

pub fn render(p: &RefPurl) -> String {
    let mut s = format!("pkg:{}/", p.ty);
    if let Some(ns) = &p.namespace {
        s.push_str(&enc(Comp::Namespace, ns));
        s.push('/');
    }
    s.push_str(&enc(Comp::Name, &p.name));
    if let Some(v) = &p.version {
        s.push('@');
        s.push_str(&enc(Comp::Version, v));
    }
    let mut sep = '?';
    for (k, v) in &p.qualifiers {
        s.push(sep);
        s.push_str(&enc(Comp::Qualifier, k));
        s.push('=');
        s.push_str(&enc(Comp::Qualifier, v));
        sep = '&';
    }
    if let Some(sp) = &p.subpath {
        s.push('#');
        s.push_str(&enc(Comp::Subpath, sp));
    }
    s
}
