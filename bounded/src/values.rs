//! U: Unicode domain (C03, C08, C09, C19), package type names (C15), serde (C16), unit-level contracts used as
//! witness search for failed Verus obligations, and validation of the assumed std / dependency contracts (A).

use std::collections::hash_map::DefaultHasher;
use std::collections::BTreeMap;
use std::hash::{Hash, Hasher};
use std::str::FromStr;

use purl::qualifiers::verif_qualifiers as vq;
use purl::{verif_format, verif_lib, verif_package_type, verif_parse, GenericPurl, GenericPurlBuilder, PackageType, Purl, SmallString};
use serde_json::json;

use crate::checks::*;
use crate::common::*;
use crate::refimpl::{self, Comp};

fn all_scalars() -> impl Iterator<Item = char> {
    (0u32..=0x10FFFF).filter_map(char::from_u32)
}

fn short_strings(alpha: &[char], max: usize) -> Vec<String> {
    let mut out = vec![String::new()];
    let mut frontier = vec![String::new()];
    for _ in 0..max {
        let mut next = vec![];
        for s in &frontier {
            for c in alpha {
                let mut t = s.clone();
                t.push(*c);
                next.push(t);
            }
        }
        out.extend(next.iter().cloned());
        frontier = next;
    }
    out
}

/// SCALE: long words -- a filler repeated to each size threshold, with one special piece at the start, middle or end
fn scaled_words(thorough: bool, fillers: &[&str], specials: &[&str]) -> Vec<String> {
    let mut out = vec![];
    for n in thresholds(thorough) {
        if n > 5000 { continue; }
        for f in fillers {
            let big = inflate(f, n);
            let half = inflate(f, n / 2);
            for sp in specials {
                out.push(format!("{big}{sp}")); out.push(format!("{sp}{big}")); out.push(format!("{half}{sp}{half}"));
            }
            out.push(big);
        }
    }
    out
}

/// C03 (+ C09 serialisation loses nothing): every scalar value in every component position, built with the builder
pub fn suite_format_unicode(ctx: &Ctx, thorough: bool, props: &str) {
    let chars: Vec<char> = all_scalars().collect();
    par_for(chars.len(), &|i| {
        let c = chars[i];
        let cs = c.to_string();
        for pos in 0..5 {
            ctx.eval();
            let mut b = GenericPurlBuilder::new("t".to_owned(), "n");
            match pos {
                0 => b = b.with_namespace(cs.as_str()),
                1 => b = b.with_name(cs.as_str()),
                2 => b = b.with_version(cs.as_str()),
                3 => b = b.with_qualifier("k", cs.as_str()).unwrap(),
                _ => b = b.with_subpath(cs.as_str()),
            }
            let pos_name = ["namespace", "name", "version", "qualifier value", "subpath"][pos];
            let inp = || json!({"char": format!("U+{:04X}", c as u32), "position": pos_name});
            let p = match guarded(|| b.build()) {
                Err(m) => { ctx.violate("C06.panic", "build never panics", inp(), m, "no panic".into()); continue; },
                Ok(Err(e)) => { ctx.violate("C09.build", "build succeeds for a valid type and non-empty name", inp(), format!("{e:?}"), "Ok".into()); continue; },
                Ok(Ok(p)) => p,
            };
            let o = Obs::of(&p);
            let text = match guarded(|| p.to_string()) { Ok(t) => t, Err(m) => { ctx.violate("C06.panic", "to_string never panics", inp(), m, "no panic".into()); continue; } };
            if props.contains("C03") {
                check_format(ctx, &inp(), &o, &text);
                // per-character escaping, straight from the statement
                let comp = [Comp::Namespace, Comp::Name, Comp::Version, Comp::Qualifier, Comp::Subpath][pos];
                let want_piece = refimpl::enc(comp, &cs);
                if !text.contains(&want_piece) {
                    ctx.violate("C03.escape", "escaped exactly as documented, upper-case hex", inp(), text.clone(), want_piece);
                }
            }
            if props.contains("C09") || props.contains("C01") {
                // the string form is accepted and yields the same fields (insignificant segments dropped)
                match parse_string(&text) {
                    Err(m) => ctx.violate("C06.panic", "parsing never panics", inp(), m, "no panic".into()),
                    Ok(Err(k)) => ctx.violate("C09.reparse", "the string form of a built PURL is accepted", inp(), format!("{text:?} -> Err({k:?})"), "Ok".into()),
                    Ok(Ok(p2)) => {
                        ctx.nontrivial();
                        let o2 = Obs::of(&p2);
                        let mut want = o.clone();
                        if pos == 0 { want.namespace = o.namespace.as_deref().map(|n| n.split('/').filter(|s| !s.is_empty()).collect::<Vec<_>>().join("/")).filter(|s| !s.is_empty()); }
                        if pos == 4 { want.subpath = o.subpath.as_deref().map(|n| n.split('/').filter(|s| !s.is_empty() && *s != "." && *s != "..").collect::<Vec<_>>().join("/")).filter(|s| !s.is_empty()); }
                        if o2 != want {
                            ctx.violate("C09.reparse", "no character is lost, merged into another field or reinterpreted", inp(), format!("{o2:?}"), format!("{want:?}"));
                        }
                    },
                }
            }
        }
    });
    // all ASCII pairs in every position
    let ascii: Vec<u8> = (0u8..128).collect();
    par_for(ascii.len(), &|i| {
        for j in 0..128u8 {
            let s: String = [ascii[i] as char, j as char].iter().collect();
            for pos in 0..5 {
                ctx.eval();
                let mut b = GenericPurlBuilder::new("t".to_owned(), "n");
                match pos {
                    0 => b = b.with_namespace(s.as_str()),
                    1 => b = b.with_name(s.as_str()),
                    2 => b = b.with_version(s.as_str()),
                    3 => b = b.with_qualifier("k", s.as_str()).unwrap(),
                    _ => b = b.with_subpath(s.as_str()),
                }
                let inp = || json!({"text": s, "position": pos});
                if let Ok(Ok(p)) = guarded(|| b.build()) {
                    if let Ok(text) = guarded(|| p.to_string()) {
                        if props.contains("C03") { check_format(ctx, &inp(), &Obs::of(&p), &text); }
                        if props.contains("C09") || props.contains("C01") {
                            if let Ok(r) = parse_string(&text) {
                                match r {
                                    Err(k) => ctx.violate("C09.reparse", "the string form of a built PURL is accepted", inp(), format!("{text:?} -> Err({k:?})"), "Ok".into()),
                                    Ok(p2) => {
                                        ctx.nontrivial();
                                        let (o, o2) = (Obs::of(&p), Obs::of(&p2));
                                        if o2 != drop_insignificant(&o) {
                                            ctx.violate("C09.reparse", "no character is lost, merged into another field or reinterpreted", inp(), format!("{o2:?}"), format!("{:?}", drop_insignificant(&o)));
                                        }
                                    },
                                }
                            }
                        }
                    }
                }
            }
        }
    });
    // segment structure: every short string over dots, slashes, a letter, '%' and a space as namespace and as subpath
    // (segments such as "...", ".a", "a." are ordinary and must survive; only "", "." and ".." are insignificant)
    if props.contains("C09") || props.contains("C01") {
        let segs = short_strings(&['.', '/', 'a', '%', ' '], if thorough { 7 } else { 5 });
        par_for(segs.len(), &|i| {
            let s = &segs[i];
            for pos in [0usize, 4] {
                ctx.eval();
                let b = GenericPurlBuilder::new("t".to_owned(), "n");
                let b = if pos == 0 { b.with_namespace(s.as_str()) } else { b.with_subpath(s.as_str()) };
                let inp = || json!({"text": s, "position": if pos == 0 { "namespace" } else { "subpath" }});
                let p = match guarded(|| b.build()) {
                    Err(m) => { ctx.violate("C06.panic", "build never panics", inp(), m, "no panic".into()); continue; },
                    Ok(Err(e)) => { ctx.violate("C09.build", "build succeeds for a valid type and non-empty name", inp(), format!("{e:?}"), "Ok".into()); continue; },
                    Ok(Ok(p)) => p,
                };
                let o = Obs::of(&p);
                let text = match guarded(|| p.to_string()) { Ok(t) => t, Err(m) => { ctx.violate("C06.panic", "to_string never panics", inp(), m, "no panic".into()); continue; } };
                match parse_string(&text) {
                    Err(m) => ctx.violate("C06.panic", "parsing never panics", inp(), m, "no panic".into()),
                    Ok(Err(k)) => ctx.violate("C09.reparse", "the string form of a built PURL is accepted", inp(), format!("{text:?} -> Err({k:?})"), "Ok".into()),
                    Ok(Ok(p2)) => {
                        ctx.nontrivial();
                        let o2 = Obs::of(&p2);
                        if o2 != drop_insignificant(&o) {
                            ctx.violate("C09.reparse", "no character is lost, merged into another field or reinterpreted", inp(), format!("{o2:?}"), format!("{:?}", drop_insignificant(&o)));
                        }
                    },
                }
            }
        });
    }
    // a write that fails half-way (a sink that accepts only k bytes) leaves nothing behind: the next value still prints as itself
    {
        struct Limited { left: usize, got: String }
        impl std::fmt::Write for Limited {
            fn write_str(&mut self, s: &str) -> std::fmt::Result {
                if s.len() > self.left { self.left = 0; return Err(std::fmt::Error); }
                self.left -= s.len(); self.got.push_str(s); Ok(())
            }
        }
        let texts = ["pkg:generic/some/long-name@1.0?a=b&c=d#x/y", "pkg:npm/%40angular/cli@15.0.0", "pkg:t/n?os=linux", "pkg:t/n"];
        let vals: Vec<GenericPurl<String>> = texts.iter().map(|t| GenericPurl::<String>::from_str(t).unwrap()).collect();
        for (i, first) in vals.iter().enumerate() {
            for k in 0..=texts[i].len() {
                for (j, second) in vals.iter().enumerate() {
                    ctx.eval();
                    use std::fmt::Write;
                    let mut sink = Limited { left: k, got: String::new() };
                    let _ = write!(sink, "{}", first);
                    let got = second.to_string();
                    if got != texts[j] {
                        ctx.violate("C03.format", "to_string() == documented shape and escaping (after an earlier write failed)", json!({"first": texts[i], "sink_capacity": k, "second": texts[j]}), got.clone(), texts[j].to_string());
                    }
                    let again = GenericPurl::<String>::from_str(&got);
                    if again.as_ref().ok() != Some(second) {
                        ctx.violate("C01.roundtrip", "canonical string parses to an equal PURL", json!({"first": texts[i], "sink_capacity": k, "second": texts[j]}), format!("{:?}", again.as_ref().map(|p| Obs::of(p))), texts[j].to_string());
                        ctx.violate("C09.reparse", "the string form yields the same field values (after an earlier write failed)", json!({"first": texts[i], "sink_capacity": k, "second": texts[j]}), format!("{:?}", again.as_ref().map(|p| Obs::of(p))), texts[j].to_string());
                    }
                }
            }
        }
    }
    ctx.sample(json!({"char": "U+0026", "position": "qualifier value"}));
}

/// C09: "namespace and subpath compared after dropping insignificant segments (empty ones, and '.'/'..' in the subpath)"
fn drop_insignificant(o: &Obs) -> Obs {
    let mut want = o.clone();
    want.namespace = o.namespace.as_deref().map(|n| n.split('/').filter(|s| !s.is_empty()).collect::<Vec<_>>().join("/")).filter(|s| !s.is_empty());
    want.subpath = o.subpath.as_deref().map(|n| n.split('/').filter(|s| !s.is_empty() && *s != "." && *s != "..").collect::<Vec<_>>().join("/")).filter(|s| !s.is_empty());
    want
}

/// C08: names over all scalar values and short strings, all seven types, both entry points
pub fn suite_pkgrules(ctx: &Ctx, thorough: bool) {
    let mut names: Vec<String> = all_scalars().map(|c| c.to_string()).collect();
    names.extend(short_strings(&['a', 'A', '1', '-', '_', '.', 'Æ', 'ǅ'], if thorough { 6 } else { 4 }));
    names.extend(scaled_words(thorough, &["a", "A", "é", "É", "Σ", "-", "a_"], &["A", "Æ", "ǅ", "İ", "Σ", "ΑΣ", "Σ.", "_.", "-", "--", "."]));
    // names that look like the combined spelling of another ecosystem (`group:artifact`, `scope/name`, a Go major-version suffix):
    // a name is a name, whatever it looks like
    for n in ["a:b", "org.apache.commons:io", ":a", "a:", "a:b:c", "@scope/name", "a/b", "/a", "a/", "x/v2", "A:B"] { names.push(n.to_string()); }
    let types = all_package_types();
    par_for(names.len(), &|i| {
        let name = &names[i];
        if name.is_empty() { return; }
        for t in types {
            ctx.eval();
            let tn = t.name();
            let want = match tn { "nuget" => refimpl::lower(name), "pypi" => refimpl::pypi_norm(name), _ => name.clone() };
            let inp = || json!({"type": tn, "name": name});
            let b = Purl::builder(t, name.as_str()).with_namespace("ns").with_version("1").with_subpath("s");
            match guarded(|| b.build()) {
                Err(m) => ctx.violate("C06.panic", "build never panics", inp(), m, "no panic".into()),
                Ok(Err(e)) => ctx.violate("C08.builder", "builder accepts the name", inp(), format!("{e:?}"), "Ok".into()),
                Ok(Ok(p)) => {
                    ctx.nontrivial();
                    if p.name() != want {
                        ctx.violate("C08.name", "the type's name rule (builder)", inp(), p.name().to_owned(), want.clone());
                    }
                    if p.namespace() != Some("ns") || p.version() != Some("1") || p.subpath() != Some("s") || !p.qualifiers().is_empty() {
                        ctx.violate("C08.frame", "namespace, version, qualifiers, subpath untouched", inp(), format!("{:?}", Obs::of(&p)), "ns/1/s".into());
                    }
                    // C10: re-building the value is the identity (the name rule is idempotent)
                    match guarded(|| p.clone().into_builder().build()) {
                        Ok(Ok(p2)) if p2 == p && p2.to_string() == p.to_string() => {},
                        other => ctx.violate("C10.rebuild", "re-building is the identity", inp(), format!("{:?}", other.map(|r| r.map(|q| Obs::of(&q)))), format!("{:?}", Obs::of(&p))),
                    }
                    // a name set again on an existing value, differing from the current one in ASCII case only
                    let flipped: String = name.chars().map(|c| if c.is_ascii_lowercase() { c.to_ascii_uppercase() } else if c.is_ascii_uppercase() { c.to_ascii_lowercase() } else { c }).collect();
                    if flipped != *name {
                        let wantf = match tn { "nuget" => refimpl::lower(&flipped), "pypi" => refimpl::pypi_norm(&flipped), _ => flipped.clone() };
                        match guarded(|| p.clone().into_builder().with_name(flipped.as_str()).build()) {
                            Ok(Ok(p3)) if p3.name() == wantf => {},
                            other => ctx.violate("C08.name", "the type's name rule (builder, name set again on an existing value)", json!({"type": tn, "name": name, "then": flipped}), format!("{:?}", other.map(|r| r.map(|q| q.name().to_owned()))), wantf),
                        }
                    }
                    // same through the parser
                    let text = format!("pkg:{}/ns/{}@1#s", tn, refimpl::enc(Comp::Name, name));
                    if let Ok(r) = parse_typed(&text) {
                        match r {
                            Err(k) => ctx.violate("C08.parser", "parser accepts the same name", json!({"string": text}), format!("{k:?}"), "Ok".into()),
                            Ok(p2) => if p2 != p { ctx.violate("C08.parser", "parser and builder agree", json!({"string": text}), format!("{:?}", Obs::of(&p2)), format!("{:?}", Obs::of(&p))) },
                        }
                    }
                },
            }
        }
        // maven without namespace, both entry points
        ctx.eval();
        match guarded(|| Purl::builder(PackageType::Maven, name.as_str()).build()) {
            Ok(Err(purl::PackageError::MissingRequiredField(purl::PurlField::Namespace))) => {},
            other => ctx.violate("C08.maven", "maven is refused unless a namespace is present (builder)", json!({"name": name}), format!("{:?}", other.map(|r| r.map(|p| Obs::of(&p)))), "Err(MissingRequiredField(Namespace))".into()),
        }
    });
    // a well-formed type other than the seven known ones -- aliases people use, near misses, other ecosystems -- is refused by the
    // typed PURL (UnsupportedType) whenever the type-agnostic PURL accepts the string
    for ty in ["go", "Go", "GO", "rubygems", "RubyGems", "crates", "crate", "pip", "node", "nodejs", "mvn", "dotnet", "py", "rust", "golang.org", "go-lang",
               "deb", "rpm", "generic", "github", "docker", "t", "npmx", "xnpm", "np", "cargo2", "pypi3", "nuget.org", "maven2", "gems"] {
        for rest in ["n", "ns/n@1", "a/b/n?k=v#s"] {
            ctx.eval();
            let s = format!("pkg:{ty}/{rest}");
            if let Ok(Ok(_)) = parse_string(&s) {
                match parse_typed(&s) {
                    Ok(Err(k)) if format!("{k:?}").contains("UnsupportedType") => {},
                    other => ctx.violate("C08.typed", "a well-formed type other than the seven known ones is refused by the typed PURL", json!(s), format!("{:?}", other.map(|r| r.map(|p| Obs::of(&p)))), "Err(UnsupportedType)".into()),
                }
            }
        }
    }
    for ns in ["/", "//", "///"] {
        ctx.eval();
        match guarded(|| Purl::builder(PackageType::Maven, "n").with_namespace(ns).build()) {
            Ok(Err(purl::PackageError::MissingRequiredField(purl::PurlField::Namespace))) => {},
            other => ctx.violate("C08.maven", "a namespace without a significant segment is no namespace (builder)", json!({"namespace": ns}), format!("{:?}", other.map(|r| r.map(|p| Obs::of(&p)))), "Err(MissingRequiredField(Namespace))".into()),
        }
    }
    ctx.sample(json!({"type": "nuget", "name": "ǅx"}));
}

/// unit contracts of the lower-casing helpers (witness search for U-lower / U-pypi obligations)
pub fn suite_lower(ctx: &Ctx, thorough: bool) {
    let mut inputs: Vec<String> = all_scalars().map(|c| c.to_string()).collect();
    inputs.extend(short_strings(&['a', 'A', '1', '-', '_', '.', 'Æ', 'ǅ', 'İ'], if thorough { 6 } else { 4 }));
    inputs.extend(scaled_words(thorough, &["a", "A", "é", "É", "Σ", "-", "a_"], &["A", "Æ", "ǅ", "İ", "Σ", "ΑΣ", "Σ.", "_.", "-", "--", "."]));
    par_for(inputs.len(), &|i| {
        let s = &inputs[i];
        ctx.eval();
        let want = refimpl::lower(s);
        let mut a = SmallString::from(s.as_str());
        let r = guarded(|| { verif_lib::lowercase_in_place(&mut a); });
        if r.is_err() || a.as_str() != want {
            ctx.violate("U-lower.lowercase_in_place", "out == each char replaced by its Unicode lower-case mapping", json!(s), format!("{a:?} {r:?}"), want.clone());
        }
        match guarded(|| verif_lib::copy_as_lowercase(s)) {
            Ok(b) if b.as_str() == want => { ctx.nontrivial(); },
            other => ctx.violate("U-lower.copy_as_lowercase", "out == each char replaced by its Unicode lower-case mapping", json!(s), format!("{other:?}"), want.clone()),
        }
        let mut n = SmallString::from(s.as_str());
        let r = guarded(|| { verif_package_type::fix_pypi_name(&mut n); });
        let wantp = refimpl::pypi_norm(s);
        if r.is_err() || n.as_str() != wantp {
            ctx.violate("U-pypi.fix_pypi_name", "out == lower-cased, every maximal run of - _ . replaced by one -", json!(s), format!("{n:?} {r:?}"), wantp);
        }
    });
    ctx.sample(json!("ǅA-_.b"));
}

/// unit contracts of the validity predicates, shapes, key handling (witness search for U-vtype / U-shape / U-qkey)
pub fn suite_preds(ctx: &Ctx, thorough: bool) {
    let mut inputs: Vec<String> = all_scalars().map(|c| c.to_string()).collect();
    inputs.extend(short_strings(&['a', 'Z', '0', '.', '+', '-', '_', '!', 'é', '%'], if thorough { 5 } else { 4 }));
    inputs.extend(scaled_words(thorough, &["a", "Z", "0", "a.B"], &["Z", "z", "+", "_", "!", "é", "%", " "]));
    par_for(inputs.len(), &|i| {
        let s = &inputs[i];
        ctx.eval();
        let vt = refimpl::valid_type(s);
        if verif_lib::is_valid_package_type(s) != vt {
            ctx.violate("U-vtype.is_valid_package_type", "r == non-empty && all chars in [A-Za-z0-9.+-]", json!(s), (!vt).to_string(), vt.to_string());
        }
        let vk = refimpl::valid_key(s);
        if vq::is_valid_qualifier_name(s) != vk {
            ctx.violate("U-qkey.is_valid_qualifier_name", "r == non-empty && all chars in [A-Za-z0-9._-]", json!(s), (!vk).to_string(), vk.to_string());
        }
        match vq::check_qualifier_key(s) {
            Ok((_, k)) => {
                if !vk || k.as_str() != s.to_ascii_lowercase() {
                    ctx.violate("U-qkey.check_qualifier_key", "Err iff invalid; stored key == ASCII-lower-cased", json!(s), format!("Ok({:?})", k.as_str()), format!("valid={vk}"));
                }
            },
            Err(_) => if vk { ctx.violate("U-qkey.check_qualifier_key", "valid key accepted", json!(s), "Err".into(), "Ok".into()) },
        }
        // the four built-in string shapes agree (C13) and validate + lower-case (C04)
        let want: Result<String, ()> = if vt { Ok(s.to_ascii_lowercase()) } else { Err(()) };
        if let Ok(Ok(p)) = guarded(|| GenericPurlBuilder::new(s.clone(), "n").build()) {
            if let Err(m) = guarded(|| p.to_string()) {
                ctx.violate("C06.panic", "formatting a PURL obtained with a built-in type parameter never panics", json!({"type": s}), m, "a string".into());
            }
        }
        if let Ok(Ok(p)) = guarded(|| GenericPurlBuilder::new(SmallString::from(s.as_str()), "n").build()) {
            if let Err(m) = guarded(|| p.to_string()) {
                ctx.violate("C06.panic", "formatting a PURL obtained with a built-in type parameter never panics", json!({"type": s, "shape": "SmallString"}), m, "a string".into());
            }
        }
        for owned in [false, true] {
            let t: std::borrow::Cow<str> = if owned { std::borrow::Cow::Owned(s.clone()) } else { std::borrow::Cow::Borrowed(s.as_str()) };
            if let Ok(Ok(p)) = guarded(|| GenericPurlBuilder::new(t, "n").build()) {
                if let Err(m) = guarded(|| p.to_string()) {
                    ctx.violate("C06.panic", "formatting a PURL obtained with a built-in type parameter never panics", json!({"type": s, "shape": if owned { "Cow::Owned" } else { "Cow::Borrowed" }}), m, "a string".into());
                }
            }
        }
        let shapes: Vec<(&str, Result<String, ()>)> = vec![
            ("String", GenericPurlBuilder::new(s.clone(), "n").build().map(|p| p.package_type().clone()).map_err(|_| ())),
            ("Cow::Borrowed", GenericPurlBuilder::new(std::borrow::Cow::Borrowed(s.as_str()), "n").build().map(|p| p.package_type().to_string()).map_err(|_| ())),
            ("Cow::Owned", GenericPurlBuilder::new(std::borrow::Cow::<str>::Owned(s.clone()), "n").build().map(|p| p.package_type().to_string()).map_err(|_| ())),
            ("SmallString", GenericPurlBuilder::new(SmallString::from(s.as_str()), "n").build().map(|p| p.package_type().to_string()).map_err(|_| ())),
        ];
        for (n, got) in shapes {
            if got != want {
                ctx.violate("U-shape.finish", "Ok iff valid type; on Ok the type is ASCII-lower-cased; identical for every built-in shape", json!({"type": s, "shape": n}), format!("{got:?}"), format!("{want:?}"));
            } else if vt { ctx.nontrivial(); }
        }
    });
    ctx.sample(json!("A.b+c-1"));
}

/// C15: package type names
pub fn suite_names(ctx: &Ctx, thorough: bool) {
    for t in all_package_types() {
        let n = t.name();
        ctx.eval();
        let s: &'static str = t.into();
        let agree = n == t.as_ref() && n == s && n == t.to_string() && format!("{t:#}") == n && format!("{t:.20}") == n && purl::PurlShape::package_type(&t) == n
            && serde_json::to_string(&t).ok() == Some(format!("\"{n}\""))
            && n.bytes().all(|b| b.is_ascii_lowercase()) && refimpl::KNOWN_TYPES.contains(&n);
        if !agree {
            ctx.violate("C15.names", "name(), Display, conversions, PURL type string and serde form agree", json!(n), format!("{:?} {:?} {:?} {:?}", t.as_ref(), s, t.to_string(), serde_json::to_string(&t).ok()), n.to_owned());
        }
        // every case variant parses to the type
        let len = n.len();
        for mask in 0..(1u32 << len) {
            ctx.eval();
            let v: String = n.chars().enumerate().map(|(i, c)| if mask >> i & 1 == 1 { c.to_ascii_uppercase() } else { c }).collect();
            match PackageType::from_str(&v) {
                Ok(x) if x == t => { ctx.nontrivial(); },
                other => ctx.violate("C15.case", "any mixture of letter case parses to the type", json!(v), format!("{other:?}"), format!("{t:?}")),
            }
        }
    }
    // converse: anything that parses equals the name once ASCII-lower-cased
    let alpha: Vec<char> = "acegilmnoprtuvy".chars().chain(['ſ', 'K', 'ı', 'İ', 'ａ', 'ｎ', 'A', 'N', ' ', '1']).collect();
    let mut cands = short_strings(&alpha, if thorough { 5 } else { 4 });
    for n in refimpl::KNOWN_TYPES {
        // one-edit neighbours
        let cs: Vec<char> = n.chars().collect();
        for i in 0..=cs.len() {
            for c in &alpha {
                let mut v = cs.clone(); v.insert(i, *c); cands.push(v.iter().collect());
                if i < cs.len() { let mut v = cs.clone(); v[i] = *c; cands.push(v.iter().collect()); }
            }
            if i < cs.len() { let mut v = cs.clone(); v.remove(i); cands.push(v.iter().collect()); }
        }
        cands.push(format!(" {n}")); cands.push(format!("{n} ")); cands.push(format!("{n}\0")); cands.push(format!("pkg:{n}"));
    }
    // names people use for the same ecosystems
    for alias in ["go", "Go", "GO", "rubygems", "RubyGems", "crates", "crate", "pip", "node", "nodejs", "mvn", "dotnet", "py", "rust", "golang.org"] { cands.push(alias.to_string()); }
    for other in ["alpm", "apk", "bitbucket", "cocoapods", "composer", "conan", "conda", "cran", "deb", "docker", "generic", "github", "hackage", "hex", "huggingface", "mlflow", "oci", "pub", "qpkg", "rpm", "swid", "swift", "go", "rubygems", "crates", "pip", "python", "mvn", "node"] {
        cands.push(other.to_string());
    }
    // SCALE: long look-alikes -- a name repeated, padded or followed by a long tail
    for n in refimpl::KNOWN_TYPES {
        for len in thresholds(thorough) {
            if len > 70000 { continue; }
            cands.push(inflate(n, len)); cands.push(format!("{n}{}", inflate(" ", len))); cands.push(format!("{}{n}", inflate("a", len)));
            cands.push(format!("{n}{}", inflate("\0", len))); cands.push(inflate(&n.to_uppercase(), len));
        }
    }
    // multi-byte strings: few characters, many bytes (and the reverse), every length up to 40 characters
    for f in ["é", "ａ", "İ", "\u{10000}", "n\u{301}"] {
        for k in 1..=40usize { cands.push(f.repeat(k)); cands.push(format!("npm{}", f.repeat(k))); cands.push(format!("{}pypi", f.repeat(k))); }
    }
    // percent-encoded spellings of the names: every single character of every name escaped, in either hex case, and all of them
    for n in refimpl::KNOWN_TYPES {
        let cs: Vec<char> = n.chars().collect();
        for i in 0..cs.len() {
            for (upper, hexup) in [(false, true), (false, false), (true, true)] {
                let c = if upper { cs[i].to_ascii_uppercase() } else { cs[i] };
                let e = if hexup { format!("%{:02X}", c as u32) } else { format!("%{:02x}", c as u32) };
                let v: String = cs.iter().enumerate().map(|(j, x)| if j == i { e.clone() } else { x.to_string() }).collect();
                cands.push(v);
            }
        }
        cands.push(cs.iter().map(|c| format!("%{:02X}", *c as u32)).collect());
    }
    par_for(cands.len(), &|i| {
        let v = &cands[i];
        ctx.eval();
        if let Ok(t) = PackageType::from_str(v) {
            if v.to_ascii_lowercase() != t.name() {
                ctx.violate("C15.converse", "a string that parses equals the type's name once ASCII-lower-cased", json!(v), format!("{t:?}"), "Err".into());
            }
        }
        // the same through the type string of a PURL: whatever stands between `pkg:` and the first '/' is taken for a known type
        // only if it is that type's name up to ASCII case
        if !v.contains(['/', '?', '#']) && v.len() < 200 {
            if let Ok(Ok(p)) = guarded(|| Purl::from_str(&format!("pkg:{v}/n"))) {
                if v.to_ascii_lowercase() != p.package_type().name() {
                    ctx.violate("C15.converse", "a string that parses equals the type's name once ASCII-lower-cased", json!(format!("pkg:{v}/n")), format!("{:?}", p.package_type()), "Err".into());
                }
            }
        }
    });
    ctx.sample(json!("NuGeT"));
}

// a minimal serializer that accepts only a string value, with a configurable `is_human_readable` (binary formats report false)
mod recser {
    use serde::ser::{self, Impossible, Serialize};
    #[derive(Debug)]
    pub struct NotAString(pub String);
    impl std::fmt::Display for NotAString { fn fmt(&self, f: &mut std::fmt::Formatter<'_>) -> std::fmt::Result { write!(f, "{}", self.0) } }
    impl std::error::Error for NotAString {}
    impl ser::Error for NotAString { fn custom<T: std::fmt::Display>(m: T) -> Self { NotAString(m.to_string()) } }
    macro_rules! refuse { ($($m:ident($t:ty)),*) => { $( fn $m(self, _v: $t) -> Result<String, NotAString> { Err(NotAString(stringify!($m).into())) } )* } }
    /// a serializer whose output is broken: it refuses every value, strings included
    pub struct Failing;
    impl ser::Serializer for Failing {
        type Ok = String; type Error = NotAString;
        type SerializeSeq = Impossible<String, NotAString>; type SerializeTuple = Impossible<String, NotAString>;
        type SerializeTupleStruct = Impossible<String, NotAString>; type SerializeTupleVariant = Impossible<String, NotAString>;
        type SerializeMap = Impossible<String, NotAString>; type SerializeStruct = Impossible<String, NotAString>;
        type SerializeStructVariant = Impossible<String, NotAString>;
        fn serialize_str(self, _v: &str) -> Result<String, NotAString> { Err(NotAString("broken output".into())) }
        refuse!(serialize_bool(bool), serialize_i8(i8), serialize_i16(i16), serialize_i32(i32), serialize_i64(i64), serialize_u8(u8), serialize_u16(u16),
                serialize_u32(u32), serialize_u64(u64), serialize_f32(f32), serialize_f64(f64), serialize_char(char), serialize_bytes(&[u8]));
        fn serialize_none(self) -> Result<String, NotAString> { Err(NotAString("none".into())) }
        fn serialize_some<T: ?Sized + Serialize>(self, _v: &T) -> Result<String, NotAString> { Err(NotAString("some".into())) }
        fn serialize_unit(self) -> Result<String, NotAString> { Err(NotAString("unit".into())) }
        fn serialize_unit_struct(self, _n: &'static str) -> Result<String, NotAString> { Err(NotAString("unit_struct".into())) }
        fn serialize_unit_variant(self, _n: &'static str, _i: u32, _v: &'static str) -> Result<String, NotAString> { Err(NotAString("unit_variant".into())) }
        fn serialize_newtype_struct<T: ?Sized + Serialize>(self, _n: &'static str, _v: &T) -> Result<String, NotAString> { Err(NotAString("newtype_struct".into())) }
        fn serialize_newtype_variant<T: ?Sized + Serialize>(self, _n: &'static str, _i: u32, _v: &'static str, _x: &T) -> Result<String, NotAString> { Err(NotAString("newtype_variant".into())) }
        fn serialize_seq(self, _l: Option<usize>) -> Result<Self::SerializeSeq, NotAString> { Err(NotAString("seq".into())) }
        fn serialize_tuple(self, _l: usize) -> Result<Self::SerializeTuple, NotAString> { Err(NotAString("tuple".into())) }
        fn serialize_tuple_struct(self, _n: &'static str, _l: usize) -> Result<Self::SerializeTupleStruct, NotAString> { Err(NotAString("tuple_struct".into())) }
        fn serialize_tuple_variant(self, _n: &'static str, _i: u32, _v: &'static str, _l: usize) -> Result<Self::SerializeTupleVariant, NotAString> { Err(NotAString("tuple_variant".into())) }
        fn serialize_map(self, _l: Option<usize>) -> Result<Self::SerializeMap, NotAString> { Err(NotAString("map".into())) }
        fn serialize_struct(self, _n: &'static str, _l: usize) -> Result<Self::SerializeStruct, NotAString> { Err(NotAString("struct".into())) }
        fn serialize_struct_variant(self, _n: &'static str, _i: u32, _v: &'static str, _l: usize) -> Result<Self::SerializeStructVariant, NotAString> { Err(NotAString("struct_variant".into())) }
    }
    pub struct Rec { pub human: bool }
    impl ser::Serializer for Rec {
        type Ok = String; type Error = NotAString;
        type SerializeSeq = Impossible<String, NotAString>; type SerializeTuple = Impossible<String, NotAString>;
        type SerializeTupleStruct = Impossible<String, NotAString>; type SerializeTupleVariant = Impossible<String, NotAString>;
        type SerializeMap = Impossible<String, NotAString>; type SerializeStruct = Impossible<String, NotAString>;
        type SerializeStructVariant = Impossible<String, NotAString>;
        fn is_human_readable(&self) -> bool { self.human }
        fn serialize_str(self, v: &str) -> Result<String, NotAString> { Ok(v.to_owned()) }
        refuse!(serialize_bool(bool), serialize_i8(i8), serialize_i16(i16), serialize_i32(i32), serialize_i64(i64), serialize_u8(u8), serialize_u16(u16),
                serialize_u32(u32), serialize_u64(u64), serialize_f32(f32), serialize_f64(f64), serialize_char(char), serialize_bytes(&[u8]));
        fn serialize_none(self) -> Result<String, NotAString> { Err(NotAString("none".into())) }
        fn serialize_some<T: ?Sized + Serialize>(self, _v: &T) -> Result<String, NotAString> { Err(NotAString("some".into())) }
        fn serialize_unit(self) -> Result<String, NotAString> { Err(NotAString("unit".into())) }
        fn serialize_unit_struct(self, _n: &'static str) -> Result<String, NotAString> { Err(NotAString("unit_struct".into())) }
        fn serialize_unit_variant(self, _n: &'static str, _i: u32, _v: &'static str) -> Result<String, NotAString> { Err(NotAString("unit_variant".into())) }
        fn serialize_newtype_struct<T: ?Sized + Serialize>(self, _n: &'static str, _v: &T) -> Result<String, NotAString> { Err(NotAString("newtype_struct".into())) }
        fn serialize_newtype_variant<T: ?Sized + Serialize>(self, _n: &'static str, _i: u32, _v: &'static str, _x: &T) -> Result<String, NotAString> { Err(NotAString("newtype_variant".into())) }
        fn serialize_seq(self, _l: Option<usize>) -> Result<Self::SerializeSeq, NotAString> { Err(NotAString("seq".into())) }
        fn serialize_tuple(self, _l: usize) -> Result<Self::SerializeTuple, NotAString> { Err(NotAString("tuple".into())) }
        fn serialize_tuple_struct(self, _n: &'static str, _l: usize) -> Result<Self::SerializeTupleStruct, NotAString> { Err(NotAString("tuple_struct".into())) }
        fn serialize_tuple_variant(self, _n: &'static str, _i: u32, _v: &'static str, _l: usize) -> Result<Self::SerializeTupleVariant, NotAString> { Err(NotAString("tuple_variant".into())) }
        fn serialize_map(self, _l: Option<usize>) -> Result<Self::SerializeMap, NotAString> { Err(NotAString("map".into())) }
        fn serialize_struct(self, _n: &'static str, _l: usize) -> Result<Self::SerializeStruct, NotAString> { Err(NotAString("struct".into())) }
        fn serialize_struct_variant(self, _n: &'static str, _i: u32, _v: &'static str, _l: usize) -> Result<Self::SerializeStructVariant, NotAString> { Err(NotAString("struct_variant".into())) }
    }
}


// a deserializer whose next value is NOT a string: whatever is asked of it, it drives one chosen `visit_*` entry point of the
// visitor, carrying bytes / items that would spell a valid PURL if (wrongly) converted to a string
mod probe {
    use serde::de::{self, value, IntoDeserializer, Visitor};
    pub const KINDS: &[&str] = &["bytes", "byte_buf", "borrowed_bytes", "bool", "u8", "u64", "i64", "u128", "f64", "unit", "none", "some", "newtype", "seq", "map"];
    pub struct Probe(pub &'static str, pub &'static str);
    impl<'de> de::Deserializer<'de> for Probe {
        type Error = value::Error;
        fn deserialize_any<V: Visitor<'de>>(self, v: V) -> Result<V::Value, value::Error> {
            let text: &'static str = self.1;
            match self.0 {
                "bytes" => v.visit_bytes(text.as_bytes()),
                "byte_buf" => v.visit_byte_buf(text.as_bytes().to_vec()),
                "borrowed_bytes" => v.visit_borrowed_bytes(text.as_bytes()),
                "bool" => v.visit_bool(true),
                "u8" => v.visit_u8(1),
                "u64" => v.visit_u64(1),
                "i64" => v.visit_i64(-1),
                "u128" => v.visit_u128(1),
                "f64" => v.visit_f64(1.5),
                "unit" => v.visit_unit(),
                "none" => v.visit_none(),
                "some" => v.visit_some(IntoDeserializer::<value::Error>::into_deserializer(text)),
                "newtype" => v.visit_newtype_struct(IntoDeserializer::<value::Error>::into_deserializer(text)),
                "seq" => v.visit_seq(value::SeqDeserializer::<_, value::Error>::new(vec![text].into_iter())),
                "map" => v.visit_map(value::MapDeserializer::<_, value::Error>::new(vec![("purl", text)].into_iter())),
                _ => unreachable!(),
            }
        }
        serde::forward_to_deserialize_any! { bool i8 i16 i32 i64 i128 u8 u16 u32 u64 u128 f32 f64 char str string bytes byte_buf option unit
            unit_struct newtype_struct seq tuple tuple_struct map struct enum identifier ignored_any }
    }
}

/// C16: serde form is the string form
pub fn suite_serde(ctx: &Ctx, thorough: bool) {
    let n = if thorough { 4 } else { 3 };
    for_all_token_strings("pkg:t/", n, &|s| serde_one(ctx, s));
    for_all_token_strings("pkg:npm/", n - 1, &|s| serde_one(ctx, s));
    for_all_token_strings("", 2, &|s| serde_one(ctx, s));
    // SCALE: the same on strings with one component grown across the size thresholds
    for_all_scaled_strings(thorough, &|s| serde_one(ctx, s));
    // typed PURLs whose name rule has work to do (mixed ASCII / non-ASCII capitals, separator runs, final sigma): the value that
    // comes back from the data format is the value that went in
    for s in ["pkg:nuget/ÆA@1.0", "pkg:nuget/AÆ", "pkg:NuGet/SociÉté.Core", "pkg:pypi/A_É", "pkg:pypi/É__a.-b", "pkg:pypi/ΟΔΟΣ", "pkg:nuget/ΟΔΟΣ.Σ", "pkg:nuget/ǅx",
              "pkg:npm/%40Scope/Name@1?Arch=X", "pkg:maven/G/A@1?checksum=SHA1:AB,md5:00", "pkg:t/n?checksum=ΑΣ:00,b:11",
              // fifteenth round: the scheme in other letter cases, white space around the string -- refused by both or accepted by both
              "PKG:t/n", "Pkg:npm/%40s/n@1", "pkG:t/n?k=v", "PKG", "pk:t/n", " pkg:t/n", "pkg:t/n ", "pkg:t/n#s ", "pkg:t/ns/#x/name#sub", "pkg:t/ns/?x/name?k=v", "pkg:t/n\n"] { serde_one(ctx, s); }
    {
        let base = GenericPurl::<String>::from_str("pkg:t/ns/n@1?a=1&b=2&c=3&d=4&e=5#s").unwrap();
        let mut vals: Vec<GenericPurl<String>> = vec![];
        for drop in ["a", "c", "e"] {
            let mut b = base.clone().into_builder(); b.parts.qualifiers.retain_mut(|k, _| k != drop); if let Ok(p) = b.build() { vals.push(p); }
            let mut b = base.clone().into_builder(); b.parts.qualifiers.retain(|k, _| k != drop); if let Ok(p) = b.build() { vals.push(p); }
            let mut b = base.clone().into_builder(); if let Ok(purl::qualifiers::Entry::Occupied(o)) = b.parts.qualifiers.entry(drop) { o.remove(); } if let Ok(p) = b.build() { vals.push(p); }
            let mut b = base.clone().into_builder(); b.parts.qualifiers.remove(drop); b.parts.qualifiers.insert("Z9", "z").unwrap(); if let Ok(p) = b.build() { vals.push(p); }
            // keys added through the entry API, before, between and after the others
            for new_key in ["A0", "bb", "cc", "zz"] {
                let mut b = base.clone().into_builder(); if let Ok(e) = b.parts.qualifiers.entry(new_key) { e.or_insert("v"); } if let Ok(p) = b.build() { vals.push(p); }
                let mut b = base.clone().into_builder(); if let Ok(e) = b.parts.qualifiers.entry(new_key) { e.or_insert_with(|| "w"); } if let Ok(p) = b.build() { vals.push(p); }
                let mut b = base.clone().into_builder(); if let Ok(purl::qualifiers::Entry::Vacant(v)) = b.parts.qualifiers.entry(new_key) { v.insert("x"); } if let Ok(p) = b.build() { vals.push(p); }
            }
        }
        for a in &vals {
            ctx.eval();
            let back: Option<GenericPurl<String>> = serde_json::to_string(a).ok().and_then(|t| serde_json::from_str(&t).ok());
            if back.as_ref() != Some(a) {
                ctx.violate("C16.roundtrip", "survives a JSON round trip unchanged", json!({"built": a.to_string()}), format!("{:?}", back.map(|p| Obs::of(&p))), format!("{:?}", Obs::of(a)));
            }
        }
    }
    for v in [json!(null), json!(1), json!(1.5), json!(true), json!([]), json!(["pkg:t/n"]), json!({"purl": "pkg:t/n"}), json!({})] {
        ctx.eval();
        if serde_json::from_value::<GenericPurl<String>>(v.clone()).is_ok() || serde_json::from_value::<Purl>(v.clone()).is_ok() {
            ctx.violate("C16.nonstring", "values that are not strings are refused", v.clone(), "Ok".into(), "Err".into());
        }
    }
    // every entry point of the visitor other than the string ones, with content that spells a valid PURL
    for kind in probe::KINDS {
        for text in ["pkg:t/n", "pkg:npm/n@1", "pkg:maven/g/a"] {
            ctx.eval();
            let g: Result<GenericPurl<String>, _> = serde::Deserialize::deserialize(probe::Probe(kind, text));
            let t: Result<Purl, _> = serde::Deserialize::deserialize(probe::Probe(kind, text));
            if g.is_ok() || t.is_ok() {
                ctx.violate("C16.nonstring", "values that are not strings are refused (every visitor entry point)", json!({"value_kind": kind, "content": text}), "Ok".into(), "Err".into());
            }
        }
    }
    // a serialisation that fails half-way leaves nothing behind: the next value still serialises to its own string
    {
        use serde::Serialize;
        ctx.eval();
        let first = GenericPurl::<String>::from_str("pkg:t/first?k=v").unwrap();
        let second = GenericPurl::<String>::from_str("pkg:npm/%40s/second@2").unwrap();
        let _ = first.serialize(recser::Failing);
        let _ = first.serialize(serde_json::value::Serializer).map(|_| ());
        let _ = first.serialize(recser::Failing);
        match second.serialize(recser::Rec { human: true }) {
            Ok(t) if t == second.to_string() => {},
            other => ctx.violate("C16.serialize", "serialising produces exactly the canonical string (after an earlier serialisation failed)", json!({"first": first.to_string(), "second": second.to_string()}), format!("{other:?}"), second.to_string()),
        }
        let j = serde_json::to_string(&second).ok();
        if j != Some(format!("\"{}\"", second)) { ctx.violate("C16.serialize", "serialising produces exactly the canonical string (after an earlier serialisation failed)", json!(second.to_string()), format!("{j:?}"), second.to_string()); }
    }
    ctx.sample(json!("pkg:t/a?b=%26"));
}

fn serde_one(ctx: &Ctx, s: &str) {
    ctx.eval();
    let js = serde_json::Value::String(s.to_owned());
    let a = GenericPurl::<String>::from_str(s);
    let b = serde_json::from_value::<GenericPurl<String>>(js.clone());
    if a.is_ok() != b.is_ok() {
        ctx.violate("C16.deserialize", "deserialising a string succeeds exactly when parsing it succeeds", json!(s), format!("{:?}", b.is_ok()), format!("{:?}", a.is_ok()));
    }
    if let (Ok(a), Ok(b)) = (&a, &b) {
        ctx.nontrivial();
        if a != b {
            ctx.violate("C16.deserialize", "yields an equal PURL", json!(s), format!("{:?}", Obs::of(b)), format!("{:?}", Obs::of(a)));
        }
        let ser = serde_json::to_value(a).ok();
        if ser != Some(serde_json::Value::String(a.to_string())) {
            ctx.violate("C16.serialize", "serialising produces exactly the canonical string as one string value", json!(s), format!("{ser:?}"), a.to_string());
        }
        // every serializer -- human-readable or not -- receives exactly one string value
        for human in [true, false] {
            use serde::Serialize;
            match a.serialize(recser::Rec { human }) {
                Ok(t) if t == a.to_string() => {},
                other => ctx.violate("C16.serialize", "serialising produces exactly the canonical string as one string value (any serializer)", json!({"string": s, "is_human_readable": human}), format!("{other:?}"), a.to_string()),
            }
            // and a deserializer handing over a plain string, human-readable or not
            use serde::de::IntoDeserializer;
            let d: serde::de::value::StrDeserializer<serde::de::value::Error> = s.into_deserializer();
            let r: Result<GenericPurl<String>, _> = serde::Deserialize::deserialize(d);
            if r.as_ref().ok() != Some(a) {
                ctx.violate("C16.deserialize", "deserialising the string yields the parsed PURL (any deserializer)", json!(s), format!("{:?}", r.map(|p| Obs::of(&p))), format!("{:?}", Obs::of(a)));
            }
        }
        let back: Option<GenericPurl<String>> = serde_json::to_string(a).ok().and_then(|t| serde_json::from_str(&t).ok());
        if back.as_ref() != Some(a) {
            ctx.violate("C16.roundtrip", "survives a JSON round trip unchanged", json!(s), format!("{:?}", back.map(|p| Obs::of(&p))), format!("{:?}", Obs::of(a)));
        }
    }
    let a = Purl::from_str(s);
    let b = serde_json::from_value::<Purl>(js);
    if a.is_ok() != b.is_ok() {
        ctx.violate("C16.deserialize.typed", "deserialising a string succeeds exactly when parsing it succeeds", json!(s), format!("{:?}", b.is_ok()), format!("{:?}", a.is_ok()));
    }
    if let (Ok(a), Ok(b)) = (&a, &b) {
        if a != b || serde_json::to_value(a).ok() != Some(serde_json::Value::String(a.to_string())) {
            ctx.violate("C16.typed", "equal PURL, canonical string", json!(s), format!("{:?}", Obs::of(b)), format!("{:?}", Obs::of(a)));
        }
        let back: Option<Purl> = serde_json::to_string(a).ok().and_then(|t| serde_json::from_str(&t).ok());
        if back.as_ref() != Some(a) {
            ctx.violate("C16.roundtrip", "survives a JSON round trip unchanged", json!(s), format!("{:?}", back.map(|p| Obs::of(&p))), format!("{:?}", Obs::of(a)));
        }
    }
}

fn hh<T: Hash>(t: &T) -> u64 { let mut s = DefaultHasher::new(); t.hash(&mut s); s.finish() }

/// C19: equality, hashing, ordering agree with the canonical string, over a near-collision corpus
pub fn suite_eq(ctx: &Ctx, thorough: bool) {
    let mut corpus: Vec<String> = vec![];
    let bases = ["pkg:t/n", "pkg:t/a/n", "pkg:t/a/b/n", "pkg:t/n@1", "pkg:t/n?k=v", "pkg:t/n?k=v&l=w", "pkg:t/n#s", "pkg:t/n#s/t", "pkg:t/a/n@1?k=v#s"];
    for b in bases {
        corpus.push(b.to_string());
        corpus.push(b.replace("pkg:t", "pkg:T"));
        corpus.push(b.replace("pkg:", "pkg://"));
        corpus.push(b.replacen('n', "%6E", 1));
        corpus.push(b.replace("k=v", "K=v"));
        corpus.push(b.replace("k=v", "k=v%26l%3Dw"));
        corpus.push(b.replace("k=v", "k=a&l=c"));
        corpus.push(b.replace("k=v", "k=a%26l=c"));
        corpus.push(b.replace("k=v", "k=a%26l%3Dc"));
        corpus.push(b.replace("/n", "/m"));
        corpus.push(b.replace("a/n", "a%2Fn"));
        corpus.push(b.replace("a/n", "a/x/../n"));
        corpus.push(b.replace("#s", "#s/./"));
        corpus.push(b.replace("#s", "#./s"));
        corpus.push(b.replace("@1", "@1%40"));
        corpus.push(b.replace("n@1", "n%401"));
        corpus.push(b.replace("n?k", "n%3Fk"));
        corpus.push(b.replace("n#s", "n%23s"));
        corpus.push(b.replace("a/b/n", "a%2Fb/n"));
        corpus.push(b.replace("/a/n", "/n@a"));
        // a '/' inside the NAME next to a namespace: a different PURL than the one with that segment in the namespace
        corpus.push(b.replace("a/n", "a/x%2Fn")); corpus.push(b.replace("a/n", "a/x/n")); corpus.push(b.replace("b/n", "b%2Fn"));
    }
    // blanks and line ends at the ends of a component are part of it: such values differ from the trimmed ones, in value and in string
    for (a, b) in [("n@1", "n@1%0A"), ("n@1", "n@1%20"), ("n@1", "n@%201"), ("n", "n%20"), ("a/n", "%20a/n"), ("n?k=v", "n?k=v%20"), ("n?k=v", "n?k=%09v"), ("n#s", "n#s%20"), ("n#s", "n#%0As")] {
        corpus.push(format!("pkg:t/{a}")); corpus.push(format!("pkg:t/{b}"));
    }
    // keys that differ, at one position, in a letter against each non-letter of the key alphabet (and in letter case): the
    // hand-written comparisons of the key type and the derived ones must give ONE order
    for k in ["a", "aa", "a_", "a-", "a.", "a0", "a9", "az", "A_", "AZ", "a_a", "aaa", "_a", "0a", "z", "Z", "_", "-"] {
        corpus.push(format!("pkg:t/n?{k}=1"));
        corpus.push(format!("pkg:t/n?{k}=1&zz=2"));
    }
    if thorough { for_all_token_strings("pkg:t/", 3, &|_| {}); }
    corpus.sort();
    corpus.dedup();
    let vals: Vec<(String, GenericPurl<String>, String)> = corpus.iter().filter_map(|s| GenericPurl::<String>::from_str(s).ok().map(|p| { let t = p.to_string(); (s.clone(), p, t) })).collect();
    let tvals: Vec<(String, Purl, String)> = corpus.iter().map(|s| s.replace("pkg:t", "pkg:npm").replace("pkg:T", "pkg:NPM")).filter_map(|s| Purl::from_str(&s).ok().map(|p| { let t = p.to_string(); (s.clone(), p, t) })).collect();
    trait SlotClone: Sized { fn clone_box(&self) -> Box<Self>; fn clone_inner(&self) -> Self; }
    impl<T: Clone> SlotClone for T { fn clone_box(&self) -> Box<Self> { Box::new(self.clone()) } fn clone_inner(&self) -> Self { self.clone() } }
    fn pairs<T: PartialEq + Hash + Ord + std::fmt::Debug + Clone>(ctx: &Ctx, vals: &[(String, T, String)]) {
        for (i, (sa, a, ta)) in vals.iter().enumerate() {
            for (sb, b, tb) in vals.iter().skip(i) {
                ctx.eval();
                let inp = || json!({"a": sa, "b": sb});
                if (a == b) != (ta == tb) {
                    ctx.violate("C19.eq", "equal exactly when the canonical strings are equal", inp(), format!("a==b: {}, strings {ta:?} {tb:?}", a == b), "agree".into());
                }
                if a == b { ctx.nontrivial(); }
                if a == b && hh(a) != hh(b) {
                    ctx.violate("C19.hash", "equal PURLs have equal hashes", inp(), "hash differs".into(), "equal".into());
                }
                // the same values held in ONE reused slot (same address): hash, equality and order depend on the value only
                {
                    let mut slot = a.clone_box();
                    let h1 = hh(&*slot);
                    *slot = b.clone_inner();
                    if hh(&*slot) != hh(b) || (*slot == *a) != (a == b) || (h1 != hh(a)) {
                        ctx.violate("C19.hash", "equal PURLs have equal hashes", inp(), "hash / equality depends on where the value is stored".into(), "value only".into());
                    }
                }
                let c = a.cmp(b);
                if (c == std::cmp::Ordering::Equal) != (a == b) || c != b.cmp(a).reverse() || a.partial_cmp(b) != Some(c) {
                    ctx.violate("C19.ord", "total order; Equal exactly when equal; antisymmetric", inp(), format!("{c:?}"), "consistent".into());
                }
            }
        }
        // transitivity on triples (sampled: every triple of the first 40)
        let n = vals.len().min(40);
        for i in 0..n { for j in 0..n { for k in 0..n {
            let (a, b, c) = (&vals[i].1, &vals[j].1, &vals[k].1);
            if a <= b && b <= c && !(a <= c) {
                ctx.violate("C19.ord", "ordering is transitive", json!({"a": vals[i].0, "b": vals[j].0, "c": vals[k].0}), "a<=b<=c but a>c".into(), "a<=c".into());
            }
        } } }
    }
    pairs(ctx, &vals);
    pairs(ctx, &tvals);
    // SCALE: values whose long component differs only in its last / first character, next to re-spelled identical copies
    for n in thresholds(thorough) {
        if n > 5000 { continue; }
        let big = inflate("ab", n);
        let mut group: Vec<String> = vec![];
        for (pre, post) in [("pkg:t/", "/n"), ("pkg:t/ns/", ""), ("pkg:t/ns/n@", ""), ("pkg:t/ns/n?k=", ""), ("pkg:t/ns/n?k=", "&z=1"), ("pkg:t/ns/n#", ""), ("pkg:t/ns/n#s/", "/t")] {
            group.push(format!("{pre}{big}{post}"));
            group.push(format!("{pre}{big}c{post}"));
            group.push(format!("{pre}{big}d{post}"));
            group.push(format!("{pre}c{big}{post}"));
            group.push(format!("{pre}{}{post}", big.replacen("ab", "%61b", 1)));
        }
        if n <= 300 {
            let qs: Vec<String> = (0..n).map(|i| format!("k{i}=v")).collect();
            let mut qs2 = qs.clone(); let last = qs2.len() - 1; qs2[last] = format!("k{}=w", last);
            let mut qs3 = qs.clone(); qs3.reverse();
            group.push(format!("pkg:t/n?{}", qs.join("&"))); group.push(format!("pkg:t/n?{}", qs2.join("&"))); group.push(format!("pkg:T/n?{}", qs3.join("&").to_uppercase().replace("=V", "=v")));
        }
        let gv: Vec<(String, GenericPurl<String>, String)> = group.iter().filter_map(|s| GenericPurl::<String>::from_str(s).ok().map(|p| { let t = p.to_string(); (s.clone(), p, t) })).collect();
        if gv.len() != group.len() { ctx.violate("C19.scale", "scaled corpus strings are all accepted", json!(n), format!("{} of {}", gv.len(), group.len()), "all".into()); }
        pairs(ctx, &gv);
        let tv: Vec<(String, Purl, String)> = group.iter().map(|s| s.replace("pkg:t", "pkg:nuget").replace("pkg:T", "pkg:NUGET")).filter_map(|s| Purl::from_str(&s).ok().map(|p| { let t = p.to_string(); (s.clone(), p, t) })).collect();
        pairs(ctx, &tv);
    }
    // values made with the builder: fields that differ only in insignificant-looking ways must still be told apart
    let mut built: Vec<(String, GenericPurl<String>, String)> = vec![];
    let nss = ["", "a", "a/b", "a//b", "a/b/", "/a/b", "/", "a%2Fb", "A/b"];
    let subs = ["", "s", "s/", "/s", "./s", "s/../t", "s//t", "s/t"];
    let keys = ["k", "K", "k1", "arch", "Arch=x86", "arch=x86"];
    for ns in nss { for sub in subs { for (ki, key) in keys.iter().enumerate() {
        let mut b = GenericPurlBuilder::new("t".to_owned(), "n").with_namespace(ns).with_subpath(sub);
        if let Ok(nb) = b.clone().with_qualifier(*key, if ki % 2 == 0 { "x86=64" } else { "64" }) { b = nb; }
        if let Ok(Ok(p)) = guarded(|| b.build()) {
            if let Ok(t) = guarded(|| p.to_string()) { built.push((format!("builder ns={ns:?} sub={sub:?} key={key:?}"), p, t)); }
        }
    } } }
    // field texts that LOOK like escapes next to the texts those escapes stand for, in every component; a key set twice in
    // another letter case next to the same key set once
    let looks = [("%C3%A9", "é"), ("%41", "A"), ("%2F", "/"), ("a%20b", "a b"), ("%25", "%"), ("%2541", "%41"), ("x%", "x%25")];
    for (a, b) in looks { for pos in 0..5 { for t in [a, b] {
        let mut bd = GenericPurlBuilder::new("t".to_owned(), "n");
        bd = match pos { 0 => bd.with_namespace(t), 1 => bd.with_name(t), 2 => bd.with_version(t), 3 => bd.with_qualifier("k", t).unwrap(), _ => bd.with_subpath(t) };
        if let Ok(Ok(p)) = guarded(|| bd.build()) { if let Ok(s) = guarded(|| p.to_string()) { built.push((format!("builder field {pos} = {t:?}"), p, s)); } }
    } } }
    // an empty-valued qualifier next to no qualifier (set through the setter, and directly on the public list)
    for how in 0..3 {
        let mut bd = GenericPurlBuilder::new("t".to_owned(), "n");
        match how { 0 => {}, 1 => { bd = bd.with_qualifier("arch", "").unwrap(); }, _ => { let _ = bd.parts.qualifiers.insert("arch", ""); } }
        if let Ok(Ok(p)) = guarded(|| bd.build()) { if let Ok(s) = guarded(|| p.to_string()) { built.push((format!("builder empty qualifier, variant {how}"), p, s)); } }
    }
    for (k1, k2) in [("arch", "ARCH"), ("k", "K"), ("a.b", "A.B")] {
        for seq in [vec![(k1, "1")], vec![(k2, "1")], vec![(k1, "0"), (k2, "1")], vec![(k2, "0"), (k1, "1")], vec![(k1, "1"), (k1, "1")]] {
            let mut bd = GenericPurlBuilder::new("t".to_owned(), "n");
            for (k, v) in &seq { bd = bd.with_qualifier(*k, *v).unwrap(); }
            if let Ok(Ok(p)) = guarded(|| bd.build()) { if let Ok(s) = guarded(|| p.to_string()) { built.push((format!("builder qualifiers {seq:?}"), p, s)); } }
        }
    }
    pairs(ctx, &built);
    // built values with '&' / '=' in qualifier values vs separate qualifiers
    let x = GenericPurlBuilder::new("t".to_owned(), "n").with_qualifier("k", "a&l=c").unwrap().build().unwrap();
    let y = GenericPurlBuilder::new("t".to_owned(), "n").with_qualifier("k", "a").unwrap().with_qualifier("l", "c").unwrap().build().unwrap();
    ctx.eval();
    if (x == y) != (x.to_string() == y.to_string()) {
        ctx.violate("C19.eq", "equal exactly when the canonical strings are equal", json!({"a": "k='a&l=c'", "b": "k='a', l='c'"}), format!("{} vs {}", x, y), "different strings".into());
    }
    ctx.sample(json!({"a": "pkg:t/n?k=a%26l%3Dc", "b": "pkg:t/n?k=a&l=c"}));
    let _ = BTreeMap::<u8, u8>::new();
}

/// A: the assumed contracts on std / dependencies that the Verus proofs use, replayed against the real thing
pub fn suite_assumptions(ctx: &Ctx, thorough: bool) {
    for c in all_scalars() {
        ctx.eval();
        let lower: String = c.to_lowercase().collect();
        let inp = || json!(format!("U+{:04X}", c as u32));
        if c.is_ascii() {
            // axiom_ascii_to_lower
            if lower != c.to_ascii_lowercase().to_string() {
                ctx.violate("A.axiom_ascii_to_lower", "ASCII: to_lowercase == to_ascii_lowercase", inp(), lower.clone(), c.to_ascii_lowercase().to_string());
            }
        }
        // char method specs
        let (u, l, d) = (('A'..='Z').contains(&c), ('a'..='z').contains(&c), ('0'..='9').contains(&c));
        if c.is_ascii() != ((c as u32) < 128) || c.is_ascii_alphanumeric() != (u || l || d) || c.is_ascii_lowercase() != l || c.is_ascii_uppercase() != u
            || c.is_ascii_digit() != d || c.is_ascii_hexdigit() != (d || ('a'..='f').contains(&c) || ('A'..='F').contains(&c))
            || c.to_ascii_lowercase() != (if u { char::from_u32(c as u32 + 32).unwrap() } else { c })
        {
            ctx.violate("A.char_specs", "assumed char method specifications", inp(), "mismatch".into(), "match".into());
        }
        // x_lower_changes: c.to_lowercase().ne([c]) == (to_lower(c) != [c])
        if c.to_lowercase().ne([c]) != (lower != c.to_string()) {
            ctx.violate("A.x_lower_changes", "wrapper spec", inp(), "mismatch".into(), "match".into());
        }
        // per-char facts used by idempotence arguments: lower-casing is idempotent, never creates - _ .
        let twice: String = lower.chars().flat_map(|x| x.to_lowercase()).collect();
        if twice != lower {
            ctx.violate("A.lower_idempotent", "to_lowercase is idempotent per char", inp(), twice, lower.clone());
        }
        if lower.is_empty() {
            ctx.violate("A.axiom_lower_nonempty", "to_lowercase never yields the empty string", inp(), lower.clone(), "non-empty".into());
        }
        if c != ',' && lower.contains(',') {
            ctx.violate("A.lower_no_comma", "to_lowercase never produces ',' from another char", inp(), lower.clone(), "no comma".into());
        }
        if !matches!(c, '-' | '_' | '.') && lower.chars().any(|x| matches!(x, '-' | '_' | '.')) {
            ctx.violate("A.lower_no_dash", "to_lowercase never produces - _ . from another char", inp(), lower.clone(), "no dash".into());
        }
        // x_table_lookup (C15): what the key type of the name table, unicase, takes for equal -- EVERY char against every letter of the
        // seven names, through the real `==` (probe built by `UniCase::new`, key by `UniCase::ascii`, as PACKAGE_TYPES.get does) and
        // through the real Hash impl (the case folding phf hashes probes with): an ASCII char folds to its lower-case form, a
        // non-ASCII char never folds into name letters only (Kelvin sign, long s, dotted / dotless i, ligatures, full-width forms)
        {
            use std::hash::{Hash, Hasher};
            struct Rec(Vec<u8>);
            impl Hasher for Rec { fn finish(&self) -> u64 { 0 } fn write(&mut self, b: &[u8]) { self.0.extend_from_slice(b) } }
            const LETTERS: &str = "aceggilmnoprtuvy";
            let cs = c.to_string();
            let mut h = Rec(Vec::new());
            unicase::UniCase::unicode(cs.as_str()).hash(&mut h);
            let folded = String::from_utf8_lossy(&h.0).into_owned();
            if c.is_ascii() {
                if folded != c.to_ascii_lowercase().to_string() {
                    ctx.violate("A.unicase_fold", "an ASCII char folds to its ASCII lower-case form", inp(), folded.clone(), c.to_ascii_lowercase().to_string());
                }
            } else if !folded.is_empty() && folded.chars().all(|x| LETTERS.contains(x)) {
                ctx.violate("A.unicase_fold", "a non-ASCII char never folds into letters of the package-type names only", inp(), folded.clone(), "some other character".into());
            }
            for l in LETTERS.chars() {
                let ls = l.to_string();
                let want = c.is_ascii() && c.to_ascii_lowercase() == l;
                let probe = unicase::UniCase::new(cs.as_str());
                let key = unicase::UniCase::ascii(ls.as_str());
                if (key == probe) != want || (probe == key) != want {
                    ctx.violate("A.unicase_eq", "a one-char probe equals a one-letter key exactly when it is that letter in either ASCII case", json!({"c": format!("U+{:04X}", c as u32), "letter": ls}), format!("{}", key == probe), format!("{want}"));
                }
            }
        }
        // percent-encoding: per char homomorphism of the real encoder (assumed for strings longer than one char)
        ctx.nontrivial();
    }
    let alpha = ['a', '/', '#', '%', 'é', 'A'];
    for s in short_strings(&alpha, if thorough { 6 } else { 5 }) {
        ctx.eval();
        // trim / split / contains wrappers
        let t = s.trim_matches('/');
        let want: String = { let v: Vec<char> = s.chars().collect(); let a = v.iter().position(|c| *c != '/').unwrap_or(v.len()); let b = v.iter().rposition(|c| *c != '/').map(|x| x + 1).unwrap_or(a); v[a..b.max(a)].iter().collect() };
        if t != want { ctx.violate("A.x_trim_matches", "trim_spec", json!(s), t.to_owned(), want); }
        let r = s.rsplit_once('/');
        let idx = s.char_indices().filter(|(_, c)| *c == '/').map(|(i, _)| i).last();
        if r != idx.map(|i| (&s[..i], &s[i + 1..])) { ctx.violate("A.x_rsplit_once", "splits at the last occurrence", json!(s), format!("{r:?}"), format!("{idx:?}")); }
        let r = s.split_once('/');
        let idx = s.find('/');
        if r != idx.map(|i| (&s[..i], &s[i + 1..])) { ctx.violate("A.x_split_once", "splits at the first occurrence", json!(s), format!("{r:?}"), format!("{idx:?}")); }
        // encoder is char-wise for every set
        for id in 0..4 {
            let whole = verif_format::encode_with(id, &s);
            let parts: String = s.chars().map(|c| verif_format::encode_with(id, &c.to_string())).collect();
            if whole != parts { ctx.violate("A.encoder_charwise", "utf8_percent_encode is a per-char homomorphism", json!({"set": id, "s": s}), whole, parts); }
        }
        // decode(enc(s)) == s and a non-empty piece decodes to a non-empty string
        for id in 0..4 {
            let e = verif_format::encode_with(id, &s);
            if verif_parse::decode(&e).ok().as_deref() != Some(s.as_str()) { ctx.violate("A.decode_enc", "decode inverts encode", json!({"set": id, "s": s}), format!("{:?}", verif_parse::decode(&e).ok()), s.clone()); }
        }
        if !s.is_empty() { if let Ok(d) = verif_parse::decode(&s) { if d.is_empty() { ctx.violate("A.decode_nonempty", "non-empty decodes to non-empty", json!(s), "empty".into(), "non-empty".into()); } } }
        if verif_parse::decode(&s).ok().map(|c| c.into_owned()) != refimpl::decode(&s) { ctx.violate("A.decode", "decode == percent-decode + strict UTF-8", json!(s), format!("{:?}", verif_parse::decode(&s).ok()), format!("{:?}", refimpl::decode(&s))); }
        // comparator used by the sorted list: chars().cmp == byte-wise str cmp
        for s2 in ["a", "a/", "é", "A#", ""] {
            if s.chars().cmp(s2.chars()) != s.as_str().cmp(s2) { ctx.violate("A.cmp", "char-wise cmp == str cmp", json!([s, s2]), "differ".into(), "same".into()); }
        }
    }
    ctx.sample(json!("U+01C5"));
}

/// C18: combined names split and join at the ecosystem separator
pub fn suite_comb(ctx: &Ctx, thorough: bool) {
    let mut strs = short_strings(&['a', '/', ':', 'é', 'B', 'É'], if thorough { 6 } else { 5 });
    // SCALE: long namespaces / names, separators far from both ends, many separators
    for n in thresholds(thorough) {
        if n > 70000 { continue; }
        let big = inflate("ab", n);
        for sep in ["/", ":"] {
            strs.push(format!("{big}{sep}n")); strs.push(format!("g{sep}{big}")); strs.push(format!("{big}{sep}{big}"));
            strs.push(format!("{big}{sep}x{sep}{big}")); strs.push(format!("{sep}{big}")); strs.push(format!("{big}{sep}"));
            if n <= 1100 { strs.push(inflate(&format!("s{sep}"), 3 * n)); strs.push(format!("{}t", inflate(&format!("s{sep}"), 3 * n))); }
        }
        strs.push(big);
    }
    // Go major-version suffixes and other name-like last segments: the split is at the LAST '/', whatever follows it
    for base in ["a", "a/b", "github.com/x/y", ""] { for tail in ["v2", "v10", "v1beta1", "V2", "v", "2"] { strs.push(format!("{base}/{tail}")); strs.push(format!("{base}/{tail}/z")); } }
    // names whose lower-casing is context-sensitive if done on the whole string (word-final sigma), and title-case digraphs
    for w in ["ΟΔΟΣ", "aΣ", "Σ", "ΑΣ/ΟΔΟΣ", "x:ΟΔΟΣ", "ǅx", "A_.-b"] { strs.push(w.to_string()); }
    par_for(strs.len(), &|i| {
        let s = &strs[i];
        for t in all_package_types() {
            ctx.eval();
            let (wns, wname): (&str, &str) = match t {
                PackageType::Golang | PackageType::Npm => match s.rfind('/') { Some(i) => (&s[..i], &s[i + 1..]), None => ("", s.as_str()) },
                PackageType::Maven => match s.find(':') { Some(i) => (&s[..i], &s[i + 1..]), None => ("", s.as_str()) },
                _ => ("", s.as_str()),
            };
            let b = Purl::builder_with_combined_name(t, s.as_str());
            let inp = || json!({"type": t.name(), "combined": s});
            // the same split whatever the argument's kind (owned, borrowed, copy-on-write)
            for (kind, b2) in [("String", Purl::builder_with_combined_name(t, s.clone())), ("&String", Purl::builder_with_combined_name(t, s)),
                               ("Cow::Owned", Purl::builder_with_combined_name(t, std::borrow::Cow::<str>::Owned(s.clone()))),
                               ("Cow::Borrowed", Purl::builder_with_combined_name(t, std::borrow::Cow::Borrowed(s.as_str())))] {
                if b2.parts.namespace != b.parts.namespace || b2.parts.name != b.parts.name {
                    ctx.violate("U-comb.builder_with_combined_name", "split after the last '/' (golang, npm) / first ':' (maven) / not at all", json!({"type": t.name(), "combined": s, "argument": kind}), format!("{:?} {:?}", b2.parts.namespace, b2.parts.name), format!("{:?} {:?}", b.parts.namespace, b.parts.name));
                }
            }
            if b.parts.namespace.as_str() != wns || b.parts.name.as_str() != wname {
                ctx.violate("U-comb.builder_with_combined_name", "split after the last '/' (golang, npm) / first ':' (maven) / not at all", inp(), format!("{:?} {:?}", b.parts.namespace, b.parts.name), format!("{wns:?} {wname:?}"));
            }
            if let Ok(Ok(p)) = guarded(|| b.build()) {
                // the PURL that is built reports that split: build() leaves the namespace alone, and the name up to the type's own rule
                let name_kept = !matches!(t, PackageType::NuGet | PackageType::PyPI);
                // for nuget / pypi: the same name as the other route to the same fields gives (Purl::builder + with_namespace)
                let other_route = if name_kept { None } else {
                    guarded(|| { let b0 = Purl::builder(t, wname); if wns.is_empty() { b0.build() } else { b0.with_namespace(wns).build() } }).ok().and_then(|r| r.ok()).map(|q| q.name().to_owned())
                };
                if let Some(n2) = &other_route {
                    if p.name() != n2 {
                        ctx.violate("U-comb.builder_with_combined_name", "split after the last '/' (golang, npm) / first ':' (maven) / not at all", json!({"type": t.name(), "combined": s, "observed": "name after build(), against Purl::builder"}),
                                    format!("{:?}", p.name()), format!("{n2:?}"));
                    }
                }
                if p.namespace().unwrap_or("") != wns || (name_kept && p.name() != wname) {
                    ctx.violate("U-comb.builder_with_combined_name", "split after the last '/' (golang, npm) / first ':' (maven) / not at all", json!({"type": t.name(), "combined": s, "observed": "after build()"}),
                                format!("{:?} {:?}", p.namespace(), p.name()), format!("{wns:?} {wname:?}"));
                }
                // round trip under the side condition
                let ok_side = match t {
                    PackageType::Golang | PackageType::Npm => !p.name().contains('/'),
                    PackageType::Maven => !p.namespace().unwrap_or("").contains(':'),
                    _ => p.namespace().is_none(),
                };
                if ok_side {
                    ctx.nontrivial();
                    let c = p.combined_name().into_owned();
                    // fed back as the copy-on-write value combined_name() returns, and as a plain &str
                    let cow = p.combined_name();
                    let same_kind = guarded(|| Purl::builder_with_combined_name(t, cow).build());
                    if !matches!(&same_kind, Ok(Ok(p2)) if p2.namespace() == p.namespace() && p2.name() == p.name()) {
                        ctx.violate("U-comb.combined_name", "feeding combined_name() back reproduces namespace and name", inp(), format!("{c:?} (as returned) -> {:?}", same_kind.map(|r| r.map(|p| Obs::of(&p)))), format!("{:?}", Obs::of(&p)));
                    }
                    match guarded(|| Purl::builder_with_combined_name(t, c.as_str()).build()) {
                        Ok(Ok(p2)) if p2.namespace() == p.namespace() && p2.name() == p.name() => {},
                        other => ctx.violate("U-comb.combined_name", "feeding combined_name() back reproduces namespace and name", inp(), format!("{c:?} -> {:?}", other.map(|r| r.map(|p| Obs::of(&p)))), format!("{:?}", Obs::of(&p))),
                    }
                }
            }
        }
    });
    ctx.sample(json!({"type": "maven", "combined": "a:b:c/d"}));
}
