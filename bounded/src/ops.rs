//! O: operation sequences -- Qualifiers as a map (C11), builder (C09), checksum (C12), user shapes (C14, C04), panics (C06).

use std::borrow::Cow;
use std::cell::Cell;
use std::collections::hash_map::DefaultHasher;
use std::collections::{BTreeMap, BTreeSet, VecDeque};
use std::hash::{Hash, Hasher};
use std::str::FromStr;

use purl::qualifiers::well_known::Checksum;
use purl::qualifiers::{verif_qualifiers as vq, Entry};
use purl::{GenericPurl, GenericPurlBuilder, PackageError, PackageType, ParseError, Purl, PurlField, PurlParts, PurlShape, Qualifiers, SmallString};
use serde_json::json;

use crate::checks::*;
use crate::common::*;
use crate::refimpl;

type Model = BTreeMap<String, String>;

fn content(q: &Qualifiers) -> Vec<(String, String)> {
    // the key both ways it can be turned into text (as_str, and to_string through Deref<Target = str>)
    q.iter().map(|(k, v)| { let a = k.as_str().to_owned(); let b = k.to_string(); (if a == b { a } else { format!("{a}!={b}") }, v.to_owned()) }).collect()
}

fn model_of(c: &[(String, String)]) -> Model {
    c.iter().cloned().collect()
}

fn hh<T: Hash>(t: &T) -> u64 { let mut s = DefaultHasher::new(); t.hash(&mut s); s.finish() }

fn check_rep(ctx: &Ctx, q: &Qualifiers, m: &Model, what: &str) {
    let c = content(q);
    let want: Vec<(String, String)> = m.iter().map(|(k, v)| (k.clone(), v.clone())).collect();
    if c != want {
        ctx.violate("C11.content", "content equals the reference map, in ascending key order", json!(what), format!("{c:?}"), format!("{want:?}"));
    }
    let back: Vec<(String, String)> = q.iter().rev().map(|(k, v)| (k.as_str().to_owned(), v.to_owned())).collect();
    let mut w2 = want.clone();
    w2.reverse();
    if back != w2 || q.len() != m.len() || q.is_empty() != m.is_empty() || q.iter().len() != m.len() {
        ctx.violate("C11.iter", "iteration from the back, len, is_empty match", json!(what), format!("{back:?} len {}", q.len()), format!("{w2:?}"));
    }
    let raw = vq::raw(q);
    if raw.windows(2).any(|w| w[0].0.as_str() >= w[1].0.as_str()) {
        ctx.violate("C11.sorted", "storage strictly ascending", json!(what), format!("{c:?}"), "ascending".into());
    }
    // every key the collection holds can be indexed: `q[k]` panics only for an ABSENT qualifier (the documented panic of C06)
    for (k, v) in &c {
        match guarded(|| q[k.as_str()].clone()) {
            Ok(got) if got.as_str() == v => {},
            Ok(got) => ctx.violate("C11.index", "indexing returns the value; panics only when absent", json!({"after": what, "key": k}), format!("{got:?}"), format!("{v:?}")),
            Err(p) => ctx.violate("C06.panic", "indexing panics only when the qualifier is absent (the documented panic)", json!({"after": what, "content": format!("{c:?}"), "key": k}), p, "no panic: the key is present".into()),
        }
    }
}

/// C11: every reachable content over a small universe x every public operation, against a BTreeMap
pub fn suite_qualmap(ctx: &Ctx, thorough: bool) {
    // keys chosen so that prefixes, case variants, upper-case-then-digit, and every ordering-relevant character class
    // ('-' '.' digit '_' letter) meet each other
    let keys: Vec<&str> = if thorough { vec!["a", "A", "ab", "a_b", "a.b", "A1", "a-b", "b", "B", "", "!", "é", "a b", "Ab=c"] } else { vec!["a", "A", "ab", "a_b", "a.b", "A1", "", "!", "é", "Ab=c"] };
    qualmap_explore(ctx, thorough, keys, vec!["", "x", "y"], true);
    // the collection knows nothing about the MEANING of a key: the well-known keys, with values in upper case, with blanks around
    // them, are stored and returned verbatim like any other
    qualmap_explore(ctx, thorough, vec!["checksum", "Checksum", "vcs_url", "c"], vec!["", "SHA1:AB", " v ", "sha1:ab"], false);
}

fn qualmap_explore(ctx: &Ctx, thorough: bool, keys: Vec<&str>, vals: Vec<&str>, scale: bool) {
    let valid = |k: &str| refimpl::valid_key(k);
    let mut seen: BTreeSet<Vec<(String, String)>> = BTreeSet::new();
    let mut queue: VecDeque<Vec<(String, String)>> = VecDeque::new();
    seen.insert(vec![]);
    queue.push_back(vec![]);
    // SCALE: large contents (many keys, long keys, long values) go through the same operation block; their successors are
    // not explored further, and the probing keys are taken from the content itself (first, middle, last, case variant, absent ones)
    for n in thresholds(thorough) {
        if n > 1100 || n < 9 || !scale { continue; }
        queue.push_back((0..n).map(|i| (format!("k{i:05}"), format!("v{i}"))).collect());
        queue.push_back((0..9).map(|i| (format!("{}{i}", inflate("a", n)), inflate("V", n))).collect());
        queue.push_back((0..n).map(|i| (format!("{}{i:05}", ["a-", "a.", "a_", "a0", "aa"][i % 5]), String::from("w"))).collect::<BTreeMap<_, _>>().into_iter().collect());
    }
    let build = |c: &[(String, String)]| -> Qualifiers { Qualifiers::try_from_iter(c.iter().map(|(k, v)| (k.as_str(), v.as_str()))).expect("reachable content is constructible") };
    let mut states = 0u64;
    while let Some(c) = queue.pop_front() {
        states += 1;
        ctx.nontrivial();
        let m0 = model_of(&c);
        // once per content: predicates that drop SEVERAL entries (adjacent ones, the first, the last, every other one, by value),
        // with and without mutation; kept entries keep their value (also an empty one) and their order
        {
            ctx.eval();
            let n = c.len();
            for pick in 0..6usize {
                let drop_at = |i: usize, v: &str| match pick { 0 => i < 2, 1 => i + 2 >= n, 2 => i % 2 == 0, 3 => i % 2 == 1, 4 => v.is_empty(), _ => !v.is_empty() };
                let mut q = build(&c);
                let mut i = 0usize;
                q.retain(|_, v| { let d = drop_at(i, v); i += 1; !d });
                let m: Model = c.iter().enumerate().filter(|(i, (_, v))| !drop_at(*i, v)).map(|(_, (k, v))| (k.clone(), v.clone())).collect();
                check_rep(ctx, &q, &m, "retain(several)");
                let mut q = build(&c);
                let mut i = 0usize;
                q.retain_mut(|_, v| { let d = drop_at(i, v); i += 1; if !d && pick == 2 { v.push('~'); } !d });
                let m: Model = c.iter().enumerate().filter(|(i, (_, v))| !drop_at(*i, v)).map(|(_, (k, v))| (k.clone(), if pick == 2 { format!("{v}~") } else { v.clone() })).collect();
                check_rep(ctx, &q, &m, "retain_mut(several)");
            }
            // the iterator protocol of every iterator the collection hands out, against the plain list of pairs
            let q = build(&c);
            let want: Vec<(String, String)> = c.clone();
            let pairs = |it: &mut dyn Iterator<Item = (String, String)>| -> Vec<(String, String)> { it.collect() };
            let r = guarded(|| {
                let mut bad: Vec<String> = vec![];
                let own = |(k, v): (&purl::qualifiers::QualifierKey, &str)| (k.as_str().to_owned(), v.to_owned());
                if q.iter().last().map(own) != want.last().cloned() { bad.push("iter().last()".into()); }
                if q.iter().count() != n || q.iter().len() != n || q.iter().size_hint() != (n, Some(n)) { bad.push("count / len / size_hint".into()); }
                for k in 0..=n + 1 {
                    if q.iter().nth(k).map(own) != want.get(k).cloned() { bad.push(format!("nth({k})")); }
                    if q.iter().nth_back(k).map(own) != want.iter().rev().nth(k).cloned() { bad.push(format!("nth_back({k})")); }
                    if q.iter().rev().nth(k).map(own) != want.iter().rev().nth(k).cloned() { bad.push(format!("rev().nth({k})")); }
                    if q.iter().skip(k).map(own).collect::<Vec<_>>() != want.iter().skip(k).cloned().collect::<Vec<_>>() { bad.push(format!("skip({k})")); }
                    if q.iter().rev().skip(k).map(own).collect::<Vec<_>>() != want.iter().rev().skip(k).cloned().collect::<Vec<_>>() { bad.push(format!("rev().skip({k})")); }
                    // an iterator asked for more than it has is exhausted afterwards
                    let mut it = q.iter(); let _ = it.nth(k);
                    let left = n.saturating_sub(k + 1);
                    if it.len() != left || (left == 0 && it.next().is_some()) { bad.push(format!("after nth({k}): len {}", it.len())); }
                    let mut it = q.iter(); let _ = it.nth_back(k);
                    if it.len() != left { bad.push(format!("after nth_back({k}): len {}", it.len())); }
                }
                if q.iter().rev().last().map(own) != want.first().cloned() { bad.push("rev().last()".into()); }
                if q.iter().min_by_key(|(k, _)| k.as_str().to_owned()).map(own) != want.first().cloned() { bad.push("min".into()); }
                let mut it = q.iter(); let mut both: Vec<(String, String)> = vec![]; let mut back: Vec<(String, String)> = vec![];
                loop { match it.next() { Some(x) => both.push(own(x)), None => break } match it.next_back() { Some(x) => back.push(own(x)), None => break } }
                back.reverse(); both.extend(back);
                if both != want { bad.push("next / next_back interleaved".into()); }
                if (&q).into_iter().map(own).collect::<Vec<_>>() != want { bad.push("IntoIterator for &Qualifiers".into()); }
                let mut q2 = q.clone();
                if q2.iter_mut().map(|(k, v)| (k.as_str().to_owned(), v.to_string())).collect::<Vec<_>>() != want { bad.push("iter_mut()".into()); }
                if q2.iter_mut().last().map(|(k, v)| (k.as_str().to_owned(), v.to_string())) != want.last().cloned() { bad.push("iter_mut().last()".into()); }
                if q2.iter_mut().rev().map(|(k, v)| (k.as_str().to_owned(), v.to_string())).collect::<Vec<_>>() != want.iter().rev().cloned().collect::<Vec<_>>() { bad.push("iter_mut().rev()".into()); }
                if q2.iter_mut().len() != n { bad.push("iter_mut().len()".into()); }
                if q.clone().into_iter().map(|(k, v)| (k.as_str().to_owned(), v.to_string())).collect::<Vec<_>>() != want { bad.push("owned into_iter".into()); }
                bad
            });
            let _ = pairs;
            match r {
                Ok(bad) if bad.is_empty() => {},
                Ok(bad) => ctx.violate("C11.iter", "iteration from the back, len, is_empty match", json!({"content": format!("{c:?}")}), format!("{bad:?}"), "as the list of pairs".into()),
                Err(p) => ctx.violate("C06.panic", "iterating a qualifier collection never panics", json!({"content": format!("{c:?}")}), p, "no panic".into()),
            }
        }
        let big = c.len() > 8;
        let mut push = |q: &Qualifiers| { if big { return; } let n = content(q); if seen.insert(n.clone()) { queue.push_back(n); } };
        let probe: Vec<String> = if big {
            let mid = &c[c.len() / 2].0;
            vec![c[0].0.clone(), mid.clone(), c[c.len() - 1].0.clone(), mid.to_ascii_uppercase(), "a".into(), format!("{mid}x"), "zzz".into(), "".into(), format!("{mid}!")]
        } else { keys.iter().map(|k| k.to_string()).collect() };
        // construction agrees with the model, regardless of order and key case
        {
            let q = build(&c);
            check_rep(ctx, &q, &m0, "try_from_iter");
            let mut rev: Vec<(String, String)> = c.iter().map(|(k, v)| (k.to_ascii_uppercase(), v.clone())).collect();
            rev.reverse();
            let q2 = Qualifiers::try_from_iter(rev.iter().map(|(k, v)| (k.as_str(), v.as_str()))).unwrap();
            if q2 != q || hh(&q2) != hh(&q) || q2.cmp(&q) != std::cmp::Ordering::Equal {
                ctx.violate("C11.eq", "same content => equal, hash and order alike regardless of insertion order and key case", json!(format!("{c:?}")), format!("{:?}", content(&q2)), format!("{c:?}"));
            }
        }
        for k0 in &probe {
            let k: &&str = &k0.as_str();
            let lk = k.to_ascii_lowercase();
            // lookups
            {
                ctx.eval();
                let q = build(&c);
                let want = if valid(k) { m0.get(&lk).map(String::as_str) } else { None };
                if q.get(k) != want || q.contains_key(k) != want.is_some() {
                    ctx.violate("C11.get", "lookup equals the reference, independent of key case; invalid keys are absent", json!({"content": format!("{c:?}"), "key": k}), format!("{:?}", q.get(k)), format!("{want:?}"));
                }
                let idx = guarded(|| q[*k].clone());
                match (idx, want) {
                    (Ok(v), Some(w)) if v.as_str() == w => {},
                    (Err(_), None) => {},   // documented panic: indexing an absent qualifier
                    (o, w) => {
                        if o.is_err() && w.is_some() { ctx.violate("C06.panic", "indexing panics only when the qualifier is absent (the documented panic)", json!({"content": format!("{c:?}"), "key": k}), format!("{o:?}"), "no panic: the key is present".into()); }
                        ctx.violate("C11.index", "indexing returns the value; panics only when absent", json!({"content": format!("{c:?}"), "key": k}), format!("{o:?}"), format!("{w:?}"))
                    },
                }
            }
            // remove
            {
                ctx.eval();
                let mut q = build(&c);
                let mut m = m0.clone();
                let want = if valid(k) { m.remove(&lk) } else { None };
                let got = q.remove(k).map(|s| s.to_string());
                if got != want {
                    ctx.violate("C11.remove", "returned previous value is what the reference gives", json!({"content": format!("{c:?}"), "key": k}), format!("{got:?}"), format!("{want:?}"));
                }
                check_rep(ctx, &q, &m, "remove");
                push(&q);
            }
            // retain (case-insensitive key comparison through QualifierKey)
            {
                ctx.eval();
                let mut q = build(&c);
                let mut m = m0.clone();
                q.retain(|qk, _| qk != k);
                if valid(k) { m.remove(&lk); }
                check_rep(ctx, &q, &m, "retain");
                let mut q = build(&c);
                let mut m = m0.clone();
                q.retain_mut(|qk, v| { v.push('!'); qk == k });
                m.retain(|mk, _| valid(k) && *mk == lk);
                for v in m.values_mut() { v.push('!'); }
                check_rep(ctx, &q, &m, "retain_mut");
            }
            for v in &vals {
                // insert
                {
                    ctx.eval();
                    let mut q = build(&c);
                    let mut m = m0.clone();
                    let r = q.insert(*k, *v).map(|s| s.to_string());
                    if valid(k) {
                        m.insert(lk.clone(), v.to_string());
                        if r.as_deref().ok() != Some(*v) { ctx.violate("C11.insert", "insert returns the stored value", json!({"key": k, "value": v}), format!("{r:?}"), v.to_string()); }
                    } else if !matches!(r, Err(ParseError::InvalidQualifier)) {
                        ctx.violate("C11.insert", "invalid key refused with InvalidQualifier", json!({"key": k}), format!("{r:?}"), "Err(InvalidQualifier)".into());
                    }
                    check_rep(ctx, &q, &m, "insert");
                    push(&q);
                }
                // entry API
                {
                    ctx.eval();
                    let mut q = build(&c);
                    let mut m = m0.clone();
                    match q.entry(*k) {
                        Err(e) => { if valid(k) || !matches!(e, ParseError::InvalidQualifier) { ctx.violate("C11.entry", "entry refuses exactly the invalid keys", json!({"key": k}), format!("{e:?}"), "Ok".into()); } },
                        Ok(Entry::Occupied(mut o)) => {
                            if !valid(k) || !m.contains_key(&lk) { ctx.violate("C11.entry", "entry classification", json!({"content": format!("{c:?}"), "key": k}), "Occupied".into(), "Vacant / Err".into()); }
                            else {
                                if o.get() != m[&lk] { ctx.violate("C11.entry", "occupied entry reads the value", json!({"key": k}), o.get().to_owned(), m[&lk].clone()); }
                                let prev = o.insert(*v);
                                if prev.as_str() != m[&lk] { ctx.violate("C11.entry", "OccupiedEntry::insert returns the previous value", json!({"key": k}), prev.to_string(), m[&lk].clone()); }
                                m.insert(lk.clone(), v.to_string());
                                o.get_mut().push('+');
                                m.get_mut(&lk).unwrap().push('+');
                            }
                        },
                        Ok(Entry::Vacant(ve)) => {
                            if !valid(k) || m.contains_key(&lk) { ctx.violate("C11.entry", "entry classification", json!({"content": format!("{c:?}"), "key": k}), "Vacant".into(), "Occupied / Err".into()); }
                            else { let r = ve.insert(*v); if r.as_str() != *v { ctx.violate("C11.entry", "VacantEntry::insert returns the stored value", json!({"key": k}), r.to_string(), v.to_string()); } m.insert(lk.clone(), v.to_string()); }
                        },
                    }
                    check_rep(ctx, &q, &m, "entry");
                    // or_insert / and_modify / remove_entry
                    let mut q = build(&c);
                    let mut m = m0.clone();
                    if let Ok(e) = q.entry(*k) {
                        let r = e.and_modify(|s| s.push('~')).or_insert(*v);
                        let mv = m.entry(lk.clone()).and_modify(|s| s.push('~')).or_insert(v.to_string());
                        if r.as_str() != mv.as_str() { ctx.violate("C11.entry", "and_modify / or_insert behave like the reference", json!({"key": k}), r.to_string(), mv.clone()); }
                    }
                    check_rep(ctx, &q, &m, "and_modify.or_insert");
                    // a closure that empties the value: the entry stays (an empty value is a value), or_insert* must not replace it
                    let mut q = build(&c);
                    let mut m = m0.clone();
                    let r = guarded(|| { if let Ok(e) = q.entry(*k) { let x = e.and_modify(|s| s.clear()).or_insert_with(|| *v); x.push('+'); } });
                    if valid(k) { m.entry(lk.clone()).and_modify(|s| s.clear()).or_insert_with(|| v.to_string()).push('+'); }
                    if let Err(p) = r { ctx.violate("C06.panic", "and_modify / or_insert_with never panic", json!({"content": format!("{c:?}"), "key": k}), p, "no panic".into()); }
                    else { check_rep(ctx, &q, &m, "and_modify(clear).or_insert_with"); }
                    let mut q = build(&c);
                    let mut m = m0.clone();
                    if let Ok(Entry::Occupied(o)) = q.entry(*k) {
                        let (rk, rv) = o.remove_entry();
                        let mv = m.remove(&lk);
                        if rk.as_str() != lk || Some(rv.to_string()) != mv { ctx.violate("C11.entry", "remove_entry returns the stored pair", json!({"key": k}), format!("{rk:?} {rv:?}"), format!("{lk:?} {mv:?}")); }
                    }
                    check_rep(ctx, &q, &m, "remove_entry");
                    // OccupiedEntry::remove: the value comes back, the rest keeps its order
                    let mut q = build(&c);
                    let mut m = m0.clone();
                    if let Ok(Entry::Occupied(o)) = q.entry(*k) {
                        let rv = o.remove();
                        let mv = m.remove(&lk);
                        if Some(rv.to_string()) != mv { ctx.violate("C11.entry", "OccupiedEntry::remove returns the stored value", json!({"key": k}), format!("{rv:?}"), format!("{mv:?}")); }
                    }
                    check_rep(ctx, &q, &m, "OccupiedEntry::remove");
                }
                // get_mut / index_mut / iter_mut
                {
                    ctx.eval();
                    let mut q = build(&c);
                    let mut m = m0.clone();
                    match (q.get_mut(*k), if valid(k) { m.get_mut(&lk) } else { None }) {
                        (Some(a), Some(b)) => { *a = SmallString::from(*v); *b = v.to_string(); },
                        (None, None) => {},
                        (a, b) => ctx.violate("C11.get_mut", "get_mut finds exactly the reference's entries", json!({"key": k}), format!("{:?}", a.is_some()), format!("{:?}", b.is_some())),
                    }
                    for (_, val) in q.iter_mut() { val.push('#'); }
                    for val in m.values_mut() { val.push('#'); }
                    check_rep(ctx, &q, &m, "get_mut + iter_mut");
                    // IndexMut: writes through to the entry of that key in any letter case; panics only when absent (documented)
                    let present = valid(k) && m.contains_key(&lk);
                    let w = guarded(|| { q[*k] = SmallString::from("via-index-mut"); });
                    match (w, present) {
                        (Ok(()), true) => { m.insert(lk.clone(), "via-index-mut".to_string()); },
                        (Err(_), false) => {},
                        (o, _) => ctx.violate("C11.index", "index_mut writes to the entry of the key in any letter case; panics only when absent", json!({"content": format!("{c:?}"), "key": k}), format!("{o:?}"), format!("present={present}")),
                    }
                    check_rep(ctx, &q, &m, "index_mut");
                    push(&build(&c));
                }
            }
        }
        // typed accessors with user-defined keys: `Tag` (needs lower-casing) behaves as the key "tag"; an invalid declared key is simply absent
        {
            ctx.eval();
            let mut q = build(&c);
            let mut m = m0.clone();
            let r = guarded(|| {
                q.insert_typed(UpperTag("T1"));
                let a = q.get_typed::<UpperTag>().map(|t| t.0.to_owned());
                let b = q.contains_typed::<UpperTag>();
                let c2 = q.get("tag").map(str::to_owned);
                (a, b, c2)
            });
            m.insert("tag".into(), "T1".into());
            match r {
                Ok((a, b, c2)) => { if a.as_deref() != Some("T1") || !b || c2.as_deref() != Some("T1") { ctx.violate("C11.typed", "a typed qualifier is stored and found under its lower-cased declared key", json!({"content": format!("{c:?}")}), format!("{a:?} {b} {c2:?}"), "T1 true T1".into()); } },
                Err(p) => ctx.violate("C06.panic", "typed accessors with a valid declared key never panic", json!({"content": format!("{c:?}")}), p, "no panic".into()),
            }
            check_rep(ctx, &q, &m, "insert_typed(user key)");
            q.remove_typed::<UpperTag>(); m.remove("tag");
            check_rep(ctx, &q, &m, "remove_typed(user key)");
            let r = guarded(|| { let mut q2 = build(&c); q2.remove_typed::<BadKey>(); (q2.contains_typed::<BadKey>(), q2.get_typed::<BadKey>().is_some(), q2.len()) });
            match r {
                Ok((false, false, n)) if n == c.len() => {},
                other => ctx.violate("C06.panic", "looking up or unsetting a typed qualifier whose declared key is invalid neither panics nor changes the content", json!({"content": format!("{c:?}")}), format!("{other:?}"), "absent, unchanged".into()),
            }
        }
        // clear, duplicates in construction
        {
            let mut q = build(&c);
            q.clear();
            check_rep(ctx, &q, &Model::new(), "clear");
            if let Some((k, _)) = c.first() {
                let dup = vec![(k.clone(), "x".to_string()), (k.to_ascii_uppercase(), "y".to_string())];
                if Qualifiers::try_from_iter(dup.iter().map(|(k, v)| (k.as_str(), v.as_str()))).is_ok() {
                    ctx.violate("C11.dup", "construction refuses a key repeated in any case", json!(k), "Ok".into(), "Err".into());
                }
                // the same through an iterator without an exact size hint, and with the duplicate not adjacent
                let mut all: Vec<(String, String)> = c.clone();
                all.push((k.to_ascii_uppercase(), "y".to_string()));
                if Qualifiers::try_from_iter(all.iter().filter(|_| true).map(|(k, v)| (k.as_str(), v.as_str()))).is_ok() {
                    ctx.violate("C11.dup", "construction refuses a key repeated in any case (iterator with inexact size hint)", json!(k), "Ok".into(), "Err".into());
                }
                // exact size hint, the duplicate (with a different and with the same value) first, in the middle and last
                for dv in ["y", c[c.len() / 2].1.as_str()] {
                    for at in [0, c.len() / 2, c.len()] {
                        let mut all: Vec<(String, String)> = c.clone();
                        all.insert(at, (c[c.len() / 2].0.to_ascii_uppercase(), dv.to_string()));
                        ctx.eval();
                        if Qualifiers::try_from_iter(all.iter().map(|(k, v)| (k.as_str(), v.as_str()))).is_ok() {
                            ctx.violate("C11.dup", "construction refuses a key repeated in any case", json!({"pairs": all.len(), "duplicate_at": at, "duplicate_value": dv}), "Ok".into(), "Err".into());
                        }
                    }
                }
                // iterators whose size hint has nothing to do with what they yield
                {
                    ctx.eval();
                    let n = c.len();
                    let r = guarded(|| Qualifiers::try_from_iter((0..usize::MAX).take_while(|i| *i < n).map(|i| (c[i].0.as_str(), c[i].1.as_str()))));
                    match r { Ok(Ok(q)) => check_rep(ctx, &q, &m0, "try_from_iter(huge upper bound)"), other => ctx.violate("C06.panic", "construction from a lawful iterator with a huge size-hint upper bound neither panics nor fails", json!(n), format!("{:?}", other.map(|x| x.is_ok())), "Ok".into()) }
                    let mut i = 0usize;
                    let r = guarded(|| Qualifiers::try_from_iter(std::iter::from_fn(|| { let x = c.get(i).map(|(k, v)| (k.as_str(), v.as_str())); i += 1; x })));
                    match r { Ok(Ok(q)) => check_rep(ctx, &q, &m0, "try_from_iter(from_fn)"), other => ctx.violate("C06.panic", "construction from an iterator without a size hint neither panics nor fails", json!(n), format!("{:?}", other.map(|x| x.is_ok())), "Ok".into()) }
                }
                match Qualifiers::try_from_iter(c.iter().filter(|_| true).map(|(k, v)| (k.as_str(), v.as_str()))) {
                    Ok(q) => check_rep(ctx, &q, &m0, "try_from_iter(filter)"),
                    Err(_) => ctx.violate("C11.dup", "construction from distinct keys succeeds", json!(format!("{c:?}")), "Err".into(), "Ok".into()),
                }
            }
        }
        if states > if thorough { 200_000 } else { 20_000 } { break; }
    }
    // the well-known typed qualifiers: each type reads and writes exactly the qualifier of its documented key, exactly the text given
    {
        use purl::qualifiers::well_known::{gem, maven, DownloadUrl, FileName, RepositoryUrl, VcsUrl, KnownQualifierKey};
        macro_rules! typed { ($t:ty, $key:literal) => {{
            ctx.eval();
            let others: [(&str, &str); 9] = [("classifier", "c0"), ("type", "t0"), ("platform", "p0"), ("repository_url", "r0"), ("download_url", "d0"), ("vcs_url", "v0"), ("file_name", "f0"), ("checksum", "a:00"), ("zz", "z0")];
            let mut q = Qualifiers::try_from_iter(others).unwrap();
            let mut m: Model = others.iter().map(|(k, v)| (k.to_string(), v.to_string())).collect();
            let key_ok = <$t as KnownQualifierKey>::KEY == $key;
            let before = q.get_typed::<$t>().map(|x| x.to_string());
            for val in [" padded\t", "", "V"] {
                q.insert_typed(<$t>::from(val));
                m.insert($key.to_string(), val.to_string());
                let back = q.get_typed::<$t>().map(|x| x.to_string());
                if !key_ok || before.as_deref() != Some(others.iter().find(|(k, _)| *k == $key).unwrap().1) || back.as_deref() != Some(val) || q.get($key) != Some(val) || !q.contains_typed::<$t>() {
                    ctx.violate("C11.typed", "a well-known typed qualifier reads and writes the qualifier of its documented key, the text unchanged", json!({"type": stringify!($t), "key": $key, "value": val}), format!("KEY={:?} before={before:?} back={back:?} get={:?}", <$t as KnownQualifierKey>::KEY, q.get($key)), format!("{val:?}"));
                }
                check_rep(ctx, &q, &m, concat!("insert_typed ", stringify!($t)));
            }
            q.remove_typed::<$t>(); m.remove($key);
            check_rep(ctx, &q, &m, concat!("remove_typed ", stringify!($t)));
        }}; }
        typed!(RepositoryUrl, "repository_url"); typed!(DownloadUrl, "download_url"); typed!(VcsUrl, "vcs_url"); typed!(FileName, "file_name");
        typed!(maven::Classifier, "classifier"); typed!(maven::Type, "type"); typed!(gem::Platform, "platform");
    }
    // ONE reused buffer holding one key after another (same address, same length): a verdict must depend on the text only
    {
        let ks = ["arch", "a ch", "ARCH", "arcH", "ar.h", "a=ch", "os-x", "OS_X", "o s="];
        for k1 in ks { for k2 in ks {
            ctx.eval();
            let mut buf = String::with_capacity(16);
            let mut q = Qualifiers::default();
            let mut m = Model::new();
            for (round, k) in [k1, k2, k1].iter().enumerate() {
                buf.clear(); buf.push_str(k);
                let val = format!("v{round}");
                let r = q.insert(buf.as_str(), val.as_str()).map(|_| ());
                if valid(k) { m.insert(k.to_ascii_lowercase(), val.clone()); }
                if r.is_ok() != valid(k) { ctx.violate("C11.insert", "invalid key refused with InvalidQualifier", json!({"buffer_held": [k1, k2, k1], "round": round}), format!("{r:?}"), format!("valid={}", valid(k))); }
                let got = q.get(buf.as_str()).map(str::to_owned);
                let want = if valid(k) { m.get(&k.to_ascii_lowercase()).cloned() } else { None };
                if got != want { ctx.violate("C11.get", "lookup equals the reference, independent of key case; invalid keys are absent", json!({"buffer_held": [k1, k2, k1], "round": round}), format!("{got:?}"), format!("{want:?}")); }
            }
            check_rep(ctx, &q, &m, "keys from one reused buffer");
        } }
    }
    ctx.sample(json!({"reachable_contents": states}));
    ctx.sample(json!([["a", "x"], ["a.b", ""], ["b", "y"]]));
}

// ---- C09: builder sequences ----
#[derive(Clone, Debug, PartialEq)]
enum Op { Ns(&'static str), Name(&'static str), Ver(&'static str), Sub(&'static str), Ty(&'static str), Q(&'static str, &'static str), NoQ(&'static str), NoQs, NoNs, NoVer, NoSub,
          /// typed setters and direct use of the builder's public qualifier list
          TRepo(&'static str), NoTRepo, TTag(&'static str), NoTTag, NoTBad, RawQ(&'static str, &'static str), RawClear(&'static str),
          /// overwrite an EXISTING qualifier through IndexMut, resp. set one through the entry API
          RawIdx(&'static str, &'static str), RawEntry(&'static str, &'static str),
          /// build() and convert the value back into a builder (a failed build leaves the builder as it was)
          Rebuild,
          /// the fallible typed setter with a checksum that converts (TCkOk) and one that does not (TCkBad: odd number of hex digits)
          TCkOk, TCkBad,
          /// a typed checksum whose algorithm label itself contains ':' (the text form splits at the LAST ':')
          TCkColon }

#[derive(Clone, Debug, Default)]
struct BModel { ty: String, ns: String, name: String, ver: String, sub: String, q: BTreeMap<String, String>, bad_key: bool }

fn sig_ns(s: &str) -> Option<String> { let v: Vec<&str> = s.split('/').filter(|x| !x.is_empty()).collect(); if v.is_empty() { None } else { Some(v.join("/")) } }
fn sig_sub(s: &str) -> Option<String> { let v: Vec<&str> = s.split('/').filter(|x| !x.is_empty() && *x != "." && *x != "..").collect(); if v.is_empty() { None } else { Some(v.join("/")) } }

pub fn suite_builder(ctx: &Ctx, thorough: bool) {
    let strs: [&'static str; 9] = ["", "a", "A b", "x/y", "@?#%&=+", "é/../.", "/", "%2F", "a/.../.b"];
    let mut ops: Vec<Op> = vec![Op::NoQs, Op::NoNs, Op::NoVer, Op::NoSub];
    for s in strs { ops.push(Op::Ns(s)); ops.push(Op::Name(s)); ops.push(Op::Ver(s)); ops.push(Op::Sub(s)); }
    for t in ["t", "T+1", "bad type", ""] { ops.push(Op::Ty(t)); }
    for k in ["k", "K", "b.c", "bad key", ""] { for v in ["", "v", "a&b=c"] { ops.push(Op::Q(k, v)); } ops.push(Op::NoQ(k)); }
    ops.push(Op::Q("checksum", "SHA1:AB")); ops.push(Op::Q("checksum", "sha1:xyz")); ops.push(Op::Q("checksum", "sha1:0g")); ops.push(Op::Q("checksum", "sha1:abc")); ops.push(Op::Q("checksum", "")); ops.push(Op::Q("CheckSum", ""));
    ops.push(Op::NoQ("CHECKSUM"));
    ops.push(Op::TRepo("")); ops.push(Op::TRepo("u")); ops.push(Op::NoTRepo); ops.push(Op::TTag("t")); ops.push(Op::NoTTag); ops.push(Op::NoTBad);
    ops.push(Op::RawQ("r", "")); ops.push(Op::RawQ("K", "raw")); ops.push(Op::RawClear("k"));
    ops.push(Op::Ns("a///b")); ops.push(Op::Sub("x////y/"));
    ops.push(Op::TRepo(" r\t")); ops.push(Op::Rebuild);
    ops.push(Op::TCkOk); ops.push(Op::TCkBad); ops.push(Op::TCkColon); ops.push(Op::Q("checksum", "md5:+a+B")); ops.push(Op::Q("checksum", "\u{413}\u{41e}\u{421}\u{422}:00,\u{433}\u{43e}\u{441}\u{442}:11")); ops.push(Op::NoQ("\u{212A}")); ops.push(Op::Q("\u{212A}", "v"));
    ops.push(Op::RawIdx("checksum", "SHA256:AABB,md5:00FF")); ops.push(Op::RawIdx("Checksum", "sha256:xyz")); ops.push(Op::RawEntry("checksum", "B:00,a:11")); ops.push(Op::RawEntry("k", ""));
    let len = if thorough { 4 } else { 3 };
    let n = ops.len();
    let total = (1..=len).map(|l| n.pow(l as u32)).sum::<usize>();
    par_for(total, &|mut idx| {
        let mut l = 1; let mut block = n;
        while idx >= block { idx -= block; l += 1; block = n.pow(l as u32); }
        let mut seq = vec![];
        for _ in 0..l { seq.push(ops[idx % n].clone()); idx /= n; }
        builder_one(ctx, seq);
    });
    // qualifier calls in depth: every sequence of <= 5 / 6 set / unset calls over keys that meet in every order and letter case
    // (a bug that needs three inserts, a removal and another insert to show is out of reach of the general sequences above)
    {
        let mut qops: Vec<Op> = vec![];
        for k in ["a", "b", "c", "B"] { qops.push(Op::Q(k, "x")); qops.push(Op::NoQ(k)); }
        qops.push(Op::Q("c", "")); qops.push(Op::TTag("t")); qops.push(Op::RawClear("b")); qops.push(Op::Rebuild);
        qops.push(Op::Q("checksum", "sha1:ab")); qops.push(Op::RawIdx("checksum", "SHA256:AABB,md5:00FF")); qops.push(Op::RawIdx("checksum", "sha256:xyz"));
        let depth = if thorough { 6 } else { 5 };
        let nq = qops.len();
        let total_q = (1..=depth).map(|l| nq.pow(l as u32)).sum::<usize>();
        par_for(total_q, &|mut idx| {
            let mut l = 1; let mut block = nq;
            while idx >= block { idx -= block; l += 1; block = nq.pow(l as u32); }
            let mut seq = vec![];
            for _ in 0..l { seq.push(qops[idx % nq].clone()); idx /= nq; }
            builder_one(ctx, seq);
        });
    }
    // SCALE: the same oracle on single calls (and pairs with a second field) whose argument is grown across the size thresholds
    let mut big: Vec<&'static str> = vec![];
    for n in thresholds(thorough) {
        if n > 4200 { continue; }
        for u in ["a", "B.", "é", "/x", "%", " ", "//", "a//"] {
            let b = inflate(u, n);
            big.push(Box::leak(format!("{b}Z").into_boxed_str()));
            big.push(Box::leak(format!("Z{b}").into_boxed_str()));
            big.push(Box::leak(b.into_boxed_str()));
        }
    }
    par_for(big.len(), &|i| {
        let s = big[i];
        for op in [Op::Ns(s), Op::Name(s), Op::Ver(s), Op::Sub(s), Op::Q("k", s), Op::Q(s, "v"), Op::Ty(s)] {
            builder_one(ctx, vec![op.clone()]);
            builder_one(ctx, vec![op.clone(), Op::Q("checksum", "SHA1:AB")]);
            builder_one(ctx, vec![Op::Ns("x/y"), op.clone(), Op::Sub("s/t")]);
            builder_one(ctx, vec![op.clone(), op.clone()]);
        }
    });
    // commutation of calls on different fields, override of same field
    let a = GenericPurlBuilder::new("t".to_owned(), "n").with_version("1").with_namespace("x").with_subpath("s").build().unwrap();
    let b = GenericPurlBuilder::new("t".to_owned(), "n").with_subpath("s").with_namespace("y").with_namespace("x").with_version("1").build().unwrap();
    if a != b { ctx.violate("C09.commute", "calls on different fields commute; later calls override", json!("version/namespace/subpath"), format!("{:?}", Obs::of(&b)), format!("{:?}", Obs::of(&a))); }
    ctx.sample(json!("[Ns(\"x/y\"), Q(\"K\", \"a&b=c\")]"));
}

fn builder_one(ctx: &Ctx, seq: Vec<Op>) {
    {
        ctx.eval();
        let mut m = BModel { ty: "t0".into(), name: "n0".into(), ..Default::default() };
        let mut rebuilt: Vec<bool> = vec![];
        let mut b = Some(GenericPurlBuilder::new("t0".to_owned(), "n0"));
        for op in &seq {
            let cur = b.take().unwrap();
            b = Some(match op {
                Op::Ns(s) => { m.ns = s.to_string(); cur.with_namespace(*s) },
                Op::Name(s) => { m.name = s.to_string(); cur.with_name(*s) },
                Op::Ver(s) => { m.ver = s.to_string(); cur.with_version(*s) },
                Op::Sub(s) => { m.sub = s.to_string(); cur.with_subpath(*s) },
                Op::Ty(s) => { m.ty = s.to_string(); cur.with_package_type(s.to_string()) },
                Op::NoNs => { m.ns.clear(); cur.without_namespace() },
                Op::NoVer => { m.ver.clear(); cur.without_version() },
                Op::NoSub => { m.sub.clear(); cur.without_subpath() },
                Op::NoQs => { m.q.clear(); cur.without_qualifiers() },
                Op::NoQ(k) => { if refimpl::valid_key(k) { m.q.remove(&k.to_ascii_lowercase()); } cur.without_qualifier(*k) },
                Op::TRepo(u) => { m.q.insert("repository_url".into(), u.to_string()); cur.with_typed_qualifier(Some(purl::qualifiers::well_known::RepositoryUrl::from(*u))) },
                Op::NoTRepo => { m.q.remove("repository_url"); cur.with_typed_qualifier(None::<purl::qualifiers::well_known::RepositoryUrl>) },
                Op::TTag(u) => { m.q.insert("tag".into(), u.to_string()); cur.with_typed_qualifier(Some(UpperTag(u))) },
                Op::NoTTag => { m.q.remove("tag"); cur.with_typed_qualifier(None::<UpperTag>) },
                // unsetting a typed qualifier whose declared key is not a valid key: nothing to unset, and no panic (only INSERTING one is a documented panic)
                Op::NoTBad => { let c2 = cur.clone(); match guarded(move || c2.with_typed_qualifier(None::<BadKey>)) { Ok(nb) => nb, Err(p) => { ctx.violate("C06.panic", "unsetting a typed qualifier never panics", json!(format!("{seq:?}")), p, "no panic".into()); cur } } },
                Op::TCkOk => {
                    let mut c = purl::qualifiers::well_known::Checksum::default(); c.insert_raw("SHA1", "AB".to_string());
                    match guarded(|| cur.clone().try_with_typed_qualifier(Some(c))) {
                        Ok(Ok(nb)) => { m.q.insert("checksum".into(), "sha1:ab".into()); nb },
                        other => { ctx.violate("C09.typed", "the fallible typed setter stores a value that converts", json!(format!("{seq:?}")), format!("{:?}", other.map(|r| r.is_ok())), "Ok".into()); cur },
                    }
                },
                Op::TCkColon => {
                    let mut c = purl::qualifiers::well_known::Checksum::default(); c.insert_raw("SHA512:256", "AB".to_string());
                    // the same label again in the other letter case (non-ASCII as well) replaces, it does not add
                    c.insert_raw("\u{413}\u{41e}\u{421}\u{422}", "00".to_string()); c.insert_raw("\u{433}\u{43e}\u{441}\u{442}", "11".to_string()); c.insert_raw("\u{413}\u{41e}\u{421}\u{422}", "22".to_string());
                    if c.iter().count() != 2 { ctx.violate("C09.typed", "the fallible typed setter stores a value that converts", json!(format!("{seq:?}")), format!("{} entries after re-inserting one label in both letter cases", c.iter().count()), "2".into()); }
                    c.remove("\u{433}\u{43e}\u{441}\u{442}");
                    match guarded(|| cur.clone().try_with_typed_qualifier(Some(c))) {
                        Ok(Ok(nb)) => { m.q.insert("checksum".into(), "sha512:256:ab".into()); nb },
                        other => { ctx.violate("C09.typed", "the fallible typed setter stores a value that converts", json!(format!("{seq:?}")), format!("{:?}", other.map(|r| r.is_ok())), "Ok".into()); cur },
                    }
                },
                Op::TCkBad => {
                    let mut c = purl::qualifiers::well_known::Checksum::default(); c.insert_raw("sha1", "abc".to_string());
                    match guarded(|| cur.clone().try_with_typed_qualifier(Some(c))) {
                        Ok(Err(_)) => cur,           // refused: the builder the caller still holds is unchanged
                        other => { ctx.violate("C09.typed", "the fallible typed setter refuses a value that does not convert, and sets nothing", json!(format!("{seq:?}")), format!("{:?}", other.map(|r| r.is_ok())), "Err".into()); cur },
                    }
                },
                Op::RawQ(k, v) => { let mut c2 = cur; if c2.parts.qualifiers.insert(*k, *v).is_ok() { m.q.insert(k.to_ascii_lowercase(), v.to_string()); } c2 },
                Op::RawClear(k) => { let mut c2 = cur; if let Some(v) = c2.parts.qualifiers.get_mut(*k) { v.clear(); m.q.insert(k.to_ascii_lowercase(), String::new()); } c2 },
                Op::Rebuild => {
                    let built = guarded(|| cur.clone().build());
                    rebuilt.push(matches!(&built, Ok(Ok(_))));
                    match built {
                        Ok(Ok(p)) => {
                            // what build() hands out: type lower-cased, empty values dropped, checksum canonical
                            m.ty = m.ty.to_ascii_lowercase();
                            m.q.retain(|_, v| !v.is_empty());
                            if let Some(c) = m.q.get("checksum").cloned() { if let Some(cc) = refimpl::checksum_canon(&c) { m.q.insert("checksum".into(), cc); } }
                            p.into_builder()
                        },
                        _ => cur,
                    }
                },
                Op::RawIdx(k, v) => { let mut c2 = cur; if c2.parts.qualifiers.contains_key(*k) { c2.parts.qualifiers[*k] = SmallString::from(*v); m.q.insert(k.to_ascii_lowercase(), v.to_string()); } c2 },
                Op::RawEntry(k, v) => { let mut c2 = cur; if let Ok(e) = c2.parts.qualifiers.entry(*k) { *e.and_modify(|x| x.clear()).or_insert("") = SmallString::from(*v); m.q.insert(k.to_ascii_lowercase(), v.to_string()); } c2 },
                Op::Q(k, v) => {
                    let snapshot = cur.clone();
                    match cur.with_qualifier(*k, *v) {
                        Ok(nb) => { if !refimpl::valid_key(k) { ctx.violate("C09.key", "invalid qualifier key is refused", json!(format!("{seq:?}")), "Ok".into(), "Err".into()); } m.q.insert(k.to_ascii_lowercase(), v.to_string()); nb },
                        Err(_) => { if refimpl::valid_key(k) { ctx.violate("C09.key", "valid qualifier key is accepted", json!(format!("{seq:?}")), "Err".into(), "Ok".into()); } snapshot },
                    }
                },
            });
        }
        let b = b.unwrap();
        let inp = || json!(format!("{seq:?}"));
        let cks = m.q.get("checksum").filter(|v| !v.is_empty()).map(|c| refimpl::checksum_canon(c));
        let should = !m.name.is_empty() && refimpl::valid_type(&m.ty) && !matches!(cks, Some(None));
        match guarded(|| b.build()) {
            Err(p) => ctx.violate("C06.panic", "build never panics", inp(), p, "no panic".into()),
            Ok(Err(e)) => { if should { ctx.violate("C09.build", "build succeeds exactly when name non-empty, type valid, checksum well-formed", inp(), format!("Err({e:?})"), "Ok".into()); } },
            Ok(Ok(p)) => {
                if !should { ctx.violate("C09.build", "build succeeds exactly when name non-empty, type valid, checksum well-formed", inp(), "Ok".into(), "Err".into()); return; }
                ctx.nontrivial();
                let o = Obs::of(&p);
                let mut wq: BTreeMap<String, String> = m.q.iter().filter(|(_, v)| !v.is_empty()).map(|(k, v)| (k.clone(), v.clone())).collect();
                if let Some(Some(c)) = &cks { wq.insert("checksum".into(), c.clone()); }
                let ok = o.ty == m.ty.to_ascii_lowercase() && o.name == m.name
                    && o.namespace == Some(m.ns.clone()).filter(|s| !s.is_empty()) && o.version == Some(m.ver.clone()).filter(|s| !s.is_empty())
                    && o.subpath == Some(m.sub.clone()).filter(|s| !s.is_empty()) && o.qualifiers.iter().cloned().collect::<BTreeMap<_, _>>() == wq;
                if !ok { ctx.violate("C09.fields", "accessors return what was last set for each field", inp(), format!("{o:?}"), format!("{m:?}")); }
                if let Some(Some(c)) = &cks { if p.qualifiers().get("checksum") != Some(c.as_str()) { ctx.violate("C12.purl", "a PURL carries the one canonical text", inp(), format!("{:?}", p.qualifiers().get("checksum")), c.clone()); } }
                check_valid(ctx, &format!("{seq:?}"), "builder", &p, true);
                let text = p.to_string();
                match parse_string(&text) {
                    Ok(Ok(p2)) => {
                        let o2 = Obs::of(&p2);
                        let mut w = o.clone();
                        w.namespace = o.namespace.as_deref().and_then(sig_ns);
                        w.subpath = o.subpath.as_deref().and_then(sig_sub);
                        if o2 != w { ctx.violate("C09.reparse", "the string form yields the same field values", inp(), format!("{text:?} -> {o2:?}"), format!("{w:?}")); }
                    },
                    other => ctx.violate("C09.reparse", "the string form is accepted by the parser", inp(), format!("{text:?} -> {:?}", other.map(|r| r.map(|p| Obs::of(&p)))), "Ok".into()),
                }
                check_roundtrip(ctx, &format!("{seq:?}"), "String", &p, "C10 C19");
            },
        }
        // typed: same sequence on PackageType::Maven / NuGet where the type is not changed
        if !seq.iter().any(|o| matches!(o, Op::Ty(_))) {
            for t in [PackageType::Maven, PackageType::NuGet, PackageType::PyPI, PackageType::Npm] {
                let mut tb = Purl::builder(t, "n0");
                // a Rebuild step that succeeds for the type-agnostic builder and fails for this type (or the reverse: the Maven rule, the
                // initial name) leaves the two builders in different states: the model, which follows the type-agnostic one, says nothing
                // about this type from there on
                let (mut ri, mut diverged) = (0usize, false);
                for op in &seq {
                    if let Op::Rebuild = op {
                        let ok = matches!(guarded(|| tb.clone().build()), Ok(Ok(_)));
                        if rebuilt.get(ri) != Some(&ok) { diverged = true; }
                        ri += 1;
                    }
                    tb = match op {
                        Op::Ns(s) => tb.with_namespace(*s), Op::Name(s) => tb.with_name(*s), Op::Ver(s) => tb.with_version(*s), Op::Sub(s) => tb.with_subpath(*s),
                        Op::NoNs => tb.without_namespace(), Op::NoVer => tb.without_version(), Op::NoSub => tb.without_subpath(), Op::NoQs => tb.without_qualifiers(),
                        Op::NoQ(k) => tb.without_qualifier(*k), Op::Q(k, v) => { let s = tb.clone(); tb.with_qualifier(*k, *v).unwrap_or(s) }, Op::Ty(_) => tb,
                        Op::TRepo(u) => tb.with_typed_qualifier(Some(purl::qualifiers::well_known::RepositoryUrl::from(*u))), Op::NoTRepo => tb.with_typed_qualifier(None::<purl::qualifiers::well_known::RepositoryUrl>),
                        Op::TTag(u) => tb.with_typed_qualifier(Some(UpperTag(u))), Op::NoTTag => tb.with_typed_qualifier(None::<UpperTag>), Op::NoTBad => tb,
                        Op::RawQ(k, v) => { let mut c2 = tb; let _ = c2.parts.qualifiers.insert(*k, *v); c2 },
                        Op::RawClear(k) => { let mut c2 = tb; if let Some(v) = c2.parts.qualifiers.get_mut(*k) { v.clear(); } c2 },
                        Op::Rebuild => { match guarded(|| tb.clone().build()) { Ok(Ok(p)) => p.into_builder(), _ => tb } },
                        Op::RawIdx(k, v) => { let mut c2 = tb; if c2.parts.qualifiers.contains_key(*k) { c2.parts.qualifiers[*k] = SmallString::from(*v); } c2 },
                        Op::RawEntry(k, v) => { let mut c2 = tb; if let Ok(e) = c2.parts.qualifiers.entry(*k) { *e.and_modify(|x| x.clear()).or_insert("") = SmallString::from(*v); } c2 },
                        Op::TCkOk => { let mut c = purl::qualifiers::well_known::Checksum::default(); c.insert_raw("SHA1", "AB".to_string()); let s0 = tb.clone(); tb.try_with_typed_qualifier(Some(c)).unwrap_or(s0) },
                        Op::TCkBad => { let mut c = purl::qualifiers::well_known::Checksum::default(); c.insert_raw("sha1", "abc".to_string()); let s0 = tb.clone(); tb.try_with_typed_qualifier(Some(c)).unwrap_or(s0) },
                        Op::TCkColon => { let mut c = purl::qualifiers::well_known::Checksum::default(); c.insert_raw("SHA512:256", "AB".to_string()); let s0 = tb.clone(); tb.try_with_typed_qualifier(Some(c)).unwrap_or(s0) },
                    };
                }
                if diverged { continue; }
                let rule_ok = t != PackageType::Maven || sig_ns(&m.ns).is_some();
                let should = !m.name.is_empty() && !matches!(cks, Some(None)) && rule_ok;
                match guarded(|| tb.build()) {
                    Err(p) => ctx.violate("C06.panic", "build never panics", inp(), p, "no panic".into()),
                    Ok(Err(e)) => { if should { ctx.violate("C09.build.typed", "build succeeds exactly when the name is non-empty and the type's rule is satisfied", inp(), format!("{t:?}: Err({e:?})"), "Ok".into()); } },
                    Ok(Ok(p)) => {
                        if !should { ctx.violate("C09.build.typed", "build succeeds exactly when the name is non-empty and the type's rule is satisfied", inp(), format!("{t:?}: Ok"), "Err".into()); continue; }
                        let text = p.to_string();
                        match parse_typed(&text) {
                            Ok(Ok(p2)) => {
                                let (o, o2) = (Obs::of(&p), Obs::of(&p2));
                                let mut w = o.clone();
                                w.namespace = o.namespace.as_deref().and_then(sig_ns);
                                w.subpath = o.subpath.as_deref().and_then(sig_sub);
                                if o2 != w { ctx.violate("C09.reparse.typed", "the string form yields the same field values", inp(), format!("{text:?} -> {o2:?}"), format!("{w:?}")); }
                            },
                            other => ctx.violate("C09.reparse.typed", "the string form is accepted by the parser", inp(), format!("{text:?} -> {:?}", other.map(|r| r.map(|p| Obs::of(&p)))), "Ok".into()),
                        }
                        check_roundtrip(ctx, &format!("{seq:?}"), "PackageType", &p, "C10 C19");
                    },
                }
            }
        }
    }
}

// ---- C12: checksum ----
pub fn suite_checksum(ctx: &Ctx, thorough: bool) {
    // includes names that are prefixes of one another followed by a character below ':' (sorting whole entries != sorting names)
    let algs: [&str; 10] = ["a", "A", "a-1", "a:b", "é", "Æ", "ǅ", "sha3", "sha3-256", "a.b"];
    let bytes: [&[u8]; 5] = [b"", b"\x00", b"\xAB", b"\x01\xFF", b"abc"];
    let n = algs.len() * bytes.len();
    let len = if thorough { 4 } else { 3 };
    let total = (0..=len).map(|l| n.pow(l as u32)).sum::<usize>();
    par_for(total, &|mut idx| {
        let mut l = 0; let mut block = 1;
        while idx >= block { idx -= block; l += 1; block = n.pow(l as u32); }
        let mut seq: Vec<(&'static str, &'static [u8])> = vec![];
        for _ in 0..l { let e = idx % n; idx /= n; seq.push((algs[e / bytes.len()], bytes[e % bytes.len()])); }
        checksum_one(ctx, seq);
    });
    // SCALE: many algorithms (inserted ascending, descending, interleaved, with a case variant replacing one), long names, long values
    let mut big: Vec<Vec<(&'static str, &'static [u8])>> = vec![];
    let leak_s = |s: String| -> &'static str { Box::leak(s.into_boxed_str()) };
    let leak_b = |b: Vec<u8>| -> &'static [u8] { Box::leak(b.into_boxed_slice()) };
    for n in thresholds(thorough) {
        if n > 1100 { continue; }
        let names: Vec<&'static str> = (0..n).map(|i| leak_s(format!("Alg-{i:05}"))).collect();
        let vals: Vec<&'static [u8]> = (0..n).map(|i| leak_b(vec![(i % 251) as u8; i % 4])).collect();
        let asc: Vec<_> = (0..n).map(|i| (names[i], vals[i])).collect();
        let mut desc = asc.clone(); desc.reverse();
        let mut inter: Vec<_> = (0..n).map(|i| asc[(i * 7 + 3) % n]).collect();
        inter.push((leak_s(names[n / 2].to_uppercase()), leak_b(vec![0xEE; 3])));
        big.push(asc); big.push(desc); big.push(inter);
        // one long name, one long value
        big.push(vec![(leak_s(inflate("Xy", n)), leak_b(vec![0xAB; 2])), ("a", leak_b((0..n).map(|i| (i * 37 % 256) as u8).collect()))]);
        big.push(vec![(leak_s(format!("{}É", inflate("q", n))), leak_b(vec![1])), (leak_s(format!("{}é", inflate("Q", n))), leak_b(vec![2]))]);
    }
    // context-sensitive lower-casing (a word-final capital sigma): the algorithm name is lower-cased character by character
    big.push(vec![("ΑΣ", leak_b(vec![1])), ("ασ", leak_b(vec![2]))]);
    big.push(vec![("ασ", leak_b(vec![1])), ("ΑΣ", leak_b(vec![2])), ("Σ", leak_b(vec![3])), ("ΣΑ", leak_b(vec![4]))]);
    // names are kept as given (lower-cased, nothing else): blanks around a name are part of it, on every route
    big.push(vec![(" a", leak_b(vec![1])), ("a", leak_b(vec![2])), ("a ", leak_b(vec![3]))]);
    big.push(vec![(" SHA1", leak_b(vec![0xAB, 0xCD])), ("md5", leak_b(vec![1]))]);
    par_for(big.len(), &|i| checksum_one(ctx, big[i].clone()));
    // every short checksum TEXT (entries, separators, case, duplicates, prefixes) as the qualifier of a parsed PURL: if it is accepted
    // the stored text is the one canonical text, the typed accessor reads it back, and its text form is that text again
    {
        let toks: [&str; 11] = ["a", "b", "A", "a-", ":", ",", "00", "1F", "f", "0", "+1"];
        let depth = if thorough { 6 } else { 5 };
        let nt = toks.len();
        let total_t = (1..=depth).map(|l| nt.pow(l as u32)).sum::<usize>();
        par_for(total_t, &|mut idx| {
            let idx0 = idx;
            let mut l = 1; let mut block = nt;
            while idx >= block { idx -= block; l += 1; block = nt.pow(l as u32); }
            let mut text = String::new();
            for _ in 0..l { text.push_str(toks[idx % nt]); idx /= nt; }
            ctx.eval();
            // alone, and between neighbours whose keys sort right before / after `checksum` ('_' against a letter, letter case)
            let around = [("", ""), ("check_sum_url=u&", ""), ("", "&check_sum_url=u"), ("CHECKSUN=1&", "&checksu=1"), ("checksu=1&", "&Checksum_=2"),
                          ("", "&CHECK_SUM=1&checksum_a=2&checksuma=3"), ("checksum_a=2&check.sum=3&", "&check-sum=4&check0sum=5")];
            let (pre, post) = around[idx0 % around.len()];
            let s = format!("pkg:t/n?{pre}checksum={text}{post}");
            let want = refimpl::checksum_canon(&text);
            match parse_string(&s) {
                Err(p) => ctx.violate("C06.panic", "parsing never panics", json!(s), p, "no panic".into()),
                Ok(Err(_)) => { if want.is_some() { ctx.violate("C12.spelling", "equivalent spelling is accepted", json!(s), "Err".into(), format!("{want:?}")); } },
                Ok(Ok(p)) => {
                    let got = p.qualifiers().get("checksum").map(str::to_owned);
                    if want.is_none() || got != want { ctx.violate("C12.purl", "a PURL carries the one canonical text", json!(s), format!("{got:?}"), format!("{want:?}")); return; }
                    ctx.nontrivial();
                    match guarded(|| p.qualifiers().try_get_typed::<Checksum>().map(|o| o.map(|c| SmallString::try_from(c).map(|t| t.to_string())))) {
                        Ok(Ok(Some(Ok(t)))) if Some(&t) == got.as_ref() => {},
                        other => ctx.violate("C12.purl", "typed accessor reads the checksum back", json!(s), format!("{other:?}"), format!("{got:?}")),
                    }
                },
            }
        });
    }
    // the empty checksum
    ctx.eval();
    match guarded(|| GenericPurl::<String>::builder("t".to_owned(), "n").try_with_typed_qualifier(Some(Checksum::default())).map(|b| b.build().map(|p| p.to_string()))) {
        Ok(Ok(Ok(s))) if s == "pkg:t/n" => {},
        other => ctx.violate("C06.empty-checksum", "an empty Checksum neither panics nor overflows", json!("Checksum::default()"), format!("{other:?}"), "Ok(\"pkg:t/n\")".into()),
    }
    ctx.sample(json!("[(\"A\", [171]), (\"a\", [1, 255]), (\"ǅ\", [])]"));
}

fn checksum_one(ctx: &Ctx, seq: Vec<(&'static str, &'static [u8])>) {
    {
        ctx.eval();
        let inp = || { let d = format!("{seq:?}"); if d.len() > 600 { json!(format!("{} entries: {}...", seq.len(), d.chars().take(600).collect::<String>())) } else { json!(d) } };
        let mut model: BTreeMap<String, Vec<u8>> = BTreeMap::new();
        let mut c = Checksum::default();
        let mut c_raw = Checksum::default();
        let r = guarded(|| {
            for (a, b) in &seq {
                c.insert(a, *b);
                // insert_raw with upper-case hex and a case variant of the algorithm
                c_raw.insert_raw(&a.to_uppercase(), hex::encode_upper(b));
                model.insert(refimpl::lower(a), b.to_vec());
            }
        });
        if let Err(p) = r { ctx.violate("C06.panic", "Checksum operations never panic", inp(), p, "no panic".into()); return; }
        let want: String = model.iter().map(|(k, v)| format!("{k}:{}", hex::encode(v))).collect::<Vec<_>>().join(",");
        // typed accessors
        for (a, b) in &model {
            match c.get::<Vec<u8>>(a) { Ok(Some(v)) if v == *b => {}, other => ctx.violate("C12.get", "decoding an entry returns exactly the inserted bytes", inp(), format!("{a:?} -> {other:?}"), format!("{b:?}")) }
        }
        if c.iter().count() != model.len() || c.algorithms().count() != model.len() {
            ctx.violate("C12.replace", "inserting an algorithm again in another letter case replaces the earlier entry", inp(), format!("{} entries", c.iter().count()), format!("{}", model.len()));
        }
        for (which, cs) in [("insert", c.clone()), ("insert_raw", c_raw.clone())] {
            match guarded(|| SmallString::try_from(cs)) {
                Err(p) => ctx.violate("C06.panic", "Checksum -> text never panics (including the empty checksum)", inp(), p, "no panic".into()),
                Ok(Err(e)) => ctx.violate("C12.text", "a well-formed checksum has a text form", inp(), format!("{which}: {e:?}"), want.clone()),
                Ok(Ok(t)) => {
                    ctx.nontrivial();
                    if t.as_str() != want { ctx.violate("C12.text", "entries sorted by lower-cased algorithm, lower-case hex, same for every insertion order", inp(), format!("{which}: {t:?}"), want.clone()); }
                    if !want.is_empty() {
                        // parses back to the same entries (when no algorithm contains ',' and the text is unambiguous)
                        match Checksum::try_from(t.as_str()) {
                            Ok(back) => { for (a, b) in &model { if back.get::<Vec<u8>>(a).ok().flatten().as_deref() != Some(b.as_slice()) { ctx.violate("C12.parse", "text form parses back to the same entries", inp(), format!("{a:?}"), format!("{b:?}")); } } if back.iter().count() != model.len() { ctx.violate("C12.parse", "same number of entries", inp(), back.iter().count().to_string(), model.len().to_string()); } },
                            Err(e) => ctx.violate("C12.parse", "text form parses back", inp(), format!("{e:?}"), "Ok".into()),
                        }
                    }
                },
            }
        }
        // a PURL built with it carries that one canonical text, and reading it back gives the same entries
        if !model.is_empty() {
            match guarded(|| GenericPurl::<String>::builder("t".to_owned(), "n").try_with_typed_qualifier(Some(c.clone())).map(|b| b.build())) {
                Ok(Ok(Ok(p))) => {
                    if p.qualifiers().get("checksum") != Some(want.as_str()) { ctx.violate("C12.purl", "a PURL carries the one canonical text", inp(), format!("{:?}", p.qualifiers().get("checksum")), want.clone()); }
                    check_valid(ctx, &format!("{seq:?}"), "builder + typed checksum", &p, true);
                    let back = p.qualifiers().try_get_typed::<Checksum>();
                    match back { Ok(Some(b)) => { for (a, v) in &model { if b.get::<Vec<u8>>(a).ok().flatten().as_deref() != Some(v.as_slice()) { ctx.violate("C12.purl", "typed accessor gives the same entries", inp(), format!("{a:?}"), format!("{v:?}")); } } }, other => ctx.violate("C12.purl", "typed accessor reads the checksum back", inp(), format!("{:?}", other.map(|o| o.is_some())), "Ok(Some)".into()) }
                    // an equivalent spelling (order reversed, upper case, escaped) parses to the same text
                    let mut rev: Vec<String> = model.iter().map(|(k, v)| format!("{}:{}", refimpl::enc(refimpl::Comp::Qualifier, &k.to_uppercase()), hex::encode_upper(v))).collect();
                    rev.reverse();
                    let s = format!("pkg:t/n?CheckSum={}", rev.join("%2C"));
                    let upper_ok = model.keys().map(|k| refimpl::lower(&k.to_uppercase())).collect::<BTreeSet<_>>().len() == model.len() && model.keys().all(|k| refimpl::lower(&k.to_uppercase()) == *k);
                    if upper_ok {
                        match parse_string(&s) { Ok(Ok(p2)) => if p2.qualifiers().get("checksum") != Some(want.as_str()) { ctx.violate("C12.spelling", "any equivalent spelling carries the one canonical text", json!(s), format!("{:?}", p2.qualifiers().get("checksum")), want.clone()) }, other => ctx.violate("C12.spelling", "equivalent spelling is accepted", json!(s), format!("{:?}", other.map(|r| r.map(|p| Obs::of(&p)))), want.clone()) }
                    }
                },
                other => ctx.violate("C12.purl", "a PURL can be built with a well-formed checksum", inp(), format!("{:?}", other.map(|a| a.map(|b| b.map(|p| Obs::of(&p))))), "Ok".into()),
            }
        }
        // every way of reading the entries gives the same entries: iter(), &c as IntoIterator, algorithms(), get_raw, get_value (raw,
        // deref, decode), each entry once, whatever the order
        {
            let r = guarded(|| {
                let mut bad: Vec<String> = vec![];
                let want_pairs: BTreeMap<String, String> = model.iter().map(|(k, v)| (k.clone(), hex::encode(v))).collect();
                let it: BTreeMap<String, String> = c.iter().map(|(a, v)| (a.to_owned(), v.raw().to_owned())).collect();
                let it2: BTreeMap<String, String> = (&c).into_iter().map(|(a, v)| (a.to_owned(), (*v).to_owned())).collect();
                if it != want_pairs || c.iter().count() != want_pairs.len() { bad.push(format!("iter(): {it:?}")); }
                if it2 != want_pairs { bad.push(format!("&c into_iter: {it2:?}")); }
                let algs: BTreeSet<String> = c.algorithms().map(str::to_owned).collect();
                if algs != want_pairs.keys().cloned().collect::<BTreeSet<_>>() || c.algorithms().count() != want_pairs.len() { bad.push(format!("algorithms(): {algs:?}")); }
                for (a, h) in &want_pairs {
                    if c.get_raw(a) != Some(h.as_str()) { bad.push(format!("get_raw({a:?}) = {:?}", c.get_raw(a))); }
                    match c.get_value(a) {
                        Some(v) => { if v.raw() != h || &*v != h.as_str() || v.decode::<Vec<u8>>().ok().as_deref() != Some(model[a].as_slice()) { bad.push(format!("get_value({a:?})")); } },
                        None => bad.push(format!("get_value({a:?}) = None")),
                    }
                }
                if c.get_raw("no-such-algorithm").is_some() || c.get_value("no-such-algorithm").is_some() { bad.push("an absent algorithm is found".into()); }
                bad
            });
            match r {
                Ok(bad) if bad.is_empty() => {},
                Ok(bad) => ctx.violate("C12.get", "decoding an entry returns exactly the inserted bytes", inp(), format!("{bad:?}"), "every accessor agrees with the inserted entries".into()),
                Err(p) => ctx.violate("C06.panic", "Checksum operations never panic", inp(), p, "no panic".into()),
            }
        }
        // remove
        let mut c2 = c.clone();
        if let Some((a, _)) = seq.first() { c2.remove(&refimpl::lower(a)); if c2.get_raw(&refimpl::lower(a)).is_some() { ctx.violate("C12.remove", "remove removes", inp(), "still present".into(), "absent".into()); } }
    }
}

// ---- C14 / C04: user-supplied shapes ----
thread_local! {
    static CONV: Cell<u32> = Cell::new(0);
    static FIN: Cell<u32> = Cell::new(0);
    static CONV_ARG_OK: Cell<bool> = Cell::new(true);
    static FIN_BEFORE_CONV: Cell<bool> = Cell::new(false);
    static CFG: Cell<(u8, u8)> = Cell::new((0, 0));
    static LAST_ARG: std::cell::RefCell<String> = std::cell::RefCell::new(String::new());
}

#[derive(Debug, Clone, PartialEq, Eq, Hash, PartialOrd, Ord)]
struct Shape { ty: String, hook: u8 }
#[derive(Debug, PartialEq)]
enum ShapeErr { Parse(String), Conv, Hook }
impl From<ParseError> for ShapeErr { fn from(e: ParseError) -> Self { ShapeErr::Parse(format!("{e:?}")) } }

impl FromStr for Shape {
    type Err = ShapeErr;
    fn from_str(s: &str) -> Result<Self, ShapeErr> {
        CONV.with(|c| c.set(c.get() + 1));
        LAST_ARG.with(|a| *a.borrow_mut() = s.to_owned());
        if !refimpl::valid_type(s) { CONV_ARG_OK.with(|c| c.set(false)); }
        let (conv, hook) = CFG.with(|c| c.get());
        if conv == 1 { Err(ShapeErr::Conv) } else { Ok(Shape { ty: s.to_ascii_lowercase(), hook }) }
    }
}

pub const HOOKS: u8 = 13;
impl PurlShape for Shape {
    type Error = ShapeErr;
    fn package_type(&self) -> Cow<str> { Cow::Borrowed(&self.ty) }
    fn finish(&mut self, parts: &mut PurlParts) -> Result<(), ShapeErr> {
        FIN.with(|c| c.set(c.get() + 1));
        if CONV.with(|c| c.get()) == 0 && CFG.with(|c| c.get()).0 != 2 { FIN_BEFORE_CONV.with(|c| c.set(true)); }
        match self.hook {
            0 => {},
            1 => return Err(ShapeErr::Hook),
            2 => parts.name = SmallString::new(),
            3 => { parts.namespace = "hook/ns".into(); parts.version = "hv".into(); parts.subpath = "hs".into(); },
            4 => { parts.qualifiers.insert("e", "").unwrap(); parts.qualifiers.insert("Zk", "zv").unwrap(); },
            5 => { parts.qualifiers.insert("checksum", "B:00FF,a:11").unwrap(); },
            6 => { parts.qualifiers.insert("checksum", "zz").unwrap(); },
            7 => { parts.name = "Hooked Name".into(); parts.namespace = SmallString::new(); parts.version = SmallString::new(); parts.subpath = SmallString::new(); },
            8 => { parts.qualifiers.clear(); },
            // blanks the checksum: an empty value, removed by the generic checks BEFORE the checksum is looked at
            9 => { parts.qualifiers.insert("checksum", "").unwrap(); },
            // a checksum whose algorithm name has a non-ASCII capital only: canonicalised like any other
            10 => { parts.qualifiers.insert("checksum", "\u{3a3}1:AA,b:00").unwrap(); },
            // namespace and subpath with slashes at the ends: the generic checks do not touch them
            11 => { parts.namespace = "/team".into(); parts.subpath = "docs/".into(); },
            // the hook prunes the list through retain_mut (dropping `arch`, marking the others) and compares keys with literals
            _ => { parts.qualifiers.retain_mut(|k, v| { if k == "Arch" { return false; } if k == "z" && k != "zz" { v.push('!'); } true }); },
        }
        Ok(())
    }
}

pub fn suite_protocol(ctx: &Ctx, thorough: bool) {
    let n = if thorough { 4 } else { 3 };
    for conv in 0..2u8 { for hook in 0..HOOKS {
        let run = |s: &str| {
            ctx.eval();
            CFG.with(|c| c.set((conv, hook))); CONV.with(|c| c.set(0)); FIN.with(|c| c.set(0)); CONV_ARG_OK.with(|c| c.set(true)); FIN_BEFORE_CONV.with(|c| c.set(false));
            let generic = parse_string(s);
            let r = guarded(|| GenericPurl::<Shape>::from_str(s));
            let inp = || json!({"string": s, "conversion_fails": conv == 1, "hook": hook});
            let (c, f) = (CONV.with(|c| c.get()), FIN.with(|c| c.get()));
            let r = match r { Ok(r) => r, Err(p) => { ctx.violate("C06.panic", "parsing never panics with a user shape", inp(), p, "no panic".into()); return; } };
            if c > 1 || f > 1 || (f == 1 && c == 0) || FIN_BEFORE_CONV.with(|c| c.get()) {
                ctx.violate("C14.protocol", "conversion at most once, hook at most once and never before the conversion succeeded", inp(), format!("conversions={c} hooks={f}"), "<=1, <=1".into());
            }
            if !CONV_ARG_OK.with(|c| c.get()) {
                ctx.violate("C14.protocol", "conversion only sees a syntactically valid type substring", inp(), LAST_ARG.with(|a| a.borrow().clone()), "valid type".into());
            }
            if c == 1 {
                // passed exactly as written: the substring between the prefix (+ slashes) and the first '/'
                let arg = LAST_ARG.with(|a| a.borrow().clone());
                let body = s.strip_prefix("pkg:").map(|x| x.trim_start_matches('/')).unwrap_or("");
                let body = body.rsplit_once('#').map(|x| x.0).unwrap_or(body);
                let body = body.rsplit_once('?').map(|x| x.0).unwrap_or(body);
                let want = body.split('/').next().unwrap_or("");
                if arg != want { ctx.violate("C14.protocol", "type substring passed exactly as written", inp(), arg, want.to_owned()); }
            }
            if conv == 1 && c == 1 { if r != Err(ShapeErr::Conv) || f != 0 { ctx.violate("C14.error", "a conversion error is returned unchanged and no hook runs", inp(), format!("{r:?} hooks={f}"), "Err(Conv)".into()); } return; }
            if f == 1 && hook == 1 { if r != Err(ShapeErr::Hook) { ctx.violate("C14.error", "a hook error is returned unchanged", inp(), format!("{r:?}"), "Err(Hook)".into()); } return; }
            // compare with the type-agnostic outcome where the hook is the identity
            if let (Ok(Ok(g)), 0) = (&generic, hook) {
                match &r { Ok(p) => { let (a, b) = (Obs::of(p), Obs::of(g)); if a != b { ctx.violate("C14.identity", "an identity hook changes nothing", inp(), format!("{a:?}"), format!("{b:?}")); } }, Err(e) => ctx.violate("C14.identity", "an identity hook changes nothing", inp(), format!("{e:?}"), "Ok".into()) }
            }
            if let Ok(p) = &r {
                ctx.nontrivial();
                check_valid(ctx, s, "from_str::<user shape>", p, false);
                let o = Obs::of(p);
                let ok = match hook {
                    2 => false,
                    3 => o.namespace.as_deref() == Some("hook/ns") && o.version.as_deref() == Some("hv") && o.subpath.as_deref() == Some("hs"),
                    4 => p.qualifiers().get("zk") == Some("zv") && p.qualifiers().get("e").is_none(),
                    5 => p.qualifiers().get("checksum") == Some("a:11,b:00ff"),
                    6 => false,
                    7 => o.name == "Hooked Name" && o.namespace.is_none() && o.version.is_none() && o.subpath.is_none(),
                    8 => o.qualifiers.is_empty(),
                    9 => p.qualifiers().get("checksum").is_none(),
                    10 => p.qualifiers().get("checksum") == Some("b:00,\u{3c3}1:aa"),
                    11 => o.namespace.as_deref() == Some("/team") && o.subpath.as_deref() == Some("docs/"),
                    12 => p.qualifiers().get("arch").is_none() && match &generic { Ok(Ok(g)) => g.qualifiers().iter().filter(|(k, _)| k.as_str() != "arch").all(|(k, v)| p.qualifiers().get(k.as_str()).map(|x| x.trim_end_matches('!')) == Some(v)) && p.qualifiers().len() + (g.qualifiers().get("arch").is_some() as usize) == g.qualifiers().len(), _ => true },
                    _ => true,
                };
                if !ok { ctx.violate("C14.post", "what the hook writes is what the PURL reports, after the generic checks", inp(), format!("{o:?}"), format!("hook {hook}")); }
                if let Ok(t) = guarded(|| p.to_string()) { check_format(ctx, &inp(), &o, &t); }
            } else if f == 1 {
                let ok = match hook { 2 => matches!(&r, Err(ShapeErr::Parse(m)) if m.contains("Name")), 6 => matches!(&r, Err(ShapeErr::Parse(m)) if m.contains("InvalidQualifier") || m.contains("Name")),
                    // a hook that only adds empty values, clears the list or blanks the checksum cannot turn an accepted string into a refused one
                    4 | 8 | 9 | 10 | 11 | 12 => !matches!(&generic, Ok(Ok(_))),
                    _ => true };
                if !ok { ctx.violate("C14.post", "an emptied name / malformed checksum from the hook is refused with the generic error", inp(), format!("{r:?}"), "Parse(..)".into()); }
            }
        };
        let run_ref: &dyn Fn(&str) = &run;
        // single-threaded on purpose (thread-local counters); small domain
        fn rec(buf: &mut String, depth: usize, f: &dyn Fn(&str)) { f(buf); if depth == 0 { return; } for t in TOKENS.iter() { let l = buf.len(); buf.push_str(t); rec(buf, depth - 1, f); buf.truncate(l); } }
        let mut buf = String::from("pkg:Ty/");
        rec(&mut buf, n - 1, run_ref);
        for s in ["pkg:ty/n?k=v#s", "pkg:TY/a/b@1", "pkg:t%79/n", "pkg:/n", "pkg:ty", "http:x", "pkg:///Ty+1/n?checksum=a:00",
                  "pkg:ty/n?arch=x86&build=1&checksum=SHA1:AB&z=9&zz=8", "pkg:ty/n?ARCH=x&b=2&c=3&d=4", "pkg:ty/n?a=1&arch=x&b=2"] { run(s); }
        // a checksum that is malformed AS WRITTEN: still only the generic checks after the hook look at it -- the conversion and the hook
        // both run, and a hook that repairs (5), clears (8) or blanks (9) it makes the parse succeed
        for s in ["pkg:ty/n?checksum=zz", "pkg:Ty/n?a=1&checksum=sha1-b64:q80%3D&z=2", "pkg:ty/n?Checksum=a:0"] {
            run(s);
            ctx.eval();
            CFG.with(|c| c.set((conv, hook))); CONV.with(|c| c.set(0)); FIN.with(|c| c.set(0));
            let r = guarded(|| GenericPurl::<Shape>::from_str(s));
            let (c, f) = (CONV.with(|c| c.get()), FIN.with(|c| c.get()));
            let inp = json!({"string": s, "conversion_fails": conv == 1, "hook": hook});
            if c != 1 || (conv == 0 && f != 1) {
                ctx.violate("C14.protocol", "conversion at most once, hook at most once and never before the conversion succeeded", inp.clone(), format!("conversions={c} hooks={f} (a malformed checksum is examined only after the hook)"), "1, 1".into());
            }
            if conv == 0 && matches!(hook, 5 | 8 | 9) && !matches!(&r, Ok(Ok(_))) {
                ctx.violate("C14.post", "what the hook writes is what the PURL reports, after the generic checks", inp, format!("{:?}", r.map(|x| x.map(|p| p.to_string()))), "Ok: the hook replaced / removed the checksum".into());
            }
        }
        // SCALE: long type substrings (valid, and invalid only at the far end), long components, many qualifiers
        for n in [15usize, 16, 23, 24, 25, 64, 300, 1025] {
            run(&format!("pkg:{}/n", inflate("Ty", n))); run(&format!("pkg:{}%79/n", inflate("Ty", n))); run(&format!("pkg:{}!/n", inflate("ty", n)));
            run(&format!("pkg:ty/{}/n@{}", inflate("a", n), inflate("1.", n))); run(&format!("pkg:Ty/n?{}=v#{}", inflate("K", n), inflate("s/", n)));
            let qs: Vec<String> = (0..n).map(|i| format!("k{i}={}", if i % 3 == 0 { "" } else { "v" })).collect();
            run(&format!("pkg:Ty/n?{}", qs.join("&")));
        }
        // builder entry point: hook exactly once per build()
        CFG.with(|c| c.set((2, hook))); CONV.with(|c| c.set(0)); FIN.with(|c| c.set(0));
        ctx.eval();
        let r = guarded(|| GenericPurlBuilder::new(Shape { ty: "ty".into(), hook }, "n").with_qualifier("q", "").unwrap().build());
        let f = FIN.with(|c| c.get());
        if f != 1 { ctx.violate("C14.protocol", "the finishing hook runs exactly once per build()", json!({"hook": hook}), f.to_string(), "1".into()); }
        // ... also when the name is empty BEFORE the hook: the hook runs (it may supply the name), its error is returned unchanged
        CFG.with(|c| c.set((2, hook))); CONV.with(|c| c.set(0)); FIN.with(|c| c.set(0));
        let r0 = guarded(|| GenericPurlBuilder::new(Shape { ty: "ty".into(), hook }, "").build());
        let f0 = FIN.with(|c| c.get());
        ctx.eval();
        if f0 != 1 { ctx.violate("C14.protocol", "the finishing hook runs exactly once per build()", json!({"hook": hook, "name": ""}), f0.to_string(), "1".into()); }
        if let Ok(r0) = &r0 {
            let ok = match hook {
                1 => *r0 == Err(ShapeErr::Hook),
                7 => matches!(r0, Ok(p) if p.name() == "Hooked Name"),
                _ => matches!(r0, Err(ShapeErr::Parse(m)) if m.contains("Name")),
            };
            if !ok { ctx.violate("C14.post", "what the hook writes is what the PURL reports, after the generic checks", json!({"hook": hook, "name": ""}), format!("{:?}", r0.as_ref().map(|p| p.to_string())), format!("hook {hook}")); }
        }
        if let Ok(Ok(p)) = &r { check_valid(ctx, "builder", "build::<user shape>", p, false); }
    } }
    ctx.sample(json!({"string": "pkg:Ty/a?checksum=B:00", "hook": 5}));
}

/// C06 extras: long random strings, Display panic only for invalid user type, documented panics
pub fn suite_nopanic(ctx: &Ctx, thorough: bool, seed: u64) {
    let mut rng = Rng(seed.wrapping_mul(0x9E3779B97F4A7C15) | 1);
    let pool: Vec<char> = "pkg:/@?#&=%.,+-_ aZ09\u{0}\u{7f}é\u{1c5}\u{130}\u{10ffff}\u{feff}".chars().collect();
    let rounds = if thorough { 4000 } else { 400 };
    for r in 0..rounds {
        let len = match r % 5 { 0 => 1 << 20, 1 => 70_000, _ => rng.below(300) };
        let mut s = String::with_capacity(len + 8);
        if r % 2 == 0 { s.push_str("pkg:t/"); }
        while s.len() < len { if rng.below(7) == 0 { s.push_str(TOKENS[rng.below(TOKENS.len())]); } else { s.push(pool[rng.below(pool.len())]); } }
        ctx.eval();
        for (n, res) in [("String", parse_string(&s).map(|r| r.map(|p| p.to_string()))), ("SmallString", parse_small(&s).map(|r| r.map(|p| p.to_string()))), ("PackageType", parse_typed(&s).map(|r| r.map(|p| p.to_string())))] {
            match res { Err(p) => ctx.violate("C06.panic", "parsing / formatting never panics", json!({"len": s.len(), "head": s.chars().take(60).collect::<String>(), "instantiation": n, "seed": seed, "round": r}), p, "no panic".into()), Ok(Ok(_)) => ctx.nontrivial(), _ => {} }
        }
        if r % 50 == 0 {
            // builder with the raw string in every field
            let b = GenericPurlBuilder::new("t".to_owned(), s.as_str()).with_namespace(s.as_str()).with_version(s.as_str()).with_subpath(s.as_str());
            let b = match b.clone().with_qualifier("k", s.as_str()) { Ok(b) => b, Err(_) => b };
            if let Err(p) = guarded(|| b.build().map(|p| { let t = p.to_string(); let _ = GenericPurl::<String>::from_str(&t); })) {
                ctx.violate("C06.panic", "building / formatting arbitrary field values never panics", json!({"len": s.len(), "seed": seed, "round": r}), p, "no panic".into());
            }
        }
    }
    // the three documented panics are the only ones
    let q = Qualifiers::try_from_iter([("a", "1")]).unwrap();
    if guarded(|| q["zz"].clone()).is_ok() { ctx.violate("C06.documented", "indexing an absent qualifier panics (documented)", json!("q[\"zz\"]"), "no panic".into(), "panic".into()); }
    ctx.sample(json!({"len": 1 << 20, "kind": "random mixed Unicode with tokens"}));
}

/// C13: builder inputs through all four built-in string shapes
pub fn suite_shapes(ctx: &Ctx, thorough: bool) {
    let mut types_v: Vec<String> = ["t", "T", "Ab.C+d-1", "", "a b", "é", "t%20", "_", "9"].iter().map(|s| s.to_string()).collect();
    let mut strs_v: Vec<String> = ["", "a", "A/b", "é@?#", "%2F"].iter().map(|s| s.to_string()).collect();
    // SCALE: long types (upper-case letter far from the start / at the end) and long field values
    for n in [23usize, 24, 25, 64, 300, if thorough { 70000 } else { 1025 }] {
        types_v.push(inflate("aB", n)); types_v.push(format!("{}Z", inflate("a", n))); types_v.push(format!("{}!", inflate("a", n)));
    }
    strs_v.push(inflate("aB/", 24)); strs_v.push(inflate("é", 300)); strs_v.push("{x}`<>\"|^ \\".to_string()); strs_v.push("{fmt}".to_string()); strs_v.push("`x\"<>|^~".to_string());
    for ty in &types_v { let ty = ty.as_str(); for ns in &strs_v { let ns = ns.as_str(); for name in &strs_v { let name = name.as_str(); for ver in &strs_v { let ver = ver.as_str();
        ctx.eval();
        let mk = |o: Result<Obs, String>, s: Option<String>| (o, s);
        macro_rules! run { ($t:expr) => {{
            match guarded(|| GenericPurlBuilder::new($t, name).with_namespace(ns).with_version(ver).with_qualifier("K", "v").unwrap().build()) {
                Err(p) => mk(Err(format!("panic {p}")), None),
                Ok(Err(e)) => mk(Err(format!("{e:?}")), None),
                Ok(Ok(p)) => { let s = p.to_string(); mk(Ok(Obs::of(&p)), Some(s)) },
            }
        }}; }
        let a = run!(ty.to_owned());
        let b = run!(Cow::Borrowed(ty));
        let c = run!(Cow::<str>::Owned(ty.to_owned()));
        let d = run!(SmallString::from(ty));
        if a.0.is_ok() { ctx.nontrivial(); }
        for (n, x) in [("Cow::Borrowed", &b), ("Cow::Owned", &c), ("SmallString", &d)] {
            if *x != a { ctx.violate("C13.builder", "same acceptance / error / type / accessors / string for every built-in type parameter", json!({"type": ty, "namespace": ns, "name": name, "version": ver, "shape": n}), format!("{x:?}"), format!("{a:?}")); }
        }
    } } } }
    let _ = thorough;
    // a PURL with nothing but a type and a name, for every shape
    for name in &strs_v { for ty in ["t", "Generic"] {
        ctx.eval();
        let name = name.as_str();
        let a = guarded(|| GenericPurlBuilder::new(ty.to_owned(), name).build().map(|p| p.to_string()).map_err(|e| format!("{e:?}")));
        let b = guarded(|| GenericPurlBuilder::new(Cow::Borrowed(ty), name).build().map(|p| p.to_string()).map_err(|e| format!("{e:?}")));
        let c = guarded(|| GenericPurlBuilder::new(Cow::<str>::Owned(ty.to_owned()), name).build().map(|p| p.to_string()).map_err(|e| format!("{e:?}")));
        let d = guarded(|| GenericPurlBuilder::new(SmallString::from(ty), name).build().map(|p| p.to_string()).map_err(|e| format!("{e:?}")));
        for (n, x) in [("Cow::Borrowed", &b), ("Cow::Owned", &c), ("SmallString", &d)] {
            if *x != a { ctx.violate("C13.builder", "same acceptance / error / type / accessors / string for every built-in type parameter", json!({"type": ty, "name": name, "shape": n, "only": "type and name"}), format!("{x:?}"), format!("{a:?}")); }
        }
    } }
    // borrowed type strings that share their start address (prefixes of one buffer), shortest first and longest first
    for base in ["deb/curl", "Npm pkg", "a.b+c d", "AbC"] {
        let mut lens: Vec<usize> = (0..=base.len()).collect();
        for pass in 0..2 {
            if pass == 1 { lens.reverse(); }
            for &n in &lens {
                ctx.eval();
                let t = &base[..n];
                let a = guarded(|| GenericPurlBuilder::new(t.to_owned(), "n").build().map(|p| p.to_string()).map_err(|e| format!("{e:?}")));
                let b = guarded(|| GenericPurlBuilder::new(Cow::Borrowed(t), "n").build().map(|p| p.to_string()).map_err(|e| format!("{e:?}")));
                if a != b { ctx.violate("C13.builder", "same acceptance / error / type / accessors / string for every built-in type parameter", json!({"type": t, "borrowed_prefix_of": base, "shape": "Cow::Borrowed"}), format!("{b:?}"), format!("{a:?}")); }
            }
        }
    }
    ctx.sample(json!({"type": "Ab.C+d-1", "shapes": ["String", "Cow::Borrowed", "Cow::Owned", "SmallString"]}));
    let _ = (PackageError::UnsupportedType, PurlField::Name);
}
